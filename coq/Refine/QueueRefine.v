(* Refine/QueueRefine.v — the part of src/paulie/classifier/morph_factory.py that tools/py2coq.py (py2coq_queue.py) generates from /repo's working tree on every run of C03:
   (1) the work queue (MorphFactory._get_anti_commutates, _get_max_connected, _append_to_queue, _get_queue): for the members of one connected component (distinct strings of one
       length whose anticommutation graph is connected) _get_queue terminates and returns a permutation of its input in which every member after the first anticommutes with an
       earlier one — the order the canonical-graph pipeline relies on;
   (2) the dependency test of append_to_center (check_dependency_one_leg with get_one_vertices, _gen_one_legs, get_vertices, is_empty_legs): exactly which relations it sees, and
       a refutation witness — the listed classifier defect — on the source's own test;
   (3) the primitive edits of the graph (find, is_included, append, remove, replace, get_center, append_to_center): vertex accounting whenever an edit returns;
   (4) the look-ups the steps are written in (get_lits, lit, get_pq) and the store of cut-off vertices (append_delayed, restore_delayed). *)
From PauLie Require Import Pauli Collection CollectionT ParserT OtocLoopT MatrixT ClosureN ClosureT.
From PauLieRefine Require Import PySem.
From PauLieGen Require Import QueueGen.
From Coq Require Import Lia ZifyBool Permutation Sorted.
Open Scope Z_scope.

(* p and g anticommute (strings of one length) *)
Definition anti (p g : pstr) : bool := match commutes_code p g with Ok c => negb c | ValueError => false end.
Definition AC (p : pstr) (l : list pstr) : list pstr := filter (fun g => negb (pstr_eqb g p) && anti p g) l.
Definition SameLen (n : nat) (l : list pstr) : Prop := forall g, In g l -> length g = n.

Lemma commutes_code_len p g n : length p = n -> length g = n -> exists c, commutes_code p g = Ok c.
Proof. intros Hp Hg. unfold commutes_code. rewrite Hp, Hg, Nat.eqb_refl. eexists. reflexivity. Qed.

Lemma gen_q_anti_acc p n : length p = n -> forall l acc, SameLen n l ->
  fold_left (fun (o_ : fres (list pstr)) (v_g : pstr) => match o_ with FRet acc_ => (if (negb (pstr_eqb v_g p)) then (match commutes_code p v_g with Ok c_ => if (negb c_) then (FRet (acc_ ++ [v_g])) else (FRet acc_) | ValueError => FRaised (EUser "ValueError"%string) end) else (FRet acc_)) | FNone => FNone | FRaised e_ => FRaised e_ | FNonInt => FNonInt | FOutOfFuel => FOutOfFuel end) l (FRet acc) = FRet (acc ++ AC p l).
Proof.
  intros Hp. induction l as [|g l IH]; intros acc Hl; [cbn; rewrite app_nil_r; reflexivity|].
  cbn [fold_left AC filter]. destruct (commutes_code_len p g n Hp (Hl g (or_introl eq_refl))) as [c Hc]. unfold anti at 1. rewrite Hc.
  destruct (pstr_eqb g p); cbn [negb andb].
  - rewrite IH by (intros x Hx; apply Hl; right; exact Hx). reflexivity.
  - destruct c; cbn [negb]; rewrite IH by (intros x Hx; apply Hl; right; exact Hx); [reflexivity|]. rewrite <- app_assoc. reflexivity.
Qed.
Theorem gen_q_anti_commutates p l n : length p = n -> SameLen n l -> py_Q__get_anti_commutates p l = FRet (AC p l).
Proof. intros Hp Hl. unfold py_Q__get_anti_commutates. apply (gen_q_anti_acc p n Hp l [] Hl). Qed.

Lemma AC_In p l g : In g (AC p l) <-> In g l /\ g <> p /\ anti p g = true.
Proof.
  unfold AC. rewrite filter_In. split.
  - intros [H1 H2]. apply andb_prop in H2. destruct H2 as [H2 H3]. repeat split; [exact H1| |exact H3]. intros ->. rewrite (proj2 (pstr_eqb_eq p p) eq_refl) in H2. discriminate H2.
  - intros [H1 [H2 H3]]. split; [exact H1|]. rewrite H3, andb_true_r. destruct (pstr_eqb g p) eqn:E; [apply pstr_eqb_eq in E; contradiction|reflexivity].
Qed.

(* _get_max_connected: some member together with its anticommuting members *)
Theorem gen_q_max_connected l n : l <> [] -> SameLen n l -> exists h, In h l /\ py_Q__get_max_connected l = FRet (h, AC h l).
Proof.
  intros Hne Hl. unfold py_Q__get_max_connected. destruct l as [|g0 l0] eqn:EL; [congruence|]. rewrite <- EL in *.
  assert (E1 : (Z.of_nat (length l) =? 0) = false) by (rewrite EL; cbn [length]; lia). rewrite E1.
  assert (E2 : negb (Nat.eqb (length l) 0) = true) by (rewrite EL; reflexivity). rewrite E2.
  cbv zeta. match goal with |- context [py_Q__get_anti_commutates ?h l] => set (h0 := h) end.
  assert (H0 : In h0 l) by (unfold h0; rewrite EL; left; reflexivity).
  rewrite (gen_q_anti_commutates _ l n (Hl _ H0) Hl). cbv beta iota.
  match goal with |- context [fold_left ?f l (FRet ?s)] =>
    assert (G : forall l' h, In h l -> (forall x, In x l' -> In x l) -> exists h', In h' l /\ fold_left f l' (FRet (h, AC h l)) = FRet (h', AC h' l)) end.
  { induction l' as [|p l' IH]; intros h Hh Hsub; [exists h; split; [exact Hh|reflexivity]|].
    cbn [fold_left]. cbv beta iota zeta. rewrite (gen_q_anti_commutates p l n (Hl p (Hsub p (or_introl eq_refl))) Hl).
    destruct (Z.of_nat (length (AC p l)) >? Z.of_nat (length (AC h l))); apply IH; try assumption; try (apply Hsub; left; reflexivity); intros x Hx; apply Hsub; right; exact Hx. }
  destruct (G l h0 H0 (fun x Hx => Hx)) as [h' [Hh' HF]]. exists h'. split; [exact Hh'|]. rewrite HF. reflexivity.
Qed.

(* ---- the order the pipeline relies on ---- *)
Definition HasPartner (q : list pstr) (p : pstr) : Prop := exists a, In a q /\ anti p a = true.
Inductive CO : list pstr -> Prop :=
| CO_one x : CO [x]
| CO_snoc q y : CO q -> HasPartner q y -> CO (q ++ [y]).
Lemma HasPartner_incl q q' p : incl q q' -> HasPartner q p -> HasPartner q' p.
Proof. intros Hi [a [Ha Hp]]. exists a. split; [apply Hi; exact Ha|exact Hp]. Qed.
Lemma CO_nonempty q : CO q -> q <> [].
Proof. intros H. destruct H; [discriminate|]. destruct q; discriminate. Qed.
Lemma CO_insert A p : A <> [] -> HasPartner A p -> forall B, CO (A ++ B) -> CO (A ++ p :: B).
Proof.
  intros HA HP B. induction B as [|y B' IH] using rev_ind; intros H.
  - rewrite app_nil_r in H. apply (CO_snoc A p H HP).
  - rewrite app_assoc in H. inversion H as [x Hx|q0 y0 Hq Hy Heq].
    + destruct (A ++ B') eqn:E; [destruct A; [congruence|discriminate E]|]. destruct l; discriminate Hx.
    + apply app_inj_tail in Heq. destruct Heq as [-> ->].
      replace (A ++ p :: B' ++ [y]) with ((A ++ p :: B') ++ [y]) by (rewrite <- app_assoc; reflexivity).
      apply CO_snoc; [apply IH; exact Hq|]. apply (HasPartner_incl (A ++ B')); [|exact Hy].
      intros z Hz. apply in_app_iff in Hz. apply in_app_iff. destruct Hz as [Hz|Hz]; [left; exact Hz|right; right; exact Hz].
Qed.
Lemma CO_star h : forall l, (forall a, In a l -> anti a h = true) -> CO (h :: l).
Proof.
  induction l as [|y l IH] using rev_ind; intros H; [apply CO_one|].
  change (h :: l ++ [y]) with ((h :: l) ++ [y]). apply CO_snoc; [apply IH; intros a Ha; apply H; apply in_app_iff; left; exact Ha|].
  exists h. split; [left; reflexivity|apply H; apply in_app_iff; right; left; reflexivity].
Qed.

(* ---- list facts ---- *)
Lemma In_memS p l : In p l -> memS p l = true. Proof. apply memS_In. Qed.
Lemma notIn_memS p l : ~ In p l -> memS p l = false. Proof. apply memS_false. Qed.
Lemma remove1_perm p : forall l, In p l -> Permutation (p :: remove1 p l) l.
Proof.
  induction l as [|a l IH]; intros H; [destruct H|]. cbn [remove1]. destruct (pstr_eqb p a) eqn:E.
  - apply pstr_eqb_eq in E. subst a. apply Permutation_refl.
  - destruct H as [->|H]; [rewrite (proj2 (pstr_eqb_eq p p) eq_refl) in E; discriminate E|].
    eapply Permutation_trans; [apply perm_swap|]. apply perm_skip. apply IH. exact H.
Qed.
Lemma remove1_length p l : In p l -> S (length (remove1 p l)) = length l.
Proof. intros H. apply (Permutation_length (remove1_perm p l H)). Qed.
Lemma find_notin a : forall pre l, ~ In a pre -> Collection.find a (pre ++ l) = option_map (fun k => (length pre + k)%nat) (Collection.find a l).
Proof.
  induction pre as [|x pre IH]; intros l H; [cbn; destruct (Collection.find a l); reflexivity|]. cbn [app Collection.find length].
  destruct (pstr_eqb a x) eqn:E; [apply pstr_eqb_eq in E; subst x; exfalso; apply H; left; reflexivity|].
  rewrite IH by (intros H1; apply H; right; exact H1). destruct (Collection.find a l); reflexivity.
Qed.
Lemma find_head a l : Collection.find a (a :: l) = Some 0%nat.
Proof. cbn [Collection.find]. rewrite (proj2 (pstr_eqb_eq a a) eq_refl). reflexivity. Qed.
Lemma insert_at_app pre x : forall l, insert_at (length pre) x (pre ++ l) = pre ++ x :: l.
Proof. induction pre as [|a pre IH]; intros l; [destruct l; reflexivity|]. cbn [length app insert_at]. rewrite IH. reflexivity. Qed.
Lemma filter_first {A} (f : A -> bool) : forall l a r, filter f l = a :: r -> exists pre suf, l = pre ++ a :: suf /\ filter f pre = [] /\ filter f suf = r /\ f a = true.
Proof.
  induction l as [|x l IH]; intros a r H; [discriminate H|]. cbn [filter] in H. destruct (f x) eqn:E.
  - injection H as -> Hr. exists [], l. repeat split; [exact Hr|exact E].
  - destruct (IH a r H) as [pre [suf [-> [H1 [H2 H3]]]]]. exists (x :: pre), suf. repeat split; [cbn [filter]; rewrite E; exact H1|exact H2|exact H3].
Qed.
Lemma find_cons_ne a x l : a <> x -> Collection.find a (x :: l) = option_map S (Collection.find a l).
Proof. intros H. cbn [Collection.find]. destruct (pstr_eqb a x) eqn:E; [apply pstr_eqb_eq in E; contradiction|reflexivity]. Qed.
Lemma find_In a : forall l, In a l -> exists k, Collection.find a l = Some k.
Proof.
  induction l as [|x l IH]; intros H; [destruct H|]. cbn [Collection.find]. destruct (pstr_eqb a x) eqn:E; [eexists; reflexivity|].
  destruct H as [->|H]; [rewrite (proj2 (pstr_eqb_eq a a) eq_refl) in E; discriminate E|]. destruct (IH H) as [k ->]. eexists. reflexivity.
Qed.
Lemma norm_insert_nat len (k : nat) : (k <= len)%nat -> norm_insert len (Z.of_nat k) = k.
Proof. intros H. unfold norm_insert. assert (E : (Z.of_nat k <? 0) = false) by lia. rewrite E. lia. Qed.
Lemma NoDup_app_l {A} (a b : list A) : NoDup (a ++ b) -> NoDup a.
Proof. induction a as [|x a IH]; intros H; [constructor|]. inversion H as [|y l Hn Hd]. constructor; [intros Hx; apply Hn; apply in_app_iff; left; exact Hx|apply IH; exact Hd]. Qed.
Lemma NoDup_app_disj {A} (a b : list A) x : NoDup (a ++ b) -> In x a -> In x b -> False.
Proof.
  induction a as [|y a IH]; intros H Ha Hb; [destruct Ha|]. inversion H as [|z l Hn Hd]. destruct Ha as [->|Ha]; [apply Hn; apply in_app_iff; right; exact Hb|apply IH; assumption].
Qed.
Lemma NoDup_mid_notin {A} (pre : list A) a suf : NoDup (pre ++ a :: suf) -> ~ In a pre /\ ~ In a suf /\ (forall x, In x suf -> ~ In x pre).
Proof.
  intros H. pose proof (NoDup_remove_2 _ _ _ H) as H2. repeat split.
  - intros Hx. apply H2. apply in_app_iff. left. exact Hx.
  - intros Hx. apply H2. apply in_app_iff. right. exact Hx.
  - intros x Hs Hp. apply (NoDup_app_disj pre (a :: suf) x H Hp). right. exact Hs.
Qed.

(* one call of _append_to_queue: the first member of the list (from position i on) that anticommutes with a queued string is moved into the queue,
   behind its first partner (several partners) or at the end (one partner) *)
Lemma append_loop n : forall f i q ps, NoDup (q ++ ps) -> CO q -> SameLen n (q ++ ps) -> 0 <= i ->
  (exists j, (Z.to_nat i <= j < length ps)%nat /\ HasPartner q (nth j ps [])) -> (length ps - Z.to_nat i < f)%nat ->
  exists q' ps', py_Q__append_to_queue_loop1 f i q ps = FRet (q', ps') /\ Permutation (q' ++ ps') (q ++ ps) /\ CO q' /\ S (length ps') = length ps.
Proof.
  induction f as [|f IH]; intros i q ps Hnd Hco Hlen Hi [j [Hj Hpart]] Hf; [lia|].
  cbn beta iota delta [py_Q__append_to_queue_loop1].
  assert (E1 : (i <? Z.of_nat (length ps)) = true) by lia. rewrite E1. cbv zeta.
  set (p := @nth pstr (Z.to_nat i) ps []).
  assert (Hp : In p ps) by (apply nth_In; lia).
  assert (Hpq : ~ In p q) by (intros Hx; exact (NoDup_app_disj q ps p Hnd Hx Hp)).
  rewrite (notIn_memS p q Hpq).
  assert (Lp : length p = n) by (apply Hlen; apply in_app_iff; right; exact Hp).
  assert (Lq : SameLen n q) by (intros g Hg; apply Hlen; apply in_app_iff; left; exact Hg).
  rewrite (gen_q_anti_commutates p q n Lp Lq). cbv beta iota.
  destruct (AC p q) as [|a0 rest] eqn:EA.
  - (* no partner: continue *)
    change (Z.of_nat (length (@nil pstr)) =? 0) with true. cbv beta iota.
    apply IH; try assumption; try lia. exists j. split; [|exact Hpart].
    assert (j <> Z.to_nat i).
    { intros ->. fold p in Hpart. destruct Hpart as [a [Ha Hap]]. assert (Hin : In a (AC p q)) by (apply AC_In; repeat split; [exact Ha|intros ->; contradiction|exact Hap]). rewrite EA in Hin. destruct Hin. }
    lia.
  - assert (E2 : (Z.of_nat (length (a0 :: rest)) =? 0) = false) by (cbn [length]; lia). rewrite E2.
    assert (Ha0 : In a0 (AC p q)) by (rewrite EA; left; reflexivity). apply AC_In in Ha0. destruct Ha0 as [Ha0q [Ha0p Hanti]].
    rewrite (In_memS p ps Hp).
    destruct rest as [|a1 rest'].
    + (* one partner: append *)
      change (Z.of_nat (length [a0]) >? 1) with false. cbv beta iota.
      exists (q ++ [p]), (remove1 p ps). split; [reflexivity|]. split; [|split].
      * rewrite <- app_assoc. apply Permutation_app_head. cbn [app]. apply remove1_perm. exact Hp.
      * apply CO_snoc; [exact Hco|]. exists a0. split; assumption.
      * apply remove1_length. exact Hp.
    + (* several partners: behind the first one *)
      assert (E3 : (Z.of_nat (length (a0 :: a1 :: rest')) >? 1) = true) by (cbn [length]; lia). rewrite E3.
      destruct (filter_first _ _ _ _ EA) as [pre [suf [Eq [Fpre [Fsuf Fa0]]]]]. subst q.
      assert (Hndq : NoDup (pre ++ a0 :: suf)) by (apply (NoDup_app_l _ ps Hnd)).
      destruct (NoDup_mid_notin pre a0 suf Hndq) as [N1 [N2 N3]].
      set (Q := pre ++ a0 :: p :: suf).
      match goal with |- context [fold_left ?F0 (a0 :: a1 :: rest') (FRet ?s)] => set (F := F0) end.
      assert (Hfirst : F (FRet (Z.of_nat (length (pre ++ a0 :: suf)), pre ++ a0 :: suf)) a0 = FRet (Z.of_nat (length pre), Q)).
      { unfold F. cbv beta iota zeta. rewrite (In_memS a0 _ Ha0q). rewrite (find_notin a0 pre (a0 :: suf) N1), find_head. cbn [option_map]. rewrite Nat.add_0_r.
        assert (E4 : (Z.of_nat (length pre) <? Z.of_nat (length (pre ++ a0 :: suf))) = true) by (rewrite app_length; cbn [length]; lia). rewrite E4.
        replace (Z.of_nat (length pre) + 1) with (Z.of_nat (S (length pre))) by lia. rewrite norm_insert_nat by (rewrite app_length; cbn [length]; lia).
        f_equal. f_equal. replace (pre ++ a0 :: suf) with ((pre ++ [a0]) ++ suf) by (rewrite <- app_assoc; reflexivity).
        replace (S (length pre)) with (length (pre ++ [a0])) by (rewrite app_length; cbn [length]; lia). rewrite insert_at_app. unfold Q. rewrite <- app_assoc. reflexivity. }
      assert (Hrest : forall r, (forall a, In a r -> In a suf) -> fold_left F r (FRet (Z.of_nat (length pre), Q)) = FRet (Z.of_nat (length pre), Q)).
      { induction r as [|a r IHr]; intros Hr; [reflexivity|]. cbn [fold_left].
        assert (Has : In a suf) by (apply Hr; left; reflexivity).
        assert (Hstep : F (FRet (Z.of_nat (length pre), Q)) a = FRet (Z.of_nat (length pre), Q)).
        { unfold F. cbv beta iota zeta. assert (HaQ : In a Q) by (unfold Q; apply in_app_iff; right; right; right; exact Has). rewrite (In_memS a Q HaQ).
          destruct (find_In a suf Has) as [k Hk]. unfold Q.
          rewrite (find_notin a pre _ (N3 a Has)). rewrite (find_cons_ne a a0) by (intros ->; contradiction).
          rewrite (find_cons_ne a p) by (intros ->; apply Hpq; apply in_app_iff; right; right; exact Has).
          rewrite Hk. cbn [option_map].
          assert (E5 : (Z.of_nat (length pre + S (S k)) <? Z.of_nat (length pre)) = false) by lia. rewrite E5. reflexivity. }
        rewrite Hstep. apply IHr. intros x Hx. apply Hr. right. exact Hx. }
      match goal with |- context [fold_left F (a0 :: ?r) ?s] => change (fold_left F (a0 :: r) s) with (fold_left F r (F s a0)) end.
      rewrite Hfirst, Hrest by (intros a Ha; rewrite <- Fsuf in Ha; apply filter_In in Ha; exact (proj1 Ha)).
      cbv beta iota.
      exists Q, (remove1 p ps). split; [reflexivity|]. split; [|split].
      * unfold Q. rewrite <- !app_assoc. apply Permutation_app_head. cbn [app]. apply perm_skip.
        apply Permutation_trans with (p :: suf ++ remove1 p ps); [apply Permutation_refl|].
        apply Permutation_trans with (suf ++ p :: remove1 p ps); [apply Permutation_middle|]. apply Permutation_app_head. apply remove1_perm. exact Hp.
      * unfold Q. replace (pre ++ a0 :: p :: suf) with ((pre ++ [a0]) ++ p :: suf) by (rewrite <- app_assoc; reflexivity).
        apply CO_insert; [destruct pre; discriminate| |rewrite <- app_assoc; cbn [app]; exact Hco].
        exists a0. split; [apply in_app_iff; right; left; reflexivity|exact Hanti].
      * apply remove1_length. exact Hp.
Qed.

Theorem gen_q_append_to_queue n fuel q ps : NoDup (q ++ ps) -> CO q -> SameLen n (q ++ ps) ->
  (exists p, In p ps /\ HasPartner q p) -> (length ps < fuel)%nat ->
  exists q' ps', py_Q__append_to_queue fuel q ps = FRet (q', ps') /\ Permutation (q' ++ ps') (q ++ ps) /\ CO q' /\ S (length ps') = length ps.
Proof.
  intros Hnd Hco Hlen [p [Hp Hpart]] Hf. unfold py_Q__append_to_queue. apply (append_loop n); try assumption; try lia.
  destruct (In_nth ps p [] Hp) as [j [Hj Hnth]]. exists j. split; [cbn; lia|rewrite Hnth; exact Hpart].
Qed.

(* the anticommutation graph on l is connected: no proper non-empty part is closed under "anticommutes with" *)
Definition CutConnected (l : list pstr) : Prop :=
  forall S, S <> [] -> incl S l -> (exists y, In y l /\ ~ In y S) -> exists a b, In a S /\ In b l /\ ~ In b S /\ anti b a = true.

(* the while loop of _get_queue *)
Lemma queue_loop n gens : CutConnected gens -> forall f g0 q ps h ac, NoDup (q ++ ps) -> CO q -> SameLen n (q ++ ps) -> Permutation (q ++ ps) gens ->
  (length ps + 1 < f)%nat -> exists r, py_Q__get_queue_loop1 f g0 ps q h ac = FRet r /\ Permutation r gens /\ CO r.
Proof.
  intros Hcut. induction f as [|f IH]; intros g0 q ps h ac Hnd Hco Hlen Hperm Hf; [lia|].
  cbn beta iota delta [py_Q__get_queue_loop1].
  destruct ps as [|p0 ps0] eqn:EP.
  - change (Z.of_nat (length (@nil pstr)) >? 0) with false. cbv beta iota. exists q. rewrite app_nil_r in Hperm. split; [reflexivity|split; assumption].
  - rewrite <- EP in *. assert (E : (Z.of_nat (length ps) >? 0) = true) by (rewrite EP; cbn [length]; lia). rewrite E.
    assert (Hex : exists p, In p ps /\ HasPartner q p).
    { destruct (Hcut q (CO_nonempty q Hco)) as [a [b [Ha [Hb [Hnb Hab]]]]].
      - intros x Hx. apply (Permutation_in x Hperm). apply in_app_iff. left. exact Hx.
      - exists p0. split; [apply (Permutation_in p0 Hperm); apply in_app_iff; right; rewrite EP; left; reflexivity|].
        intros Hx. apply (NoDup_app_disj q ps p0 Hnd Hx). rewrite EP. left. reflexivity.
      - exists b. split; [|exists a; split; assumption]. apply (Permutation_in b (Permutation_sym Hperm)) in Hb. apply in_app_iff in Hb. destruct Hb as [Hb|Hb]; [contradiction|exact Hb]. }
    destruct (gen_q_append_to_queue n f q ps Hnd Hco Hlen Hex ltac:(lia)) as [q' [ps' [HA [HP [HC HL]]]]].
    rewrite HA. cbv beta iota. apply IH.
    + apply (Permutation_NoDup (Permutation_sym HP) Hnd).
    + exact HC.
    + intros g Hg. apply Hlen. apply (Permutation_in g HP Hg).
    + apply (Permutation_trans HP Hperm).
    + lia.
Qed.

Lemma anti_sym p g : anti p g = anti g p.
Proof. unfold anti, commutes_code. rewrite (Nat.eqb_sym (length g) (length p)). destruct (Nat.eqb (length p) (length g)); [|reflexivity]. rewrite Z.eqb_sym. reflexivity. Qed.
Lemma In_remove1_ne x a : forall l, In x l -> x <> a -> In x (remove1 a l).
Proof.
  induction l as [|y l IH]; intros H Hne; [destruct H|]. cbn [remove1]. destruct (pstr_eqb a y) eqn:E.
  - apply pstr_eqb_eq in E. subst y. destruct H as [H|H]; [congruence|exact H].
  - destruct H as [->|H]; [left; reflexivity|right; apply IH; assumption].
Qed.
Definition removes (r l : list pstr) : list pstr := fold_left (fun l a => remove1 a l) r l.
Lemma removes_perm : forall r l, NoDup r -> incl r l -> Permutation (r ++ removes r l) l.
Proof.
  induction r as [|a r IH]; intros l Hnd Hi; [apply Permutation_refl|]. cbn [app removes fold_left]. fold (removes r (remove1 a l)).
  inversion Hnd as [|x y Hn Hd]. subst.
  apply Permutation_trans with (a :: remove1 a l); [apply perm_skip; apply IH; [exact Hd|]|apply remove1_perm; apply Hi; left; reflexivity].
  intros x Hx. apply In_remove1_ne; [apply Hi; right; exact Hx|intros ->; contradiction].
Qed.

(* C03 read on the source: for the distinct members (one length) of a connected component _get_queue terminates and returns them all, each once, in an
   order in which every member after the first anticommutes with an earlier one *)
Theorem gen_q_get_queue n gens fuel : gens <> [] -> NoDup gens -> SameLen n gens -> CutConnected gens -> (length gens + 2 < fuel)%nat ->
  exists r, py_Q__get_queue fuel gens = FRet r /\ Permutation r gens /\ CO r.
Proof.
  intros Hne Hnd Hlen Hcut Hf. unfold py_Q__get_queue. cbv zeta.
  pose proof (sort_perm gens) as HS. set (srt := sort_strs gens) in *.
  assert (Hne' : srt <> []) by (intros E; rewrite E in HS; apply Permutation_nil in HS; contradiction).
  assert (Hlen' : SameLen n srt) by (intros g Hg; apply Hlen; apply (Permutation_in g HS Hg)).
  assert (Hnd' : NoDup srt) by (apply (Permutation_NoDup (Permutation_sym HS) Hnd)).
  destruct (gen_q_max_connected srt n Hne' Hlen') as [h [Hh HM]]. rewrite HM. cbv beta iota. rewrite (In_memS h srt Hh). cbn [app].
  set (ac := AC h srt).
  assert (Hac : forall a, In a ac -> In a srt /\ a <> h /\ anti h a = true) by (intros a Ha; apply AC_In; exact Ha).
  assert (Hndac : NoDup ac) by (apply NoDup_filter; exact Hnd').
  assert (Hinc : incl ac (remove1 h srt)) by (intros a Ha; destruct (Hac a Ha) as [H1 [H2 _]]; apply In_remove1_ne; assumption).
  match goal with |- context [fold_left ?F0 ac (FRet ?s)] => set (F := F0) end.
  assert (HF : forall r new q, NoDup r -> incl r new -> (forall a, In a r -> ~ In a q) -> fold_left F r (FRet (new, q)) = FRet (removes r new, q ++ r)).
  { induction r as [|a r IHr]; intros new q Hr Hi Hq; [cbn; rewrite app_nil_r; reflexivity|]. cbn [fold_left]. inversion Hr as [|x y Hn Hd]. subst.
    assert (Hstep : F (FRet (new, q)) a = FRet (remove1 a new, q ++ [a])).
    { unfold F. cbv beta iota zeta. rewrite (In_memS a new (Hi a (or_introl eq_refl))), (notIn_memS a q (Hq a (or_introl eq_refl))). reflexivity. }
    rewrite Hstep, IHr; [rewrite <- app_assoc; reflexivity|exact Hd| |].
    - intros x Hx. apply In_remove1_ne; [apply Hi; right; exact Hx|intros ->; contradiction].
    - intros x Hx Hin. apply in_app_iff in Hin. destruct Hin as [Hin|[->|[]]]; [exact (Hq x (or_intror Hx) Hin)|contradiction]. }
  rewrite (HF ac (remove1 h srt) [h] Hndac Hinc) by (intros a Ha [<-|[]]; destruct (Hac h Ha) as [_ [H2 _]]; congruence).
  cbv beta iota. cbn [app].
  assert (HP : Permutation ((h :: ac) ++ removes ac (remove1 h srt)) gens).
  { cbn [app]. apply Permutation_trans with (h :: remove1 h srt); [apply perm_skip; apply removes_perm; assumption|].
    apply Permutation_trans with srt; [apply remove1_perm; exact Hh|exact HS]. }
  apply (queue_loop n gens Hcut).
  - apply (Permutation_NoDup (Permutation_sym HP) Hnd).
  - apply CO_star. intros a Ha. rewrite anti_sym. apply (Hac a Ha).
  - intros g Hg. apply Hlen. apply (Permutation_in g HP Hg).
  - exact HP.
  - pose proof (Permutation_length HP) as HL. rewrite app_length in HL. cbn [length] in HL. lia.
Qed.

(* the hypothesis in its familiar form: any two members are joined by a path of anticommuting members *)
Inductive Reach (l : list pstr) : pstr -> pstr -> Prop :=
| R_refl a : In a l -> Reach l a a
| R_step a b c : Reach l a b -> In c l -> anti c b = true -> Reach l a c.
Lemma reach_cut l S : incl S l -> forall a y, Reach l a y -> In a S -> ~ In y S -> exists a' b', In a' S /\ In b' l /\ ~ In b' S /\ anti b' a' = true.
Proof.
  intros Hi a y HR. induction HR as [a Ha|a b c HR IH Hc Hcb]; intros HaS Hy; [contradiction|].
  destruct (memS b S) eqn:E.
  - apply memS_In in E. exists b, c. repeat split; assumption.
  - apply memS_false in E. apply IH; assumption.
Qed.
Theorem reach_connected l : (forall a b, In a l -> In b l -> Reach l a b) -> CutConnected l.
Proof.
  intros H S HS Hi [y [Hy HyS]]. destruct S as [|a S']; [congruence|].
  apply (reach_cut l (a :: S') Hi a y); [apply H; [apply Hi; left; reflexivity|exact Hy]|left; reflexivity|exact HyS].
Qed.
Corollary gen_q_get_queue_reach n gens fuel : gens <> [] -> NoDup gens -> SameLen n gens -> (forall a b, In a gens -> In b gens -> Reach gens a b) ->
  (length gens + 2 < fuel)%nat -> exists r, py_Q__get_queue fuel gens = FRet r /\ Permutation r gens /\ CO r.
Proof. intros H1 H2 H3 H4 H5. apply (gen_q_get_queue n gens fuel H1 H2 H3 (reach_connected gens H4) H5). Qed.
(* the premises are satisfiable *)
Example reach_example : let g := [[PX;PI];[PZ;PI]] in g <> [] /\ NoDup g /\ SameLen 2 g /\ (forall a b, In a g -> In b g -> Reach g a b).
Proof.
  intros g. split; [discriminate|]. split; [repeat constructor; cbn; intuition discriminate|]. split; [intros x [<-|[<-|[]]]; reflexivity|].
  assert (RX : Reach g [PX;PI] [PX;PI]) by (apply R_refl; cbn; tauto). assert (RZ : Reach g [PZ;PI] [PZ;PI]) by (apply R_refl; cbn; tauto).
  intros a b [<-|[<-|[]]] [<-|[<-|[]]]; try assumption.
  - apply (R_step g _ _ _ RX); [cbn; tauto|reflexivity].
  - apply (R_step g _ _ _ RZ); [cbn; tauto|reflexivity].
Qed.

(* on a list that is not connected the loop of _get_queue never ends (Python: it spins; the model runs out of any fuel) *)
Example gen_queue_runs :
  py_Q__get_queue 20 [[PX;PX;PI;PI];[PI;PX;PX;PI];[PI;PI;PX;PX];[PZ;PI;PI;PI];[PI;PZ;PI;PI];[PI;PI;PZ;PI];[PI;PI;PI;PZ]] =
    FRet [[PI;PI;PZ;PI]; [PI;PI;PX;PX]; [PI;PX;PX;PI]; [PI;PI;PI;PZ]; [PI;PZ;PI;PI]; [PX;PX;PI;PI]; [PZ;PI;PI;PI]] /\
  py_Q__get_queue 200 [[PX;PX];[PZ;PZ]] = FOutOfFuel /\ py_Q__get_queue 5 [] = FRaised (EUser "ValueError").
Proof. repeat split; vm_compute; reflexivity. Qed.


(* ---- check_dependency_one_leg: what the dependency test of append_to_center looks at ---- *)
Lemma raise_fold {X} (F : fres unit -> X -> fres unit) (test : X -> bool) (e : exn) :
  (forall x, F (FRet tt) x = if test x then FRaised e else FRet tt) -> (forall x, F (FRaised e) x = FRaised e) ->
  forall l, fold_left F l (FRet tt) = if existsb test l then FRaised e else FRet tt.
Proof.
  intros H1 H2. induction l as [|x l IH]; [reflexivity|]. cbn [fold_left existsb]. rewrite H1. destruct (test x); cbn [orb]; [|exact IH].
  clear IH. induction l as [|y l IH]; [reflexivity|]. cbn [fold_left]. rewrite H2. exact IH.
Qed.
(* the relation the test can see: lighting = one . v . w for a single leg `one` and vertices v <> one, w (or v = the identity-producing case w = lighting) *)
Definition dep_test (verts : list pstr) (lighting one : pstr) : bool :=
  existsb (fun v => negb (pstr_eqb v one) && (memS (smul (smul one lighting) v) verts || pstr_eqb (smul (smul one lighting) v) lighting)) verts.
Theorem gen_q_check_dependency legs lighting n ones : py_Q_get_one_vertices legs = FRet ones -> SameLen n (concat legs) -> SameLen n ones -> length lighting = n ->
  py_Q_check_dependency_one_leg legs lighting = if existsb (dep_test (concat legs) lighting) ones then FRaised (EUser "DependentException") else FRet tt.
Proof.
  intros HO HV HL Hl. unfold py_Q_check_dependency_one_leg. rewrite HO. unfold py_Q_get_vertices. cbv beta iota zeta.
  set (verts := concat legs) in *.
  match goal with |- context [fold_left ?F0 ones (FRet tt)] => set (F := F0) end.
  assert (HF : forall l, (forall x, In x l -> In x ones) -> fold_left F l (FRet tt) = if existsb (dep_test verts lighting) l then FRaised (EUser "DependentException") else FRet tt).
  { induction l as [|one l IH]; intros Hsub; [reflexivity|]. cbn [fold_left existsb].
    assert (Lone : length one = n) by (apply HL; apply Hsub; left; reflexivity).
    assert (Hstep : F (FRet tt) one = if dep_test verts lighting one then FRaised (EUser "DependentException") else FRet tt).
    { unfold F. cbv beta iota zeta. rewrite (multiply_code_ok one lighting) by congruence.
      match goal with |- context [fold_left ?G0 verts (FRet tt)] => set (G := G0) end.
      assert (HG : forall l', (forall x, In x l' -> In x verts) -> fold_left G l' (FRet tt) =
        if existsb (fun v => negb (pstr_eqb v one) && (memS (smul (smul one lighting) v) verts || pstr_eqb (smul (smul one lighting) v) lighting)) l' then FRaised (EUser "DependentException") else FRet tt).
      { induction l' as [|v l' IH']; intros Hs'; [reflexivity|]. cbn [fold_left existsb].
        assert (Hv : G (FRet tt) v = if negb (pstr_eqb v one) && (memS (smul (smul one lighting) v) verts || pstr_eqb (smul (smul one lighting) v) lighting) then FRaised (EUser "DependentException") else FRet tt).
        { unfold G. cbv beta iota zeta. destruct (pstr_eqb v one); [reflexivity|]. cbn [negb andb].
          rewrite (multiply_code_ok (smul one lighting) v) by (rewrite smul_length by congruence; rewrite Lone; symmetry; apply HV; apply Hs'; left; reflexivity). reflexivity. }
        rewrite Hv. destruct (negb (pstr_eqb v one) && (memS (smul (smul one lighting) v) verts || pstr_eqb (smul (smul one lighting) v) lighting)); cbn [orb].
        - clear. induction l' as [|y l' IHy]; [reflexivity|]. cbn [fold_left]. exact IHy.
        - apply IH'. intros x Hx. apply Hs'. right. exact Hx. }
      rewrite (HG verts (fun x Hx => Hx)). unfold dep_test. destruct (existsb _ verts); reflexivity. }
    rewrite Hstep. destruct (dep_test verts lighting one); cbn [orb].
    - clear. induction l as [|y l IHy]; [reflexivity|]. cbn [fold_left]. exact IHy.
    - apply IH. intros x Hx. apply Hsub. right. exact Hx. }
  rewrite (HF ones (fun x Hx => Hx)). destruct (existsb (dep_test verts lighting) ones); reflexivity.
Qed.

(* the listed classifier defect (a single leg in the span of the single legs), on the source's own test: a star with centre XXXXX and the five single
   legs Z_i; the candidate ZZZZZ lights the centre only, it IS in the commutator closure of the six vertices (the closure has 48 strings = 16 so(3)),
   and check_dependency_one_leg lets it pass — it would become a sixth single leg.  The product of THREE single legs is caught. *)
Definition star5 : list (list pstr) := [[[PX;PX;PX;PX;PX]]; [[PZ;PI;PI;PI;PI]]; [[PI;PZ;PI;PI;PI]]; [[PI;PI;PZ;PI;PI]]; [[PI;PI;PI;PZ;PI]]; [[PI;PI;PI;PI;PZ]]].
Theorem gen_q_check_dependency_refuted :
  py_Q_check_dependency_one_leg star5 [PZ;PZ;PZ;PZ;PZ] = FRet tt /\
  (exists L, closure_strs 5 (concat star5) = Some L /\ length L = 48%nat /\ In [PZ;PZ;PZ;PZ;PZ] L) /\
  py_Q_check_dependency_one_leg star5 [PZ;PZ;PZ;PI;PI] = FRaised (EUser "DependentException").
Proof.
  split; [vm_compute; reflexivity|]. split; [|vm_compute; reflexivity].
  destruct (closure_strs 5 (concat star5)) as [L|] eqn:E; [|vm_compute in E; discriminate E]. exists L. split; [reflexivity|].
  vm_compute in E. injection E as <-. split; [reflexivity|]. cbn. tauto.
Qed.


(* ---- the primitive edits of the canonical graph: append / remove keep the books ---- *)
Lemma concat_insert_atL {A} (x : list A) : forall p (L : list (list A)), Permutation (concat (insert_atL p x L)) (x ++ concat L).
Proof.
  induction p as [|p IH]; intros L; [destruct L; apply Permutation_refl|]. destruct L as [|a t]; [cbn; apply Permutation_refl|].
  cbn [insert_atL concat]. apply Permutation_trans with (a ++ x ++ concat t); [apply Permutation_app_head; apply IH|].
  rewrite !app_assoc. apply Permutation_app_tail. apply Permutation_app_comm.
Qed.
Lemma concat_delete_atL {A} : forall (L : list (list A)) i, (i < length L)%nat -> Permutation (concat L) (nth i L [] ++ concat (delete_atL i L)).
Proof.
  induction L as [|a t IH]; intros i Hi; [cbn in Hi; lia|]. destruct i as [|i]; [apply Permutation_refl|].
  cbn [nth delete_atL concat]. apply Permutation_trans with (a ++ nth i t [] ++ concat (delete_atL i t)); [apply Permutation_app_head; apply IH; cbn in Hi; lia|].
  rewrite !app_assoc. apply Permutation_app_tail. apply Permutation_app_comm.
Qed.
Lemma hd_insert_atL {A} (x : list A) p (L : list (list A)) d : (1 <= p)%nat -> L <> [] -> hd d (insert_atL p x L) = hd d L.
Proof. intros Hp HL. destruct p; [lia|]. destruct L; [congruence|reflexivity]. Qed.
Lemma hd_delete_atL {A} i (L : list (list A)) d : (1 <= i)%nat -> hd d (delete_atL i L) = hd d L.
Proof. intros Hi. destruct L; [destruct i; reflexivity|]. destruct i; [lia|reflexivity]. Qed.
Lemma idx_ok_lt' {A} (l : list A) j : idx_ok l j = true -> 0 <= j -> (Z.to_nat j < length l)%nat.
Proof. intros H Hj. unfold idx_ok, py_index in H. assert (E : (j <? 0) = false) by lia. rewrite E in H. destruct ((0 <=? j) && (j <? Z.of_nat (length l))) eqn:E2; [lia|discriminate H]. Qed.
Lemma list_get_nth {A} (d : A) (l : list A) j : 0 <= j -> idx_ok l j = true -> list_get d l j = nth (Z.to_nat j) l d.
Proof. intros Hj H. unfold idx_ok, list_get, py_index in *. assert (E : (j <? 0) = false) by lia. rewrite E in *. destruct ((0 <=? j) && (j <? Z.of_nat (length l))); [reflexivity|discriminate H]. Qed.

(* the insertion loop shared by append and remove: if it returns, the leg has been inserted somewhere behind the centre *)
Lemma append_loop_inserts : forall idx L chk v lit li vi leg L', (forall i, In i idx -> 0 <= i) ->
  py_Q_append_loop1 idx L chk v lit li vi leg = FRet L' -> exists p, (1 <= p)%nat /\ L' = insert_atL p leg L.
Proof.
  induction idx as [|i idx IH]; intros L chk v lit li vi leg L' Hpos H; [discriminate H|]. cbn [py_Q_append_loop1] in H.
  destruct (idx_ok L i) eqn:EI; [|discriminate H]. destruct (Z.of_nat (length (list_get [] L i)) <=? Z.of_nat (length leg)).
  - injection H as <-. exists (norm_insert (length L) (i + 1)). split; [|reflexivity]. pose proof (Hpos i (or_introl eq_refl)) as Hi.
    pose proof (idx_ok_lt' L i EI Hi) as Hlt. unfold norm_insert. assert (E : (i + 1 <? 0) = false) by lia. rewrite E. lia.
  - apply (IH L chk v lit li vi leg L'); [intros j Hj; apply Hpos; right; exact Hj|exact H].
Qed.


Lemma find_loop_range : forall idx L v li vi, (forall p, In p idx -> 0 <= fst p) -> py_Q_find_loop1 idx L v = FRet (li, vi) -> li = -1 \/ 0 <= li.
Proof.
  induction idx as [|[i leg] idx IH]; intros L v li vi Hpos H; cbn [py_Q_find_loop1] in H; [injection H as <- <-; left; reflexivity|].
  unfold py_Q__find_in_leg in H. cbv beta iota zeta in H.
  destruct (match Collection.find v leg with Some k_ => Z.of_nat k_ | None => -1 end >? -1).
  - injection H as <- <-. right. apply (Hpos (i, leg)). left. reflexivity.
  - apply (IH L v li vi); [intros p Hp; apply Hpos; right; exact Hp|exact H].
Qed.
Lemma find_range L v li vi : py_Q_find L v = FRet (li, vi) -> li = -1 \/ 0 <= li.
Proof.
  unfold py_Q_find. apply find_loop_range. intros [i leg] Hp. apply in_combine_l in Hp. apply in_map_iff in Hp. destruct Hp as [k [<- _]]. cbn [fst]. lia.
Qed.
Ltac stepH H := match type of H with (if ?c then _ else _) = _ => destruct c eqn:? | (match ?c with _ => _ end) = _ => destruct c eqn:? end.

(* append(v, lit) outside check mode: if it returns, the graph has exactly one vertex more, v, and the same centre *)
Theorem gen_q_append_accounts legs v lit legs' : legs <> [] -> py_Q_append legs false v lit = FRet legs' ->
  Permutation (concat legs') (v :: concat legs) /\ hd [] legs' = hd [] legs.
Proof.
  intros Hne H. unfold py_Q_append in H. cbv beta iota zeta in H.
  destruct (py_Q_find legs lit) as [[li vi]| | | |] eqn:EF; try discriminate H. destruct (find_range legs lit li vi EF) as [Hli|Hli]; [subst li; discriminate H|].
  assert (Hn : norm_idx (length legs) li = li) by (unfold norm_idx; assert (E : (li <? 0) = false) by lia; rewrite E; reflexivity). rewrite !Hn in H.
  set (L1 := delete_atL (Z.to_nat li) legs) in *. set (leg := list_get [] legs li) in *.
  destruct (li =? -1) eqn:E1; [discriminate H|]. destruct (li =? 0) eqn:E0.
  - injection H as <-. split; [apply (concat_insert_atL [v])|]. apply hd_insert_atL; [|exact Hne]. unfold norm_insert. cbn. destruct legs; [congruence|cbn [length]; lia].
  - destruct (idx_ok legs li) eqn:EI; [|discriminate H]. destruct (negb (vi =? Z.of_nat (length leg) - 1)); [discriminate H|].
    pose proof (idx_ok_lt' legs li EI Hli) as Hlt.
    assert (Hleg : leg = nth (Z.to_nat li) legs []) by (unfold leg; apply list_get_nth; assumption).
    pose proof (concat_delete_atL legs (Z.to_nat li) Hlt) as HP. rewrite <- Hleg in HP. fold L1 in HP.
    assert (Hacc : forall p, Permutation (concat (insert_atL p (leg ++ [v]) L1)) (v :: concat legs)).
    { intros p. eapply Permutation_trans; [apply concat_insert_atL|].
      apply Permutation_trans with ((v :: leg) ++ concat L1); [apply Permutation_app_tail; apply Permutation_sym; apply Permutation_cons_append|].
      cbn [app]. apply perm_skip. apply Permutation_sym. exact HP. }
    assert (Hhd : hd [] L1 = hd [] legs) by (unfold L1; apply hd_delete_atL; lia).
    destruct (idx_ok L1 (Z.of_nat (length L1) - 1)) eqn:EL; [|discriminate H].
    assert (HL1 : L1 <> []) by (intros E; rewrite E in EL; discriminate EL).
    destruct (Z.of_nat (length (leg ++ [v])) >=? Z.of_nat (length (list_get [] L1 (Z.of_nat (length L1) - 1)))).
    + injection H as <-. split.
      * rewrite concat_app. cbn [concat]. rewrite app_nil_r.
        apply Permutation_trans with ((leg ++ [v]) ++ concat L1); [apply Permutation_app_comm|].
        apply Permutation_trans with ((v :: leg) ++ concat L1); [apply Permutation_app_tail; apply Permutation_sym; apply Permutation_cons_append|].
        cbn [app]. apply perm_skip. apply Permutation_sym. exact HP.
      * rewrite <- Hhd. destruct L1; [congruence|reflexivity].
    + apply append_loop_inserts in H; [|intros i Hi; apply in_map_iff in Hi; destruct Hi as [k [<- Hk]]; apply in_seq in Hk; lia].
      destruct H as [p [Hp ->]]. split; [apply Hacc|]. rewrite <- Hhd. apply hd_insert_atL; assumption.
Qed.

Lemma firstn_exact {A} (a b : list A) : firstn (length a) (a ++ b) = a.
Proof. induction a as [|x a IH]; [reflexivity|]. cbn [length app firstn]. rewrite IH. reflexivity. Qed.
(* find: where the first occurrence of v sits *)
Lemma in_enum {A} (d : A) : forall (l : list A) s i x, In (i, x) (combine (map Z.of_nat (seq s (length l))) l) -> exists k, i = Z.of_nat (s + k) /\ (k < length l)%nat /\ nth k l d = x.
Proof.
  induction l as [|a l IH]; intros s i x H; [destruct H|]. cbn [length seq map combine] in H. destruct H as [H|H].
  - injection H as <- <-. exists 0%nat. repeat split; [f_equal; lia|cbn; lia].
  - destruct (IH (S s) i x H) as [k [-> [Hk Hn]]]. exists (S k). repeat split; [f_equal; lia|cbn; lia|exact Hn].
Qed.
Lemma find_Some_split v : forall l k, Collection.find v l = Some k -> exists pre post, l = pre ++ v :: post /\ length pre = k /\ ~ In v pre.
Proof.
  induction l as [|a l IH]; intros k H; [discriminate H|]. cbn [Collection.find] in H. destruct (pstr_eqb v a) eqn:E.
  - injection H as <-. apply pstr_eqb_eq in E. subst a. exists [], l. repeat split. intros [].
  - destruct (Collection.find v l) as [k'|] eqn:EF; [|discriminate H]. injection H as <-. destruct (IH k' eq_refl) as [pre [post [-> [Hl Hn]]]].
    exists (a :: pre), post. repeat split; [cbn; lia|]. intros [->|Hin]; [rewrite (proj2 (pstr_eqb_eq v v) eq_refl) in E; discriminate E|contradiction].
Qed.
Lemma find_loop_spec legs : forall idx v li vi, (forall i leg, In (i, leg) idx -> 0 <= i /\ (Z.to_nat i < length legs)%nat /\ nth (Z.to_nat i) legs [] = leg) ->
  py_Q_find_loop1 idx legs v = FRet (li, vi) -> 0 <= li -> (Z.to_nat li < length legs)%nat /\ 0 <= vi /\ Collection.find v (nth (Z.to_nat li) legs []) = Some (Z.to_nat vi).
Proof.
  induction idx as [|[i leg] idx IH]; intros v li vi Hin H Hli; cbn [py_Q_find_loop1] in H; [injection H as <- <-; lia|].
  unfold py_Q__find_in_leg in H. cbv beta iota zeta in H. destruct (Collection.find v leg) as [k|] eqn:EF.
  - assert (E : (Z.of_nat k >? -1) = true) by lia. rewrite E in H. injection H as <- <-. destruct (Hin i leg (or_introl eq_refl)) as [H0 [H1 H2]].
    split; [exact H1|]. split; [lia|]. rewrite H2, Nat2Z.id. exact EF.
  - change (-1 >? -1) with false in H. apply (IH v li vi); [intros j l Hj; apply Hin; right; exact Hj|exact H|exact Hli].
Qed.
Theorem gen_q_find legs v li vi : py_Q_find legs v = FRet (li, vi) -> 0 <= li ->
  (Z.to_nat li < length legs)%nat /\ 0 <= vi /\ Collection.find v (nth (Z.to_nat li) legs []) = Some (Z.to_nat vi).
Proof.
  unfold py_Q_find. apply find_loop_spec. intros i leg Hin. destruct (in_enum [] legs 0%nat i leg Hin) as [k [-> [Hk Hn]]]. cbn [Nat.add]. rewrite Nat2Z.id. repeat split; [lia|exact Hk|exact Hn].
Qed.

(* remove(v): if it returns, v and what followed it in its leg are gone, nothing else, and the centre stays *)
Theorem gen_q_remove_accounts legs v legs' : legs <> [] -> py_Q_remove legs v = FRet legs' ->
  exists tail, Permutation (concat legs) (v :: tail ++ concat legs') /\ hd [] legs' = hd [] legs.
Proof.
  intros Hne H. unfold py_Q_remove in H. cbv beta iota zeta in H.
  destruct (py_Q_find legs v) as [[li vi]| | | |] eqn:EF; try discriminate H. destruct (find_range legs v li vi EF) as [Hli|Hli]; [subst li; discriminate H|].
  destruct (gen_q_find legs v li vi EF Hli) as [Hlt [Hvi HF]].
  assert (Hn : norm_idx (length legs) li = li) by (unfold norm_idx; assert (E : (li <? 0) = false) by lia; rewrite E; reflexivity). rewrite !Hn in H.
  set (L1 := delete_atL (Z.to_nat li) legs) in *.
  destruct (li =? -1) eqn:E1; [discriminate H|]. destruct (li =? 0) eqn:E0; [discriminate H|].
  destruct (idx_ok legs li) eqn:EI; [|discriminate H].
  assert (Hleg : list_get [] legs li = nth (Z.to_nat li) legs []) by (apply list_get_nth; assumption). rewrite !Hleg in H.
  set (leg := nth (Z.to_nat li) legs []) in *.
  destruct (find_Some_split v leg _ HF) as [pre [post [Eleg [Hpre Hnin]]]].
  assert (Hfirst : firstn (Z.to_nat vi) leg = pre) by (rewrite Eleg, <- Hpre; apply firstn_exact). rewrite Hfirst in H.
  pose proof (concat_delete_atL legs (Z.to_nat li) Hlt) as HP. fold leg in HP. fold L1 in HP.
  assert (Hacc : forall p, Permutation (concat legs) (v :: post ++ concat (insert_atL p pre L1))).
  { intros p. eapply Permutation_trans; [exact HP|]. rewrite Eleg.
    apply Permutation_trans with (v :: post ++ pre ++ concat L1).
    - apply Permutation_trans with ((v :: post) ++ pre ++ concat L1); [|apply Permutation_refl]. rewrite app_assoc. apply Permutation_app_tail. apply Permutation_app_comm.
    - apply perm_skip. apply Permutation_app_head. apply Permutation_sym. apply concat_insert_atL. }
  assert (Hhd : hd [] L1 = hd [] legs) by (unfold L1; apply hd_delete_atL; lia).
  destruct (vi <=? Z.of_nat (length leg)); [|discriminate H].
  destruct (Z.of_nat (length pre) =? 0) eqn:EP0.
  - injection H as <-. exists post. split; [|exact Hhd]. assert (Hp0 : pre = []) by (destruct pre; [reflexivity|cbn in EP0; lia]).
    eapply Permutation_trans; [exact HP|]. rewrite Eleg, Hp0. cbn [app]. apply Permutation_refl.
  - destruct (Z.of_nat (length pre) =? 1).
    + injection H as <-. exists post. split; [apply Hacc|]. rewrite <- Hhd. apply hd_insert_atL; [|intros E; unfold L1 in E; destruct legs as [|c [|x t]]; [congruence| |]; cbn in Hlt; destruct (Z.to_nat li) eqn:EZ; try lia; cbn in E; try discriminate E; destruct n; discriminate E].
      unfold norm_insert. cbn. destruct L1 eqn:EL1; [|cbn [length]; lia]. exfalso. unfold L1 in EL1. destruct legs as [|c [|x t]]; [congruence|cbn in Hlt; lia|]. destruct (Z.to_nat li) eqn:EZ; [lia|]. cbn in EL1. discriminate EL1.
    + destruct (idx_ok L1 (Z.of_nat (length L1) - 1)) eqn:EL; [|discriminate H].
      assert (HL1 : L1 <> []) by (intros E; rewrite E in EL; discriminate EL).
      destruct (Z.of_nat (length pre) >=? Z.of_nat (length (list_get [] L1 (Z.of_nat (length L1) - 1)))).
      * injection H as <-. exists post. split; [|rewrite <- Hhd; destruct L1; [congruence|reflexivity]].
        eapply Permutation_trans; [exact HP|]. rewrite Eleg, concat_app. cbn [concat]. rewrite app_nil_r.
        apply Permutation_trans with ((v :: post) ++ pre ++ concat L1); [rewrite app_assoc; apply Permutation_app_tail; apply Permutation_app_comm|].
        cbn [app]. apply perm_skip. apply Permutation_app_head. apply Permutation_app_comm.
      * assert (HR : forall idx L a b c leg0 L', py_Q_remove_loop1 idx L a b c leg0 = FRet L' -> (forall i, In i idx -> 0 <= i) -> exists p, (1 <= p)%nat /\ L' = insert_atL p leg0 L).
        { induction idx as [|i idx IHi]; intros L a b c leg0 L' HH Hpos; [discriminate HH|]. cbn [py_Q_remove_loop1] in HH.
          destruct (idx_ok L i) eqn:EI2; [|discriminate HH]. destruct (Z.of_nat (length (list_get [] L i)) <=? Z.of_nat (length leg0)).
          - injection HH as <-. exists (norm_insert (length L) (i + 1)). split; [|reflexivity]. pose proof (Hpos i (or_introl eq_refl)) as Hi0.
            pose proof (idx_ok_lt' L i EI2 Hi0). unfold norm_insert. assert (E : (i + 1 <? 0) = false) by lia. rewrite E. lia.
          - apply (IHi L a b c leg0 L' HH). intros j Hj. apply Hpos. right. exact Hj. }
        apply HR in H; [|intros i Hi; apply in_map_iff in Hi; destruct Hi as [k [<- Hk]]; apply in_seq in Hk; lia].
        destruct H as [p [Hp ->]]. exists post. split; [apply Hacc|]. rewrite <- Hhd. apply hd_insert_atL; assumption.
Qed.

Lemma list_set_nat {A} (l : list A) j x : 0 <= j -> idx_ok l j = true -> list_set l j x = set_nth l (Z.to_nat j) x.
Proof. intros Hj H. unfold idx_ok, list_set, py_index in *. assert (E : (j <? 0) = false) by lia. rewrite E in *. destruct ((0 <=? j) && (j <? Z.of_nat (length l))); [reflexivity|discriminate H]. Qed.
Lemma set_nth_mid {A} (pre : list A) x post y : set_nth (pre ++ x :: post) (length pre) y = pre ++ y :: post.
Proof. induction pre as [|a pre IH]; [reflexivity|]. cbn [app length set_nth]. rewrite IH. reflexivity. Qed.
(* replace(v, v_new): if it returns, one occurrence of v (the first of its leg) has become v_new and nothing else has changed *)
Theorem gen_q_replace_accounts legs v v' legs' : py_Q_replace legs v v' = FRet legs' ->
  exists A pre post B, legs = A ++ (pre ++ v :: post) :: B /\ legs' = A ++ (pre ++ v' :: post) :: B /\ ~ In v pre.
Proof.
  intros H. unfold py_Q_replace in H. cbv beta iota zeta in H.
  destruct (py_Q_find legs v) as [[li vi]| | | |] eqn:EF; try discriminate H. destruct (find_range legs v li vi EF) as [Hli|Hli]; [subst li; discriminate H|].
  destruct (gen_q_find legs v li vi EF Hli) as [Hlt [Hvi HF]].
  destruct (li =? -1); [discriminate H|]. destruct (idx_ok legs li) eqn:EI; [|discriminate H].
  assert (Hleg : list_get [] legs li = nth (Z.to_nat li) legs []) by (apply list_get_nth; assumption). rewrite !Hleg in H.
  set (leg := nth (Z.to_nat li) legs []) in *.
  destruct (idx_ok leg vi) eqn:EV; [|discriminate H]. injection H as <-.
  destruct (find_Some_split v leg _ HF) as [pre [post [Eleg [Hpre Hnin]]]].
  destruct (nth_split legs [] Hlt) as [A [B [EL HA]]]. fold leg in EL.
  exists A, pre, post, B. split; [rewrite <- Eleg; exact EL|]. split.
  - rewrite (list_set_nat legs li _ Hli EI), (list_set_nat leg vi _ Hvi EV). rewrite Eleg at 1. rewrite <- Hpre, set_nth_mid. rewrite EL at 1. rewrite <- HA, set_nth_mid. reflexivity.
  - exact Hnin.
Qed.

(* append_to_center(lighting): the dependency test, then append to the centre *)
Theorem gen_q_append_to_center legs l legs' : legs <> [] -> py_Q_append_to_center legs false l = FRet legs' ->
  py_Q_check_dependency_one_leg legs l = FRet tt /\ Permutation (concat legs') (l :: concat legs) /\ hd [] legs' = hd [] legs.
Proof.
  intros Hne H. unfold py_Q_append_to_center in H. destruct (py_Q_check_dependency_one_leg legs l) as [[]| | | |] eqn:EC; try discriminate H.
  split; [reflexivity|]. destruct (py_Q_get_center legs) as [c| | | |]; try discriminate H. cbv beta iota zeta in H.
  destruct (py_Q_append legs false l c) as [L| | | |] eqn:EA; try discriminate H. injection H as <-. apply (gen_q_append_accounts legs l c L Hne EA).
Qed.
(* ... and the defect end to end on the source: the dependent candidate ZZZZZ is attached to the star as a sixth single leg *)
Theorem gen_q_append_to_center_refuted :
  py_Q_append_to_center star5 false [PZ;PZ;PZ;PZ;PZ] = FRet ([[PX;PX;PX;PX;PX]] :: [[PZ;PZ;PZ;PZ;PZ]] :: tl star5) /\
  py_Q_append_to_center star5 false [PZ;PZ;PZ;PI;PI] = FRaised (EUser "DependentException").
Proof. split; vm_compute; reflexivity. Qed.

(* ---- get_lits, lit, get_pq ---- *)
Theorem gen_q_get_lits legs l vs n : length l = n -> SameLen n vs -> py_Q_get_lits legs l (Some vs) = FRet (AC l vs).
Proof. intros Hl Hv. unfold py_Q_get_lits. cbv beta iota zeta. apply (gen_q_anti_acc l n Hl vs [] Hv). Qed.
Theorem gen_q_get_lits_all legs l n : length l = n -> SameLen n (concat legs) -> py_Q_get_lits legs l None = FRet (AC l (concat legs)).
Proof. intros Hl Hv. unfold py_Q_get_lits, py_Q_get_vertices. cbv beta iota zeta. apply (gen_q_anti_acc l n Hl (concat legs) [] Hv). Qed.

Lemma in_enum_conv {A} (d : A) : forall (l : list A) s k, (k < length l)%nat -> In (Z.of_nat (s + k), nth k l d) (combine (map Z.of_nat (seq s (length l))) l).
Proof.
  induction l as [|a l IH]; intros s k Hk; [cbn in Hk; lia|]. cbn [length seq map combine]. destruct k as [|k].
  - left. rewrite Nat.add_0_r. reflexivity.
  - right. replace (s + S k)%nat with (S s + k)%nat by lia. apply IH. cbn in Hk. lia.
Qed.
Lemma find_loop_total legs : forall idx v, exists li vi, py_Q_find_loop1 idx legs v = FRet (li, vi).
Proof.
  induction idx as [|[i leg] idx IH]; intros v; [eexists; eexists; reflexivity|]. cbn [py_Q_find_loop1]. unfold py_Q__find_in_leg. cbv beta iota zeta.
  destruct (match Collection.find v leg with Some k_ => Z.of_nat k_ | None => -1 end >? -1); [eexists; eexists; reflexivity|apply IH].
Qed.
Lemma find_loop_none legs : forall idx v vi, py_Q_find_loop1 idx legs v = FRet (-1, vi) -> (forall i leg, In (i, leg) idx -> 0 <= i) -> forall i leg, In (i, leg) idx -> ~ In v leg.
Proof.
  induction idx as [|[i0 leg0] idx IH]; intros v vi H Hpos i leg Hin; [destruct Hin|]. cbn [py_Q_find_loop1] in H.
  unfold py_Q__find_in_leg in H. cbv beta iota zeta in H. destruct (Collection.find v leg0) as [k|] eqn:EF.
  - assert (E : (Z.of_nat k >? -1) = true) by lia. rewrite E in H. injection H as H1 _. pose proof (Hpos i0 leg0 (or_introl eq_refl)). lia.
  - change (-1 >? -1) with false in H. destruct Hin as [Hin|Hin].
    + injection Hin as <- <-. intros Hv. destruct (find_In v leg0 Hv) as [k Hk]. rewrite Hk in EF. discriminate EF.
    + apply (IH v vi H (fun j l Hj => Hpos j l (or_intror Hj)) i leg Hin).
Qed.
Theorem gen_q_is_included legs v : py_Q_is_included legs v = FRet (memS v (concat legs)).
Proof.
  unfold py_Q_is_included. destruct (py_Q_find legs v) as [[li vi]| | | |] eqn:EF.
  - f_equal. destruct (find_range legs v li vi EF) as [->|Hli].
    + change (-1 >? -1) with false. symmetry. apply notIn_memS. intros Hin. apply in_concat in Hin. destruct Hin as [leg [Hleg Hv]].
      destruct (In_nth legs leg [] Hleg) as [k [Hk Hn]].
      assert (Hc : In (Z.of_nat k, leg) (combine (map Z.of_nat (seq 0 (length legs))) legs)) by (rewrite <- Hn; apply (in_enum_conv [] legs 0%nat k Hk)).
      unfold py_Q_find in EF. refine (find_loop_none legs _ v vi EF _ _ _ Hc Hv). intros j l Hj. apply in_combine_l in Hj. apply in_map_iff in Hj. destruct Hj as [m [<- _]]. lia.
    + destruct (gen_q_find legs v li vi EF Hli) as [Hlt [Hvi HF]]. assert (E : (li >? -1) = true) by lia. rewrite E. symmetry. apply In_memS.
      apply in_concat. exists (nth (Z.to_nat li) legs []). split; [apply nth_In; exact Hlt|]. destruct (find_Some_split v _ _ HF) as [pre [post [-> _]]]. apply in_app_iff. right. left. reflexivity.
  - exfalso; unfold py_Q_find in EF; destruct (find_loop_total legs (combine (map Z.of_nat (seq 0 (length legs))) legs) v) as [a [b E]]; rewrite E in EF; discriminate EF.
  - exfalso; unfold py_Q_find in EF; destruct (find_loop_total legs (combine (map Z.of_nat (seq 0 (length legs))) legs) v) as [a [b E]]; rewrite E in EF; discriminate EF.
  - exfalso; unfold py_Q_find in EF; destruct (find_loop_total legs (combine (map Z.of_nat (seq 0 (length legs))) legs) v) as [a [b E]]; rewrite E in EF; discriminate EF.
  - exfalso; unfold py_Q_find in EF; destruct (find_loop_total legs (combine (map Z.of_nat (seq 0 (length legs))) legs) v) as [a [b E]]; rewrite E in EF; discriminate EF.
Qed.
(* lit(lighting, vertex): the product, unless it is already a vertex *)
Theorem gen_q_lit legs l v : length l = length v ->
  py_Q_lit legs l v = if memS (smul l v) (concat legs) then FRaised (EUser "DependentException") else FRet (smul l v).
Proof. intros H. unfold py_Q_lit. rewrite (multiply_code_ok l v H). cbv beta iota zeta. rewrite gen_q_is_included. reflexivity. Qed.

(* get_pq: a lit single leg p and an unlit one q (and their product) *)
Lemma get_pq_loop legs l ones lits : forall idx p q pq p', (forall x, In x idx -> In x ones) ->
  (forall x, p = Some x -> In x ones /\ In x lits) -> (forall x, q = Some x -> In x ones /\ ~ In x lits) ->
  py_Q_get_pq_loop1 idx legs l ones lits p q = FRet (pq, p') -> exists q', In p' ones /\ In p' lits /\ In q' ones /\ ~ In q' lits /\ multiply_code p' q' = Ok pq.
Proof.
  induction idx as [|v idx IH]; intros p q pq p' Hsub Hp Hq H; cbn [py_Q_get_pq_loop1] in H; [discriminate H|]. cbv beta iota zeta in H.
  destruct (memS v lits) eqn:EM.
  - apply memS_In in EM. cbn [negb] in H. destruct q as [qv|].
    + cbn [negb] in H. destruct (multiply_code v qv) as [m|] eqn:EMul; [|discriminate H]. injection H as <- <-. exists qv.
      destruct (Hq qv eq_refl) as [Q1 Q2]. repeat split; try assumption. apply Hsub. left. reflexivity.
    + cbn [negb] in H. apply (IH (Some v) None pq p'); try assumption.
      * intros x Hx. apply Hsub. right. exact Hx.
      * intros x E. injection E as <-. split; [apply Hsub; left; reflexivity|exact EM].
  - apply memS_false in EM. destruct p as [pv|].
    + cbn [negb] in H. destruct (multiply_code pv v) as [m|] eqn:EMul; [|discriminate H]. injection H as <- <-. exists v.
      destruct (Hp pv eq_refl) as [P1 P2]. repeat split; try assumption. apply Hsub. left. reflexivity.
    + cbn [negb] in H. apply (IH None (Some v) pq p'); try assumption.
      * intros x Hx. apply Hsub. right. exact Hx.
      * intros x E. injection E as <-. split; [apply Hsub; left; reflexivity|exact EM].
Qed.
Theorem gen_q_get_pq legs l ones n pq p : py_Q_get_one_vertices legs = FRet ones -> length l = n -> SameLen n ones -> py_Q_get_pq legs l = FRet (pq, p) ->
  exists q, In p ones /\ In q ones /\ anti l p = true /\ (q = l \/ anti l q = false) /\ pq = smul p q.
Proof.
  intros HO Hl Hn H. unfold py_Q_get_pq in H. rewrite HO in H. cbv beta iota zeta in H. rewrite (gen_q_get_lits legs l ones n Hl Hn) in H. cbv beta iota zeta in H.
  destruct (get_pq_loop legs l ones (AC l ones) ones None None pq p (fun x Hx => Hx) ltac:(intros x E; discriminate E) ltac:(intros x E; discriminate E) H) as [q [P1 [P2 [Q1 [Q2 HM]]]]].
  exists q. apply AC_In in P2. destruct P2 as [_ [_ P3]]. split; [exact P1|]. split; [exact Q1|]. split; [exact P3|]. split.
  - destruct (pstr_eqb q l) eqn:E; [left; apply pstr_eqb_eq; exact E|right]. destruct (anti l q) eqn:EA; [|reflexivity]. exfalso. apply Q2. apply AC_In. repeat split; [exact Q1| |exact EA].
    intros ->. rewrite (proj2 (pstr_eqb_eq l l) eq_refl) in E. discriminate E.
  - rewrite (multiply_code_ok p q) in HM by (rewrite (Hn p P1), (Hn q Q1); reflexivity). injection HM as <-. reflexivity.
Qed.

(* ---- append_delayed / restore_delayed: the cut-off vertices come back to the FRONT of the build queue, in their order ---- *)
Definition down (m : nat) : list Z := map (fun k_ => Z.of_nat m - 1 - Z.of_nat k_) (seq 0 m).
Lemma down_S m : down (S m) = Z.of_nat m :: down m.
Proof.
  unfold down. cbn [seq map]. f_equal; [lia|]. rewrite <- seq_shift, map_map. apply map_ext. intros k. lia.
Qed.
Lemma firstn_snoc_nth {A} (d : A) : forall (l : list A) m, (m < length l)%nat -> firstn (S m) l = firstn m l ++ [nth m l d].
Proof. induction l as [|a l IH]; intros m Hm; [cbn in Hm; lia|]. destruct m as [|m]; [reflexivity|]. change (firstn (S (S m)) (a :: l)) with (a :: firstn (S m) l). rewrite (IH m) by (cbn in Hm; lia). reflexivity. Qed.
Lemma restore_loop d : forall m V, (m <= length d)%nat -> py_Q_restore_delayed_loop1 (down m) d V = FRet (firstn m d ++ V, []).
Proof.
  induction m as [|m IH]; intros V Hm; [reflexivity|]. rewrite down_S. cbn [py_Q_restore_delayed_loop1].
  assert (EI : idx_ok d (Z.of_nat m) = true) by (unfold idx_ok, py_index; assert (E1 : (Z.of_nat m <? 0) = false) by lia; rewrite E1; assert (E2 : ((0 <=? Z.of_nat m) && (Z.of_nat m <? Z.of_nat (length d))) = true) by lia; rewrite E2; reflexivity).
  rewrite EI. cbv beta iota zeta. unfold norm_insert. change (0 <? 0) with false. cbv beta iota. change (Nat.min (Z.to_nat 0) (length V)) with 0%nat. cbn [insert_at].
  rewrite IH by lia. rewrite (list_get_nth [] d (Z.of_nat m)) by (try lia; exact EI). rewrite Nat2Z.id.
  rewrite (firstn_snoc_nth (A:=pstr) [] d m) by lia. rewrite <- List.app_assoc. reflexivity.
Qed.
Theorem gen_q_restore_delayed d V : py_Q_restore_delayed d V = FRet (d ++ V, []).
Proof.
  unfold py_Q_restore_delayed. replace (Z.to_nat (Z.of_nat (length d) - 1 - -1)) with (length d) by lia. fold (down (length d)).
  rewrite (restore_loop d (length d) V (le_n _)), firstn_all. reflexivity.
Qed.
Theorem gen_q_append_delayed d v : py_Q_append_delayed d v = FRet (d ++ [v]).
Proof. reflexivity. Qed.

(* ---- append keeps the legs behind the centre ordered by length (the shape the read-out of the census relies on) ---- *)
Definition lens (L : list (list pstr)) : list nat := map (@length pstr) L.
Definition SortedLegs (L : list (list pstr)) : Prop := StronglySorted le (lens (tl L)).
Lemma SS_nth l : StronglySorted le l -> forall i j, (i <= j < length l)%nat -> (nth i l 0 <= nth j l 0)%nat.
Proof.
  induction 1 as [|a l HS IH HF]; intros i j Hij; [cbn in Hij; lia|]. destruct i as [|i], j as [|j]; cbn [nth]; try lia.
  - rewrite Forall_forall in HF. apply HF. apply nth_In. cbn in Hij. lia.
  - apply IH. cbn in Hij. lia.
Qed.
Lemma SS_of_nth l : (forall i j, (i <= j < length l)%nat -> (nth i l 0 <= nth j l 0)%nat) -> StronglySorted le l.
Proof.
  induction l as [|a l IH]; intros H; [constructor|]. constructor.
  - apply IH. intros i j Hij. apply (H (S i) (S j)). cbn. lia.
  - apply Forall_forall. intros x Hx. destruct (In_nth l x O Hx) as [k [Hk <-]]. apply (H 0%nat (S k)). cbn. lia.
Qed.
Lemma nth_insert_atL {A} (d x : A) : forall p l k, (p <= length l)%nat ->
  nth k (insert_atL p x l) d = if (k <? p)%nat then nth k l d else if (k =? p)%nat then x else nth (k - 1) l d.
Proof.
  induction p as [|p IH]; intros l k Hp.
  - assert (E : insert_atL 0 x l = x :: l) by (destruct l; reflexivity). rewrite E. destruct k as [|k]; [reflexivity|]. cbn [nth].
    change (S k <? 0)%nat with false. change (S k =? 0)%nat with false. cbv iota. replace (S k - 1)%nat with k by lia. reflexivity.
  - destruct l as [|a l]; [cbn in Hp; lia|]. cbn [insert_atL]. destruct k as [|k]; [reflexivity|]. cbn [nth]. rewrite IH by (cbn in Hp; lia).
    change (S k <? S p)%nat with (k <? p)%nat. change (S k =? S p)%nat with (k =? p)%nat. destruct (k <? p)%nat eqn:E1; [reflexivity|]. destruct (k =? p)%nat eqn:E2; [reflexivity|].
    apply Nat.ltb_ge in E1. apply Nat.eqb_neq in E2. destruct k as [|k]; [lia|]. replace (S (S k) - 1)%nat with (S k) by lia. replace (S k - 1)%nat with k by lia. reflexivity.
Qed.
Lemma insert_atL_length {A} (x : A) : forall p l, (p <= length l)%nat -> length (insert_atL p x l) = S (length l).
Proof. induction p as [|p IH]; intros l Hp; [destruct l; reflexivity|]. destruct l as [|a l]; [cbn in Hp; lia|]. cbn [insert_atL length]. rewrite IH by (cbn in Hp; lia). reflexivity. Qed.
Lemma SS_insert l x p : StronglySorted le l -> (p <= length l)%nat -> (forall k, (k < p)%nat -> (nth k l 0 <= x)%nat) -> (forall k, (p <= k < length l)%nat -> (x <= nth k l 0)%nat) ->
  StronglySorted le (insert_atL p x l).
Proof.
  intros HS Hp Hlo Hhi. apply SS_of_nth. intros i j Hij. rewrite insert_atL_length in Hij by exact Hp. rewrite !nth_insert_atL by exact Hp.
  pose proof (SS_nth l HS) as HN.
  destruct (Nat.ltb_spec i p) as [Ei|Ei], (Nat.ltb_spec j p) as [Ej|Ej].
  - apply HN. lia.
  - destruct (Nat.eqb_spec j p) as [Ej2|Ej2]; [apply Hlo; exact Ei|]. apply Nat.le_trans with x; [apply Hlo; exact Ei|apply Hhi; lia].
  - lia.
  - destruct (Nat.eqb_spec i p) as [Ei2|Ei2], (Nat.eqb_spec j p) as [Ej2|Ej2]; try lia.
    + apply Hhi. lia.
    + apply HN. lia.
Qed.

(* which index the insertion loop of append picks: the largest one (of a descending range) whose leg is not longer than the new one *)
Lemma append_loop_picks : forall idx L chk v lit li vi leg L', (forall i, In i idx -> 0 <= i) -> StronglySorted Z.gt idx ->
  py_Q_append_loop1 idx L chk v lit li vi leg = FRet L' ->
  exists i, In i idx /\ L' = insert_atL (S (Z.to_nat i)) leg L /\ (Z.to_nat i < length L)%nat /\ (length (nth (Z.to_nat i) L []) <= length leg)%nat /\
            forall j, In j idx -> j > i -> (length leg < length (nth (Z.to_nat j) L []))%nat.
Proof.
  induction idx as [|i idx IH]; intros L chk v lit li vi leg L' Hpos Hsort H; [discriminate H|]. cbn [py_Q_append_loop1] in H.
  destruct (idx_ok L i) eqn:EI; [|discriminate H]. pose proof (Hpos i (or_introl eq_refl)) as Hi. pose proof (idx_ok_lt' L i EI Hi) as Hlt.
  rewrite (list_get_nth [] L i Hi EI) in H. inversion Hsort as [|a l Hs Hf]; subst.
  destruct (Z.of_nat (length (nth (Z.to_nat i) L [])) <=? Z.of_nat (length leg)) eqn:ET.
  - injection H as <-. exists i. split; [left; reflexivity|]. split.
    + f_equal. unfold norm_insert. assert (E : (i + 1 <? 0) = false) by lia. rewrite E. lia.
    + split; [exact Hlt|]. split; [lia|]. intros j [<-|Hj] Hgt; [lia|]. rewrite Forall_forall in Hf. specialize (Hf j Hj). lia.
  - destruct (IH L chk v lit li vi leg L' (fun j Hj => Hpos j (or_intror Hj)) Hs H) as [i' [Hin [HL [Hlt' [Hle Hfail]]]]].
    exists i'. split; [right; exact Hin|]. split; [exact HL|]. split; [exact Hlt'|]. split; [exact Hle|].
    intros j [<-|Hj] Hgt; [lia|apply Hfail; assumption].
Qed.
Lemma down_from_sorted a : forall m, StronglySorted Z.gt (map (fun k_ => a - Z.of_nat k_) (seq 0 m)).
Proof.
  intros m. assert (G : forall s, StronglySorted Z.gt (map (fun k_ => a - Z.of_nat k_) (seq s m))).
  { induction m as [|m IH]; intros s; [constructor|]. cbn [seq map]. constructor; [apply IH|]. apply Forall_forall. intros x Hx. apply in_map_iff in Hx. destruct Hx as [k [<- Hk]]. apply in_seq in Hk. lia. }
  apply G.
Qed.
Lemma lens_delete L i : lens (delete_atL i L) = delete_atL i (lens L).
Proof. revert i. induction L as [|a L IH]; intros i; [destruct i; reflexivity|]. destruct i as [|i]; [reflexivity|]. cbn [delete_atL lens map]. f_equal. apply IH. Qed.
Lemma SS_delete l : StronglySorted le l -> forall i, StronglySorted le (delete_atL i l).
Proof.
  induction 1 as [|a l HS IH HF]; intros i; [destruct i; constructor|]. destruct i as [|i]; [exact HS|]. cbn [delete_atL]. constructor; [apply IH|].
  rewrite Forall_forall in *. intros x Hx. apply HF. clear -Hx. revert i Hx. induction l as [|b l IHl]; intros i Hx; [destruct i; destruct Hx|]. destruct i as [|i]; [right; exact Hx|]. destruct Hx as [->|Hx]; [left; reflexivity|right; apply (IHl i Hx)].
Qed.

Lemma insert_atL_end {A} (x : A) : forall l, insert_atL (length l) x l = l ++ [x].
Proof. induction l as [|a l IH]; [reflexivity|]. cbn [length insert_atL app]. rewrite IH. reflexivity. Qed.
Lemma lens_nth L k : nth k (lens L) O = length (nth k L []).
Proof. unfold lens. change O with (length (@nil pstr)). apply map_nth. Qed.
Lemma lens_insert L p x : lens (insert_atL p x L) = insert_atL p (length x) (lens L).
Proof. revert L. induction p as [|p IH]; intros L; [destruct L; reflexivity|]. destruct L as [|a L]; [reflexivity|]. cbn [insert_atL lens map]. f_equal. apply IH. Qed.
Lemma lens_length L : length (lens L) = length L. Proof. apply map_length. Qed.

(* append keeps the legs behind the centre ordered by length *)
Theorem gen_q_append_sorted legs v lit legs' : legs <> [] -> Forall (fun leg => leg <> []) legs -> SortedLegs legs -> py_Q_append legs false v lit = FRet legs' -> SortedLegs legs'.
Proof.
  intros Hne Hnonempty HS H. unfold py_Q_append in H. cbv beta iota zeta in H.
  destruct (py_Q_find legs lit) as [[li vi]| | | |] eqn:EF; try discriminate H. destruct (find_range legs lit li vi EF) as [Hli|Hli]; [subst li; discriminate H|].
  assert (Hn : norm_idx (length legs) li = li) by (unfold norm_idx; assert (E : (li <? 0) = false) by lia; rewrite E; reflexivity). rewrite !Hn in H.
  destruct legs as [|c T]; [congruence|]. unfold SortedLegs in *. cbn [tl] in HS.
  destruct (li =? -1) eqn:E1; [discriminate H|]. destruct (li =? 0) eqn:E0.
  - injection H as <-. unfold norm_insert. cbn. constructor; [exact HS|]. apply Forall_forall. intros x Hx. unfold lens in Hx. apply in_map_iff in Hx. destruct Hx as [leg [<- Hleg]].
    rewrite Forall_forall in Hnonempty. specialize (Hnonempty leg (or_intror Hleg)). destruct leg; [congruence|cbn; lia].
  - destruct (idx_ok (c :: T) li) eqn:EI; [|discriminate H]. pose proof (idx_ok_lt' _ li EI Hli) as Hlt.
    rewrite !(list_get_nth [] (c :: T) li Hli EI) in H. destruct (Z.to_nat li) as [|k] eqn:EK; [lia|]. cbn [nth delete_atL] in H.
    set (leg := nth k T []) in *. set (T1 := delete_atL k T) in *.
    assert (HS1 : StronglySorted le (lens T1)) by (unfold T1; rewrite lens_delete; apply SS_delete; exact HS).
    destruct (negb (vi =? Z.of_nat (length leg) - 1)); [discriminate H|].
    destruct (idx_ok (c :: T1) (Z.of_nat (length (c :: T1)) - 1)) eqn:EL; [|discriminate H].
    set (x := leg ++ [v]) in *.
    destruct (Z.of_nat (length x) >=? Z.of_nat (length (list_get [] (c :: T1) (Z.of_nat (length (c :: T1)) - 1)))) eqn:EG.
    + injection H as <-. cbn [app tl]. rewrite <- insert_atL_end, lens_insert, <- (lens_length T1). apply SS_insert; [exact HS1|lia| |intros k0 Hk0; lia].
      intros k0 Hk0. rewrite lens_length in Hk0. rewrite (list_get_nth [] (c :: T1)) in EG by (try exact EL; cbn [length]; lia).
      replace (Z.to_nat (Z.of_nat (length (c :: T1)) - 1)) with (length T1) in EG by (cbn [length]; lia). destruct T1 as [|t0 T1'] eqn:ET1; [cbn in Hk0; lia|].
      cbn [nth length] in EG. apply Nat.le_trans with (nth (length T1') (lens (t0 :: T1')) O); [apply SS_nth; [exact HS1|rewrite lens_length; cbn [length] in *; lia]|].
      rewrite lens_nth. cbn [nth length] in *. lia.
    + apply append_loop_picks in H; [| |apply down_from_sorted].
      * destruct H as [i [Hin [-> [Hlti [Hle Hfail]]]]]. apply in_map_iff in Hin. destruct Hin as [k0 [Hi0 Hk0]]. apply in_seq in Hk0.
        assert (Hi1 : 1 <= i) by (cbn [length] in *; lia). destruct (Z.to_nat i) as [|i'] eqn:EZ; [lia|]. change (tl (insert_atL (S (S i')) x (c :: T1))) with (insert_atL (S i') x T1). rewrite lens_insert.
        cbn [nth] in Hle. cbn [length] in Hlti.
        apply SS_insert; [exact HS1|rewrite lens_length; lia| |].
        -- intros k1 Hk1. apply Nat.le_trans with (nth i' (lens T1) O); [apply SS_nth; [exact HS1|rewrite lens_length; lia]|]. rewrite lens_nth. exact Hle.
        -- intros k1 Hk1. rewrite lens_length in Hk1. rewrite lens_nth.
           assert (HJ : In (Z.of_nat (S k1)) (map (fun k_ => Z.of_nat (length (c :: T1)) - 1 - Z.of_nat k_) (seq 0 (Z.to_nat (Z.of_nat (length (c :: T1)) - 1 - 0))))).
           { apply in_map_iff. exists (length T1 - S k1)%nat. split; [cbn [length]; lia|]. apply in_seq. cbn [length]. lia. }
           specialize (Hfail (Z.of_nat (S k1)) HJ ltac:(lia)). rewrite Nat2Z.id in Hfail. cbn [nth] in Hfail. lia.
      * intros i Hi. apply in_map_iff in Hi. destruct Hi as [k0 [<- Hk0]]. apply in_seq in Hk0. lia.
Qed.

Lemma In_delete_atL {A} (x : A) : forall l k, In x (delete_atL k l) -> In x l.
Proof. induction l as [|a l IH]; intros k H; [destruct k; destruct H|]. destruct k as [|k]; [right; exact H|]. destruct H as [->|H]; [left; reflexivity|right; apply (IH k H)]. Qed.
Lemma remove_loop_picks : forall idx L v li vi leg L', (forall i, In i idx -> 0 <= i) -> StronglySorted Z.gt idx ->
  py_Q_remove_loop1 idx L v li vi leg = FRet L' ->
  exists i, In i idx /\ L' = insert_atL (S (Z.to_nat i)) leg L /\ (Z.to_nat i < length L)%nat /\ (length (nth (Z.to_nat i) L []) <= length leg)%nat /\
            forall j, In j idx -> j > i -> (length leg < length (nth (Z.to_nat j) L []))%nat.
Proof.
  induction idx as [|i idx IH]; intros L v li vi leg L' Hpos Hsort H; [discriminate H|]. cbn [py_Q_remove_loop1] in H.
  destruct (idx_ok L i) eqn:EI; [|discriminate H]. pose proof (Hpos i (or_introl eq_refl)) as Hi. pose proof (idx_ok_lt' L i EI Hi) as Hlt.
  rewrite (list_get_nth [] L i Hi EI) in H. inversion Hsort as [|a l Hs Hf]; subst.
  destruct (Z.of_nat (length (nth (Z.to_nat i) L [])) <=? Z.of_nat (length leg)) eqn:ET.
  - injection H as <-. exists i. split; [left; reflexivity|]. split.
    + f_equal. unfold norm_insert. assert (E : (i + 1 <? 0) = false) by lia. rewrite E. lia.
    + split; [exact Hlt|]. split; [lia|]. intros j [<-|Hj] Hgt; [lia|]. rewrite Forall_forall in Hf. specialize (Hf j Hj). lia.
  - destruct (IH L v li vi leg L' (fun j Hj => Hpos j (or_intror Hj)) Hs H) as [i' [Hin [HL [Hlt' [Hle Hfail]]]]].
    exists i'. split; [right; exact Hin|]. split; [exact HL|]. split; [exact Hlt'|]. split; [exact Hle|].
    intros j [<-|Hj] Hgt; [lia|apply Hfail; assumption].
Qed.
(* remove keeps the legs behind the centre ordered by length *)
Theorem gen_q_remove_sorted legs v legs' : legs <> [] -> Forall (fun leg => leg <> []) legs -> SortedLegs legs -> py_Q_remove legs v = FRet legs' -> SortedLegs legs'.
Proof.
  intros Hne Hnonempty HS H. unfold py_Q_remove in H. cbv beta iota zeta in H.
  destruct (py_Q_find legs v) as [[li vi]| | | |] eqn:EF; try discriminate H. destruct (find_range legs v li vi EF) as [Hli|Hli]; [subst li; discriminate H|].
  assert (Hn : norm_idx (length legs) li = li) by (unfold norm_idx; assert (E : (li <? 0) = false) by lia; rewrite E; reflexivity). rewrite !Hn in H.
  destruct legs as [|c T]; [congruence|]. unfold SortedLegs in *. cbn [tl] in HS.
  destruct (li =? -1) eqn:E1; [discriminate H|]. destruct (li =? 0) eqn:E0; [discriminate H|].
  destruct (idx_ok (c :: T) li) eqn:EI; [|discriminate H]. pose proof (idx_ok_lt' _ li EI Hli) as Hlt.
  rewrite !(list_get_nth [] (c :: T) li Hli EI) in H. destruct (Z.to_nat li) as [|k] eqn:EK; [lia|]. cbn [nth delete_atL] in H.
  set (T1 := delete_atL k T) in *.
  assert (HS1 : StronglySorted le (lens T1)) by (unfold T1; rewrite lens_delete; apply SS_delete; exact HS).
  destruct (vi <=? Z.of_nat (length (nth k T []))); [|discriminate H].
  set (x := firstn (Z.to_nat vi) (nth k T [])) in *.
  assert (HT1 : forall leg, In leg T1 -> (1 <= length leg)%nat).
  { intros leg Hleg. rewrite Forall_forall in Hnonempty. assert (Hin : In leg T) by (apply (In_delete_atL leg T k Hleg)).
    specialize (Hnonempty leg (or_intror Hin)). destruct leg; [congruence|cbn; lia]. }
  destruct (Z.of_nat (length x) =? 0) eqn:EP0; [injection H as <-; exact HS1|].
  destruct (Z.of_nat (length x) =? 1) eqn:EP1.
  - injection H as <-. unfold norm_insert. cbn. constructor; [exact HS1|]. apply Forall_forall. intros y Hy. unfold lens in Hy. apply in_map_iff in Hy. destruct Hy as [leg [<- Hleg]].
    specialize (HT1 leg Hleg). lia.
  - destruct (idx_ok (c :: T1) (Z.of_nat (length (c :: T1)) - 1)) eqn:EL; [|discriminate H].
    destruct (Z.of_nat (length x) >=? Z.of_nat (length (list_get [] (c :: T1) (Z.of_nat (length (c :: T1)) - 1)))) eqn:EG.
    + injection H as <-. cbn [app tl]. rewrite <- insert_atL_end, lens_insert, <- (lens_length T1). apply SS_insert; [exact HS1|lia| |intros k0 Hk0; lia].
      intros k0 Hk0. rewrite lens_length in Hk0. rewrite (list_get_nth [] (c :: T1)) in EG by (try exact EL; cbn [length]; lia).
      replace (Z.to_nat (Z.of_nat (length (c :: T1)) - 1)) with (length T1) in EG by (cbn [length]; lia). destruct T1 as [|t0 T1'] eqn:ET1; [cbn in Hk0; lia|].
      cbn [nth length] in EG. apply Nat.le_trans with (nth (length T1') (lens (t0 :: T1')) O); [apply SS_nth; [exact HS1|rewrite lens_length; cbn [length] in *; lia]|].
      rewrite lens_nth. cbn [nth length] in *. lia.
    + apply remove_loop_picks in H; [| |apply down_from_sorted].
      * destruct H as [i [Hin [-> [Hlti [Hle Hfail]]]]]. apply in_map_iff in Hin. destruct Hin as [k0 [Hi0 Hk0]]. apply in_seq in Hk0.
        assert (Hi1 : 2 <= i) by (cbn [length] in *; lia). destruct (Z.to_nat i) as [|i'] eqn:EZ; [lia|].
        change (tl (insert_atL (S (S i')) x (c :: T1))) with (insert_atL (S i') x T1). rewrite lens_insert.
        cbn [nth] in Hle. cbn [length] in Hlti.
        apply SS_insert; [exact HS1|rewrite lens_length; lia| |].
        -- intros k1 Hk1. apply Nat.le_trans with (nth i' (lens T1) O); [apply SS_nth; [exact HS1|rewrite lens_length; lia]|]. rewrite lens_nth. exact Hle.
        -- intros k1 Hk1. rewrite lens_length in Hk1. rewrite lens_nth.
           assert (HJ : In (Z.of_nat (S k1)) (map (fun k_ => Z.of_nat (length (c :: T1)) - 1 - Z.of_nat k_) (seq 0 (Z.to_nat (Z.of_nat (length (c :: T1)) - 1 - 1))))).
           { apply in_map_iff. exists (length T1 - S k1)%nat. split; [cbn [length]; lia|]. apply in_seq. cbn [length]. lia. }
           specialize (Hfail (Z.of_nat (S k1)) HJ ltac:(lia)). rewrite Nat2Z.id in Hfail. cbn [nth] in Hfail. lia.
      * intros i Hi. apply in_map_iff in Hi. destruct Hi as [k0 [<- Hk0]]. apply in_seq in Hk0. lia.
Qed.

(* ---- the getters of the steps: the long leg is the last leg, the control vertex the head of the first leg; set_center on the empty graph ---- *)
Lemma nth_pred_last {A} (d : A) : forall l, nth (length l - 1) l d = last l d.
Proof.
  induction l as [|a l IH]; [reflexivity|]. destruct l as [|b l]; [reflexivity|]. change (last (a :: b :: l) d) with (last (b :: l) d). rewrite <- IH.
  replace (length (a :: b :: l) - 1)%nat with (S (length (b :: l) - 1)) by (cbn [length]; lia). reflexivity.
Qed.
Theorem gen_q_get_long_leg legs : (3 <= length legs)%nat -> py_Q_get_long_leg legs = FRet (last legs []).
Proof.
  intros H. unfold py_Q_get_long_leg, py_Q_is_empty_legs. assert (E : (Z.of_nat (length legs) <? 3) = false) by lia. rewrite E.
  assert (EI : idx_ok legs (Z.of_nat (length legs) - 1) = true) by (unfold idx_ok, py_index; assert (E1 : (Z.of_nat (length legs) - 1 <? 0) = false) by lia; rewrite E1; assert (E2 : ((0 <=? Z.of_nat (length legs) - 1) && (Z.of_nat (length legs) - 1 <? Z.of_nat (length legs))) = true) by lia; rewrite E2; reflexivity). rewrite EI. f_equal.
  rewrite (list_get_nth [] legs) by (try exact EI; lia). replace (Z.to_nat (Z.of_nat (length legs) - 1)) with (length legs - 1)%nat by lia.
  apply nth_pred_last.
Qed.
Theorem gen_q_get_long_leg_rejects legs : (length legs < 3)%nat -> py_Q_get_long_leg legs = FRaised (EUser "MorphFactoryException").
Proof. intros H. unfold py_Q_get_long_leg, py_Q_is_empty_legs. assert (E : (Z.of_nat (length legs) <? 3) = true) by lia. rewrite E. reflexivity. Qed.
Theorem gen_q_set_center legs v : py_Q_set_center legs v = match legs with [] => FRet [[v]] | _ => FRaised (EUser "MorphFactoryException") end.
Proof. destruct legs; reflexivity. Qed.
Theorem gen_q_get_one_vertex c a l rest : py_Q_get_one_vertex (c :: (a :: l) :: rest) = if (length rest <? 1)%nat then FRaised (EUser "MorphFactoryException") else FRet a.
Proof. destruct rest as [|r rest]; [reflexivity|]. unfold py_Q_get_one_vertex, py_Q_is_empty_legs. cbn [length]. assert (E : (Z.of_nat (S (S (S (length rest)))) <? 3) = false) by lia. rewrite E.
  assert (EI : idx_ok (c :: (a :: l) :: r :: rest) 1 = true) by (unfold idx_ok, py_index; cbn [length]; change (1 <? 0) with false; cbv iota; assert (E2 : ((0 <=? 1) && (1 <? Z.of_nat (S (S (S (length rest)))))) = true) by lia; rewrite E2; reflexivity).
  rewrite EI, (list_get_nth [] _ 1) by (try exact EI; lia). reflexivity. Qed.
Print Assumptions gen_q_anti_commutates.
Print Assumptions gen_q_max_connected.
Print Assumptions gen_q_append_to_queue.
Print Assumptions gen_q_get_queue.
Print Assumptions gen_q_get_queue_reach.
Print Assumptions reach_example.
Print Assumptions gen_queue_runs.
Print Assumptions gen_q_check_dependency.
Print Assumptions gen_q_check_dependency_refuted.
Print Assumptions gen_q_find.
Print Assumptions gen_q_append_accounts.
Print Assumptions gen_q_remove_accounts.
Print Assumptions gen_q_replace_accounts.
Print Assumptions gen_q_append_sorted.
Print Assumptions gen_q_remove_sorted.
Print Assumptions gen_q_append_to_center.
Print Assumptions gen_q_append_to_center_refuted.
Print Assumptions gen_q_get_lits.
Print Assumptions gen_q_is_included.
Print Assumptions gen_q_lit.
Print Assumptions gen_q_get_pq.
Print Assumptions gen_q_restore_delayed.
Print Assumptions gen_q_append_delayed.
Print Assumptions gen_q_get_long_leg.
Print Assumptions gen_q_get_long_leg_rejects.
Print Assumptions gen_q_set_center.
Print Assumptions gen_q_get_one_vertex.

(* ---- get_one_vertices characterised: the single legs that _gen_one_legs sees are the maximal run of one-vertex legs right behind the centre
   (the loop over range(1, len(legs)) stops at the first longer leg: the legs are sorted by length, see gen_q_append_sorted), and
   get_one_vertices returns their vertices in that order.  This discharges the hypothesis `py_Q_get_one_vertices legs = FRet ones` of
   gen_q_check_dependency and gen_q_get_pq on every graph with at least two legs. ---- *)
Fixpoint take_ones (l : list (list pstr)) : list (list pstr) :=
  match l with [] => [] | x :: r => if (length x =? 1)%nat then x :: take_ones r else [] end.
Lemma take_ones_all1 l : Forall (fun x => length x = 1%nat) (take_ones l).
Proof. induction l as [|x r IH]; cbn [take_ones]; [constructor|]. destruct (length x =? 1)%nat eqn:E; [constructor; [lia|exact IH]|constructor]. Qed.
Lemma take_ones_prefix l : exists t, l = take_ones l ++ t /\ match t with [] => True | x :: _ => length x <> 1%nat end.
Proof.
  induction l as [|x r [t [E Ht]]]; [exists []; split; [reflexivity|exact I]|]. cbn [take_ones]. destruct (length x =? 1)%nat eqn:E1.
  - exists t. split; [cbn [app]; f_equal; exact E|exact Ht].
  - exists (x :: r). split; [reflexivity|lia].
Qed.
Lemma idx_behind {A} (c : A) pre x r : idx_ok (c :: pre ++ x :: r) (1 + Z.of_nat (length pre)) = true.
Proof.
  unfold idx_ok, py_index. assert (E : (1 + Z.of_nat (length pre) <? 0) = false) by lia. rewrite E.
  assert (E2 : ((0 <=? 1 + Z.of_nat (length pre)) && (1 + Z.of_nat (length pre) <? Z.of_nat (length (c :: pre ++ x :: r)))) = true) by (cbn [length]; rewrite app_length; cbn [length]; lia).
  rewrite E2. reflexivity.
Qed.
Lemma get_behind {A} (d c : A) pre x r : list_get d (c :: pre ++ x :: r) (1 + Z.of_nat (length pre)) = x.
Proof.
  rewrite list_get_nth by (try apply idx_behind; lia). replace (Z.to_nat (1 + Z.of_nat (length pre))) with (S (length pre)) by lia.
  cbn [nth]. rewrite app_nth2 by lia. replace (length pre - length pre)%nat with 0%nat by lia. reflexivity.
Qed.
Lemma gen_one_legs_loop c : forall rest pre out,
  py_Q__gen_one_legs_loop1 (map (fun k_ => 1 + Z.of_nat k_) (seq (length pre) (length rest))) (c :: pre ++ rest) out = FRet (out ++ take_ones rest).
Proof.
  induction rest as [|x r IH]; intros pre out; [cbn; rewrite app_nil_r; reflexivity|].
  cbn [length seq map py_Q__gen_one_legs_loop1 take_ones]. rewrite idx_behind, get_behind.
  destruct (length x =? 1)%nat eqn:E1.
  - assert (E : (Z.of_nat (length x) =? 1) = true) by lia. rewrite E. cbv zeta.
    replace (c :: pre ++ x :: r) with (c :: (pre ++ [x]) ++ r) by (rewrite <- app_assoc; reflexivity).
    replace (S (length pre)) with (length (pre ++ [x])) by (rewrite app_length; cbn [length]; lia).
    rewrite IH. rewrite <- app_assoc. reflexivity.
  - assert (E : (Z.of_nat (length x) =? 1) = false) by lia. rewrite E. rewrite app_nil_r. reflexivity.
Qed.
Theorem gen_q_gen_one_legs c rest : (2 <= length rest)%nat -> py_Q__gen_one_legs (c :: rest) = FRet (take_ones rest).
Proof.
  intros H. unfold py_Q__gen_one_legs, py_Q_is_empty_legs. cbv zeta. assert (E : (Z.of_nat (length (c :: rest)) <? 3) = false) by (cbn [length]; lia). rewrite E.
  replace (Z.to_nat (Z.of_nat (length (c :: rest)) - 1)) with (length rest) by (cbn [length]; lia).
  exact (gen_one_legs_loop c rest [] []).
Qed.
Theorem gen_q_get_one_vertices c rest : (2 <= length rest)%nat ->
  py_Q_get_one_vertices (c :: rest) = FRet (map (@hd pstr (@nil pl)) (take_ones rest)).
Proof.
  intros H. unfold py_Q_get_one_vertices. cbv zeta. rewrite (gen_q_gen_one_legs c rest H). cbv beta iota.
  match goal with |- context [fold_left ?F0 _ (FRet ?s)] => set (F := F0) end.
  assert (L : forall l acc, Forall (fun x : list pstr => length x = 1%nat) l -> fold_left F l (FRet acc) = FRet (acc ++ map (@hd pstr (@nil pl)) l)).
  { induction l as [|x r IH]; intros acc HF; [cbn; rewrite app_nil_r; reflexivity|]. inversion HF as [|? ? Hx Hr]; subst. cbn [fold_left map].
    unfold F at 2. assert (E : Nat.eqb (length x) 0 = false) by lia. rewrite E. cbn [negb]. cbv zeta. rewrite (IH _ Hr). rewrite <- app_assoc. reflexivity. }
  rewrite (L _ [] (take_ones_all1 rest)). reflexivity.
Qed.
Theorem gen_q_get_one_vertices_rejects legs : (length legs < 3)%nat -> py_Q_get_one_vertices legs = FRaised (EUser "MorphFactoryException").
Proof. intros H. unfold py_Q_get_one_vertices, py_Q__gen_one_legs, py_Q_is_empty_legs. cbv zeta. assert (E : (Z.of_nat (length legs) <? 3) = true) by lia. rewrite E. reflexivity. Qed.
(* on a star of single legs (every leg behind the centre has one vertex) get_one_vertices returns every vertex but the centre *)
Theorem gen_q_get_one_vertices_star c rest : (2 <= length rest)%nat -> Forall (fun x => length x = 1%nat) rest ->
  py_Q_get_one_vertices (c :: rest) = FRet (concat rest).
Proof.
  intros H HF. rewrite (gen_q_get_one_vertices c rest H). f_equal. clear H. induction rest as [|x r IH]; [reflexivity|].
  inversion HF as [|? ? Hx Hr]; subst. cbn [take_ones]. assert (E : (length x =? 1)%nat = true) by lia. rewrite E. cbn [map concat]. rewrite (IH Hr).
  destruct x as [|a [|b x]]; try discriminate Hx. reflexivity.
Qed.
Print Assumptions gen_q_gen_one_legs.
Print Assumptions gen_q_get_one_vertices.
Print Assumptions gen_q_get_one_vertices_rejects.
Print Assumptions gen_q_get_one_vertices_star.

(* the dependency test in closed form, with no hypothesis on get_one_vertices left: on every graph with three or more legs and strings of one length *)
Lemma take_ones_heads_in rest g : In g (map (@hd pstr (@nil pl)) (take_ones rest)) -> In g (concat rest).
Proof.
  induction rest as [|x r IH]; cbn [take_ones]; [intros []|]. destruct (length x =? 1)%nat eqn:E; [|intros []]. cbn [map concat]. intros [Hg|Hg]; apply in_or_app.
  - left. destruct x as [|a [|b x]]; try discriminate E. subst g. left. reflexivity.
  - right. exact (IH Hg).
Qed.
Theorem gen_q_check_dependency_closed c rest lighting n : (2 <= length rest)%nat -> SameLen n (concat (c :: rest)) -> length lighting = n ->
  py_Q_check_dependency_one_leg (c :: rest) lighting =
    if existsb (dep_test (concat (c :: rest)) lighting) (map (@hd pstr (@nil pl)) (take_ones rest)) then FRaised (EUser "DependentException") else FRet tt.
Proof.
  intros H HV Hl. apply (gen_q_check_dependency (c :: rest) lighting n _ (gen_q_get_one_vertices c rest H) HV); [|exact Hl].
  intros g Hg. apply HV. cbn [concat]. apply in_or_app. right. exact (take_ones_heads_in rest g Hg).
Qed.
Theorem gen_q_check_dependency_small legs lighting : (length legs < 3)%nat -> py_Q_check_dependency_one_leg legs lighting = FRaised (EUser "MorphFactoryException").
Proof. intros H. unfold py_Q_check_dependency_one_leg. rewrite (gen_q_get_one_vertices_rejects legs H). reflexivity. Qed.
Print Assumptions gen_q_check_dependency_closed.
Print Assumptions gen_q_check_dependency_small.

(* ... and why the `break` of _gen_one_legs is harmless on the graphs the pipeline keeps: when no leg is empty and the legs behind the centre are
   ordered by length (gen_q_append_sorted, gen_q_remove_sorted), the run of single legs the generator yields is ALL the single legs of the graph *)
Lemma filter_ones_none (r : list (list pstr)) : Forall (fun y => (2 <= length y)%nat) r -> filter (fun x => (length x =? 1)%nat) r = [].
Proof. induction 1 as [|y r Hy _ IH]; [reflexivity|]. cbn [filter]. assert (E : (length y =? 1)%nat = false) by lia. rewrite E. exact IH. Qed.
Theorem gen_q_one_legs_all c rest : Forall (fun leg : list pstr => leg <> []) rest -> SortedLegs (c :: rest) ->
  take_ones rest = filter (fun x => (length x =? 1)%nat) rest.
Proof.
  unfold SortedLegs. cbn [tl]. induction rest as [|x r IH]; intros HN HS; [reflexivity|].
  inversion HN as [|? ? Hx Hr]; subst. unfold lens in HS. cbn [map] in HS. inversion HS as [|? ? HS' HF]; subst.
  cbn [take_ones filter]. destruct (length x =? 1)%nat eqn:E; [f_equal; exact (IH Hr HS')|].
  symmetry. apply filter_ones_none. rewrite Forall_forall. intros y Hy. rewrite Forall_forall in HF.
  assert (H1 : (length x <= length y)%nat) by (apply HF; apply in_map; exact Hy).
  destruct x as [|a x]; [congruence|]. cbn [length] in *. lia.
Qed.
Theorem gen_q_get_center c0 l rest : py_Q_get_center ((c0 :: l) :: rest) = FRet c0.
Proof. reflexivity. Qed.
Theorem gen_q_get_center_empty : py_Q_get_center [] = FNone.
Proof. reflexivity. Qed.
Print Assumptions gen_q_one_legs_all.
Print Assumptions gen_q_get_center.
Print Assumptions gen_q_get_center_empty.

(* ... so "no leg is empty and the legs behind the centre are ordered by length" is an invariant of append: the second half of the hypothesis of
   gen_q_append_sorted is preserved as well *)
Lemma Forall_insert_atL {A} (P : A -> Prop) x : P x -> forall p L, Forall P L -> Forall P (insert_atL p x L).
Proof.
  intros Hx. induction p as [|p IH]; intros L HL; [destruct L; constructor; assumption|].
  destruct L as [|a L]; [cbn; constructor; [exact Hx|constructor]|]. inversion HL; subst. cbn [insert_atL]. constructor; [assumption|apply IH; assumption].
Qed.
Lemma Forall_delete_atL {A} (P : A -> Prop) : forall L k, Forall P L -> Forall P (delete_atL k L).
Proof. intros L k HL. rewrite Forall_forall in *. intros x Hx. apply HL. exact (In_delete_atL x L k Hx). Qed.
Theorem gen_q_append_nonempty legs v lit legs' : Forall (fun leg : list pstr => leg <> []) legs -> py_Q_append legs false v lit = FRet legs' ->
  Forall (fun leg : list pstr => leg <> []) legs'.
Proof.
  intros HN H. unfold py_Q_append in H. cbv beta iota zeta in H.
  destruct (py_Q_find legs lit) as [[li vi]| | | |] eqn:EF; try discriminate H.
  destruct (li =? -1) eqn:E1; [discriminate H|]. destruct (li =? 0) eqn:E0.
  - injection H as <-. apply Forall_insert_atL; [discriminate|exact HN].
  - destruct (idx_ok legs li) eqn:EI; [|discriminate H].
    destruct (negb (vi =? Z.of_nat (length (list_get [] legs li)) - 1)); [discriminate H|].
    set (leg := list_get [] legs li) in *. set (T1 := delete_atL (Z.to_nat (norm_idx (length legs) li)) legs) in *.
    assert (HT1 : Forall (fun leg : list pstr => leg <> []) T1) by (apply Forall_delete_atL; exact HN).
    assert (Hx : leg ++ [v] <> []) by (destruct leg; discriminate).
    destruct (idx_ok T1 (Z.of_nat (length T1) - 1)) eqn:EL; [|discriminate H].
    destruct (Z.of_nat (length (leg ++ [v])) >=? Z.of_nat (length (list_get [] T1 (Z.of_nat (length T1) - 1)))) eqn:EG.
    + injection H as <-. apply Forall_app. split; [exact HT1|constructor; [exact Hx|constructor]].
    + apply append_loop_inserts in H.
      * destruct H as [p [_ ->]]. apply Forall_insert_atL; [exact Hx|exact HT1].
      * intros i Hi. apply in_map_iff in Hi. destruct Hi as [k0 [<- Hk0]]. apply in_seq in Hk0. lia.
Qed.
Print Assumptions gen_q_append_nonempty.

(* ... and of remove: the shortened leg is dropped when nothing is left of it, so no empty leg appears either *)
Lemma remove_loop_inserts : forall idx L v li vi leg L', py_Q_remove_loop1 idx L v li vi leg = FRet L' -> exists p, L' = insert_atL p leg L.
Proof.
  induction idx as [|i idx IH]; intros L v li vi leg L' H; [discriminate H|]. cbn [py_Q_remove_loop1] in H.
  destruct (idx_ok L i); [|discriminate H].
  destruct (Z.of_nat (length (list_get [] L i)) <=? Z.of_nat (length leg)); [injection H as <-; eexists; reflexivity|exact (IH _ _ _ _ _ _ H)].
Qed.
Theorem gen_q_remove_nonempty legs v legs' : Forall (fun leg : list pstr => leg <> []) legs -> py_Q_remove legs v = FRet legs' ->
  Forall (fun leg : list pstr => leg <> []) legs'.
Proof.
  intros HN H. unfold py_Q_remove in H. cbv beta iota zeta in H.
  destruct (py_Q_find legs v) as [[li vi]| | | |] eqn:EF; try discriminate H.
  destruct (li =? -1); [discriminate H|]. destruct (li =? 0); [discriminate H|].
  destruct (idx_ok legs li); [|discriminate H].
  destruct (vi <=? Z.of_nat (length (list_get [] legs li))); [|discriminate H].
  set (leg := firstn (Z.to_nat vi) (list_get [] legs li)) in *. set (T1 := delete_atL (Z.to_nat (norm_idx (length legs) li)) legs) in *.
  assert (HT1 : Forall (fun leg : list pstr => leg <> []) T1) by (apply Forall_delete_atL; exact HN).
  destruct (Z.of_nat (length leg) =? 0) eqn:E0; [injection H as <-; exact HT1|].
  assert (Hx : leg <> []) by (destruct leg; [discriminate E0|discriminate]).
  destruct (Z.of_nat (length leg) =? 1); [injection H as <-; apply Forall_insert_atL; assumption|].
  destruct (idx_ok T1 (Z.of_nat (length T1) - 1)); [|discriminate H].
  destruct (Z.of_nat (length leg) >=? Z.of_nat (length (list_get [] T1 (Z.of_nat (length T1) - 1)))).
  - injection H as <-. apply Forall_app. split; [exact HT1|constructor; [exact Hx|constructor]].
  - apply remove_loop_inserts in H. destruct H as [p ->]. apply Forall_insert_atL; assumption.
Qed.
(* the invariant in one statement, over every history of appends and removals that return *)
Definition GoodLegs (L : list (list pstr)) : Prop := L <> [] /\ Forall (fun leg : list pstr => leg <> []) L /\ SortedLegs L.
Inductive edit := EAppend (v lit : pstr) | ERemove (v : pstr).
Definition run_edit (L : list (list pstr)) (e : edit) : fres (list (list pstr)) :=
  match e with EAppend v lit => py_Q_append L false v lit | ERemove v => py_Q_remove L v end.
Lemma nonempty_Forall_ne (L : list (list pstr)) : L <> [] -> Forall (fun leg : list pstr => leg <> []) L -> concat L <> [].
Proof. intros HL HF. destruct L as [|a L]; [congruence|]. inversion HF; subst. destruct a; [congruence|discriminate]. Qed.
Theorem gen_q_edit_invariant L e L' : GoodLegs L -> run_edit L e = FRet L' -> GoodLegs L' /\ hd [] L' = hd [] L.
Proof.
  intros [Hne [HN HS]] H.
  assert (Hhd : hd [] L' = hd [] L).
  { destruct e as [v lit|v]; cbn [run_edit] in H; [exact (proj2 (gen_q_append_accounts L v lit L' Hne H))|].
    destruct (gen_q_remove_accounts L v L' Hne H) as [t [_ Hh]]. exact Hh. }
  split; [|exact Hhd]. split.
  - intros ->. cbn [hd] in Hhd. destruct L as [|a L]; [congruence|]. inversion HN; subst. cbn [hd] in Hhd. congruence.
  - destruct e as [v lit|v]; cbn [run_edit] in H.
    + split; [exact (gen_q_append_nonempty L v lit L' HN H)|exact (gen_q_append_sorted L v lit L' Hne HN HS H)].
    + split; [exact (gen_q_remove_nonempty L v L' HN H)|exact (gen_q_remove_sorted L v L' Hne HN HS H)].
Qed.
Fixpoint run_edits (L : list (list pstr)) (es : list edit) : fres (list (list pstr)) :=
  match es with [] => FRet L | e :: r => match run_edit L e with FRet L1 => run_edits L1 r | x => x end end.
Theorem gen_q_history_invariant es : forall L L', GoodLegs L -> run_edits L es = FRet L' -> GoodLegs L' /\ hd [] L' = hd [] L.
Proof.
  induction es as [|e r IH]; intros L L' HG H; cbn [run_edits] in H; [injection H as <-; split; [exact HG|reflexivity]|].
  destruct (run_edit L e) as [L1| | | |] eqn:E1; try discriminate H. destruct (gen_q_edit_invariant L e L1 HG E1) as [HG1 Hh1].
  destruct (IH L1 L' HG1 H) as [HG' Hh']. split; [exact HG'|congruence].
Qed.
(* so along every history of edits the dependency test looks at all single legs of the graph *)
Theorem gen_q_history_sees_all_ones es c rest c' rest' : GoodLegs (c :: rest) -> run_edits (c :: rest) es = FRet (c' :: rest') ->
  c' = c /\ take_ones rest' = filter (fun x => (length x =? 1)%nat) rest'.
Proof.
  intros HG H. destruct (gen_q_history_invariant es _ _ HG H) as [[_ [HN HS]] Hh]. split; [exact Hh|]. inversion HN; subst. apply (gen_q_one_legs_all c'); assumption.
Qed.
Example good_legs_star5 : GoodLegs star5. Proof. split; [discriminate|]. split; [repeat constructor; discriminate|]. unfold SortedLegs, star5. cbn. repeat constructor. Qed.
Print Assumptions gen_q_remove_nonempty.
Print Assumptions gen_q_edit_invariant.
Print Assumptions gen_q_history_invariant.
Print Assumptions gen_q_history_sees_all_ones.

(* replace(v, v_new) exchanges one vertex and leaves the shape alone, so it keeps the invariant too *)
Theorem gen_q_replace_good legs v v' legs' : GoodLegs legs -> py_Q_replace legs v v' = FRet legs' -> GoodLegs legs' /\ lens legs' = lens legs.
Proof.
  intros [Hne [HN HS]] H. destruct (gen_q_replace_accounts legs v v' legs' H) as [A [pre [post [B [-> [-> _]]]]]].
  assert (HL : lens (A ++ (pre ++ v' :: post) :: B) = lens (A ++ (pre ++ v :: post) :: B)).
  { unfold lens. rewrite !map_app. cbn [map]. rewrite !app_length. reflexivity. }
  split; [|exact HL]. split; [destruct A; discriminate|]. split.
  - rewrite Forall_app in *. destruct HN as [HA HB]. split; [exact HA|]. inversion HB; subst. constructor; [destruct pre; discriminate|assumption].
  - unfold SortedLegs in *. replace (lens (tl (A ++ (pre ++ v' :: post) :: B))) with (tl (lens (A ++ (pre ++ v' :: post) :: B))) by (destruct A; reflexivity).
    rewrite HL. replace (tl (lens (A ++ (pre ++ v :: post) :: B))) with (lens (tl (A ++ (pre ++ v :: post) :: B))) by (destruct A; reflexivity). exact HS.
Qed.
Print Assumptions gen_q_replace_good.
