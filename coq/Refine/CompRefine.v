(* Refine/CompRefine.v — the builders of the universal generating set that tools/py2coq.py generates from
   src/paulie/application/pauli_compiler.py (left_a_minimal, choose_u_for_b, construct_universal_set) are equal to the
   hand-written model Model/Compiler.v, which the C05/C06/C07 theorems are about. *)
From PauLie Require Import Pauli Compiler.
From PauLieRefine Require Import PySem.
From PauLieGen Require Import CompGen.
From Coq Require Import Lia ZifyBool.
Open Scope Z_scope.

Lemma pyrange_in n i : In i (pyrange n) -> ((0 <=? i) && (i <? n)) = true.
Proof. unfold pyrange. intros H. apply in_map_iff in H. destruct H as [j [<- Hj]]. apply in_seq in Hj. lia. Qed.

Theorem gen_left_a_minimal k : py_left_a_minimal k = FRet (left_a_minimal (Z.to_nat k)).
Proof.
  unfold py_left_a_minimal, left_a_minimal. cbv zeta. match goal with |- context [fold_left ?f _ _] => set (F := f) end.
  assert (L : forall l acc i0 z0, (forall i, In i l -> ((0 <=? i) && (i <? k)) = true) ->
     exists i1, fold_left F l (Next (acc, i0, z0)) =
       Next (acc ++ flat_map (fun i => [get_single (Z.to_nat k) (Z.to_nat i) PX; get_single (Z.to_nat k) (Z.to_nat i) PZ]) l, i1, z0)).
  { induction l as [|i l IH]; intros acc i0 z0 Hin.
    - exists i0. cbn. rewrite app_nil_r. reflexivity.
    - cbn [fold_left flat_map].
      assert (S : F (Next (acc, i0, z0)) i = Next ((acc ++ [get_single (Z.to_nat k) (Z.to_nat i) PX]) ++ [get_single (Z.to_nat k) (Z.to_nat i) PZ], i, z0)).
      { subst F. cbv beta. cbn [seqo uncont]. rewrite (Hin i (or_introl eq_refl)). reflexivity. }
      rewrite S. destruct (IH ((acc ++ [get_single (Z.to_nat k) (Z.to_nat i) PX]) ++ [get_single (Z.to_nat k) (Z.to_nat i) PZ]) i z0 (fun j Hj => Hin j (or_intror Hj))) as [i1 E].
      exists i1. rewrite E. rewrite <- !app_assoc. reflexivity. }
  destruct (L (pyrange k) [] 0 [] (pyrange_in k)) as [i1 E]. rewrite E. cbn [unloop seqo finish app]. f_equal. f_equal.
  unfold pyrange. rewrite flat_map_concat_map, map_map, <- flat_map_concat_map.
  apply flat_map_ext. intros a. rewrite Nat2Z.id. reflexivity.
Qed.

Theorem gen_choose_u k : 1 <= k -> py_choose_u_for_b k = FRet (choose_u (Z.to_nat k)).
Proof. intros H. unfold py_choose_u_for_b, choose_u. assert (E : ((0 <=? 0) && (0 <? k)) = true) by lia. rewrite E. reflexivity. Qed.

Lemma forallb_range n : forallb (fun j => (0 <=? j) && (j <? n)) (pyrange n) = true.
Proof. apply forallb_forall. intros j Hj. apply pyrange_in. exact Hj. Qed.

Theorem gen_universal N k : py_construct_universal_set N k =
  match universal (Z.to_nat N) (Z.to_nat k) with Ok U => FRet U | ValueError => FRaised (EUser "ValueError") end.
Proof.
  unfold py_construct_universal_set, universal. cbv zeta.
  destruct ((1 <=? k) && (k <? N)) eqn:G.
  - assert (G' : (Nat.leb 1 (Z.to_nat k) && Nat.ltb (Z.to_nat k) (Z.to_nat N))%bool = true) by lia. rewrite G'.
    cbn [negb seqo]. rewrite gen_left_a_minimal. cbn [bindr]. rewrite gen_choose_u by lia. cbn [bindr].
    rewrite forallb_range. cbn [finish]. f_equal.
    assert (En : Z.to_nat (N - k) = (Z.to_nat N - Z.to_nat k)%nat) by lia. rewrite En.
    unfold py_tensor. rewrite map_app, !map_map. unfold pyrange. rewrite !map_map, En.
    f_equal. f_equal; apply map_ext; intros j; rewrite Nat2Z.id; reflexivity.
  - assert (G' : (Nat.leb 1 (Z.to_nat k) && Nat.ltb (Z.to_nat k) (Z.to_nat N))%bool = false) by lia. rewrite G'. reflexivity.
Qed.

(* non-vacuity: the translated builder runs *)
Example gen_universal_runs : exists U, py_construct_universal_set 4 2 = FRet U /\ length U = 9%nat.
Proof. eexists. split; [vm_compute; reflexivity|reflexivity]. Qed.
Example gen_universal_rejects : py_construct_universal_set 3 3 = FRaised (EUser "ValueError") /\ py_construct_universal_set 3 0 = FRaised (EUser "ValueError").
Proof. split; vm_compute; reflexivity. Qed.

Print Assumptions gen_left_a_minimal.
Print Assumptions gen_choose_u.
Print Assumptions gen_universal.
Print Assumptions gen_universal_runs.
Print Assumptions gen_universal_rejects.
