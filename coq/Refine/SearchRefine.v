(* Refine/SearchRefine.v — the self-checking search of src/paulie/application/pauli_compiler.py, as tools/py2coq.py
   (py2coq_search.py) generates it from /repo's working tree on every run of C05 and C06: _nested_commutator_result,
   _sequence_to_paulie_orientation, OptimalPauliCompiler._case3_best_reordering, compile.
   The helpers that are NOT translated (subsystem_compiler, left_map_over_a, _candidate_decompositions, the interleaving generators)
   are an input stream `orc` about which nothing is assumed.  Proved here, for every N, k, target and every stream:
   whatever compile RETURNS evaluates, in the documented orientation (Model/Compiler.nested_eval), to the target and is not empty
   (C05: "never returns a sequence that evaluates to zero or to some other string"). *)
From PauLie Require Import Pauli Matrix Compiler MatrixT CompilerT LeftFullT LinearT.
From PauLie Require OtocLoopT UniversalT.
From PauLie Require Import Sym SymT ClT ClSym InvarT ParserT QuadInvT.
From PauLieRefine Require Import PySem.
From PauLieGen Require Import SearchGen.
From Coq Require Import Lia ZifyBool.
Open Scope Z_scope.

(* ---------- a small program logic for the outcomes of PySem: what a block may return, and a state invariant ---------- *)
Section OutP.
Context {S R : Type} (P : R -> Prop) (I : S -> Prop).
Definition OutP (o : outcome S R) : Prop :=
  match o with Ret r => P r | Next s | Cont s | Brk s => I s | _ => True end.
Lemma OutP_seqo o k : OutP o -> (forall s, I s -> OutP (k s)) -> OutP (seqo o k).
Proof. destruct o; cbn; auto. Qed.
Lemma OutP_uncont o : OutP o -> OutP (uncont o).
Proof. destruct o; cbn; auto. Qed.
Lemma OutP_unloop o : OutP o -> OutP (unloop o).
Proof. destruct o; cbn; auto. Qed.
Lemma OutP_fold {A} (body : S -> A -> outcome S R) l : forall o0, OutP o0 ->
  (forall s x, I s -> In x l -> OutP (body s x)) ->
  OutP (fold_left (fun o x => seqo o (fun s => body s x)) l o0).
Proof.
  induction l as [|x l IH]; intros o0 H0 Hb; [exact H0|]. cbn [fold_left]. apply IH.
  - apply OutP_seqo; [exact H0|]. intros s Hs. apply Hb; [exact Hs|left; reflexivity].
  - intros s y Hs Hy. apply Hb; [exact Hs|right; exact Hy].
Qed.
Lemma OutP_while fuel cond body : forall s0, I s0 -> (forall s, I s -> cond s = true -> OutP (body s)) -> OutP (while_loop fuel cond body s0).
Proof.
  induction fuel as [|f IH]; intros s0 H0 Hb; [exact Logic.I|]. cbn [while_loop]. destruct (cond s0) eqn:C; [|exact H0].
  pose proof (Hb s0 H0 C) as Hs. destruct (body s0); cbn [uncont] in *; cbn [OutP] in Hs; try exact Hs; try exact Logic.I; apply IH; assumption.
Qed.
Lemma OutP_bindr {R'} (c : fres R') k : (forall r, c = FRet r -> OutP (k r)) -> OutP (bindr c k).
Proof. intros H. destruct c; cbn; auto. Qed.
Lemma OutP_finish o r : OutP o -> finish o = FRet r -> P r.
Proof. destruct o; cbn; intros H E; try discriminate. injection E as <-. exact H. Qed.
End OutP.

(* ---------- the small functions ---------- *)
(* what _nested_commutator_result computes: start from the first string, apply the others in order *)
Fixpoint ncr_from (cur : pstr) (ops : list pstr) : option pstr :=
  match ops with
  | [] => Some cur
  | a :: t => if Nat.eqb (length a) (length cur) then (if anti_l a cur then ncr_from (smul a cur) t else None) else None
  end.

Lemma ad_apply_ret A B r : py_S_ad_apply A B = FRet r ->
  r = match B with None => None | Some c => if anti_l A c then Some (smul A c) else None end /\
  match B with None => True | Some c => length A = length c end.
Proof.
  unfold py_S_ad_apply. destruct B as [c|]; cbn [opt_is_some negb seqo finish unopt]; [|intros E; injection E as <-; split; [reflexivity|exact I]].
  unfold py_S_commutes_ok, py_S_commutes_val, py_S_multiply_ok, py_S_multiply_val.
  destruct (Nat.eq_dec (length A) (length c)) as [L|L].
  - rewrite (commutes_code_ok A c L), (multiply_code_ok A c L). cbn [res_ok res_val]. rewrite orb_true_r. cbn [finish].
    intros E. injection E as <-. split; [destruct (anti_l A c); reflexivity|exact L].
  - unfold commutes_code. destruct (Nat.eqb_spec (length A) (length c)); [contradiction|]. cbn [res_ok finish]. discriminate.
Qed.

Lemma ncr_loop : forall ops cur o,
  fold_left (fun (o_ : outcome (option pstr) (option pstr)) (it_ : pstr) => seqo o_ (fun v_cur => let it0_ := it_ in let v_A := it0_ in
     uncont (bindr (py_S_ad_apply v_A v_cur) (fun r_ => let v_cur := r_ in seqo (if negb (opt_is_some v_cur) then Ret None else Next v_cur) (fun v_cur => Next v_cur)))))
    ops (Next (Some cur)) = o ->
  match o with
  | Next c => c = ncr_from cur ops /\ c <> None
  | Ret r => r = None
  | Raised _ => True
  | _ => False
  end.
Proof.
  assert (FR : forall l (r0 : option pstr) (f : outcome (option pstr) (option pstr) -> pstr -> outcome (option pstr) (option pstr)),
           (forall x, f (Ret r0) x = Ret r0) -> fold_left f l (Ret r0) = Ret r0).
  { induction l as [|x l IHl]; intros r0 f Hf; [reflexivity|]. cbn [fold_left]. rewrite Hf. apply IHl. exact Hf. }
  assert (FE : forall e l (f : outcome (option pstr) (option pstr) -> pstr -> outcome (option pstr) (option pstr)),
           (forall x, f (Raised e) x = Raised e) -> fold_left f l (Raised e) = Raised e).
  { intros e. induction l as [|x l IHl]; intros f Hf; [reflexivity|]. cbn [fold_left]. rewrite Hf. apply IHl. exact Hf. }
  assert (NX : forall a cur, match py_S_ad_apply a (Some cur) with FRet _ | FRaised _ => True | _ => False end).
  { intros a cur. unfold py_S_ad_apply. cbn [opt_is_some negb seqo unopt]. destruct (py_S_commutes_ok a cur); [|exact I].
    destruct (py_S_commutes_val a cur || py_S_multiply_ok a cur)%bool; exact I. }
  induction ops as [|a t IH]; intros cur o E.
  - cbn in E. subst o. split; [reflexivity|discriminate].
  - cbn [fold_left seqo] in E. cbv zeta in E. pose proof (NX a cur) as N.
    destruct (py_S_ad_apply a (Some cur)) as [r| |e| |] eqn:EA; try contradiction.
    + apply ad_apply_ret in EA. destruct EA as [-> L]. cbn [bindr] in E. cbn [ncr_from]. rewrite L, Nat.eqb_refl.
      destruct (anti_l a cur).
      * cbn [opt_is_some negb seqo uncont] in E. apply IH in E. exact E.
      * cbn [opt_is_some negb seqo uncont] in E. subst o. rewrite FR by (intros; reflexivity). reflexivity.
    + cbn [bindr uncont] in E. subst o. rewrite FE by (intros; reflexivity). exact I.
Qed.

Theorem gen_s_ncr G r : py_S_nested_commutator_result G = FRet (Some r) -> exists b ops, G = b :: ops /\ ncr_from b ops = Some r.
Proof.
  unfold py_S_nested_commutator_result. cbv zeta. destruct G as [|b ops]; [cbn; discriminate|].
  cbn [is_nil negb seqo]. change (idx_ok (b :: ops) 0) with true. cbv iota.
  change (list_get [] (b :: ops) 0) with b. change (slice_from (b :: ops) 1) with ops.
  match goal with |- context [fold_left ?f ops ?s] => pose proof (ncr_loop ops b (fold_left f ops s) eq_refl) as H; destruct (fold_left f ops s) as [c|s0|r0| |e| |s0|] end;
    cbn [unloop seqo finish]; try contradiction; try discriminate.
  - destruct H as [-> _]. intros E. injection E as E. exists b, ops. split; [reflexivity|exact E].
  - subst r0. discriminate.
Qed.

(* the documented orientation of a sequence that passed the check: reversed operators, base last *)
Theorem gen_s_orient G : py_S_sequence_to_paulie_orientation G = FRet (match G with [] => [] | b :: ops => rev ops ++ [b] end).
Proof. destruct G as [|b ops]; reflexivity. Qed.

Lemma nested_eval_step s a : s <> [] -> nested_eval (a :: s) = match nested_eval s with Some r => if anti_l a r then Some (smul a r) else None | None => None end.
Proof. intros Hs. destruct s; [congruence|reflexivity]. Qed.

Lemma ncr_from_eval : forall ops s cur r, s <> [] -> nested_eval s = Some cur -> ncr_from cur ops = Some r -> nested_eval (rev ops ++ s) = Some r.
Proof.
  induction ops as [|a t IH]; intros s cur r Hs Hc H.
  - cbn in H. injection H as <-. exact Hc.
  - cbn [ncr_from] in H. destruct (Nat.eqb (length a) (length cur)); [|discriminate]. destruct (anti_l a cur) eqn:Ea; [|discriminate].
    cbn [rev]. rewrite <- app_assoc. cbn [app]. apply (IH (a :: s) (smul a cur)); [discriminate| |exact H].
    rewrite nested_eval_step by exact Hs. rewrite Hc, Ea. reflexivity.
Qed.

(* a sequence that passed the source's check evaluates, in the documented orientation, to the string the check compared *)
Theorem checked_evaluates G r seq : py_S_nested_commutator_result G = FRet (Some r) -> py_S_sequence_to_paulie_orientation G = FRet seq ->
  nested_eval seq = Some r /\ seq <> [].
Proof.
  intros H1 H2. apply gen_s_ncr in H1. destruct H1 as [b [ops [-> H1]]]. rewrite gen_s_orient in H2. injection H2 as <-. split.
  - apply (ncr_from_eval ops [b] b r); [discriminate|reflexivity|exact H1].
  - intros F. apply app_eq_nil in F. destruct F; discriminate.
Qed.

Lemma split_at (k : Z) (r V W : pstr) :
  firstn (Z.to_nat k) (skipn (Z.to_nat 0) r) = V -> firstn (Z.to_nat (Z.of_nat (length r) - k)) (skipn (Z.to_nat k) r) = W -> r = V ++ W.
Proof.
  intros <- <-. change (Z.to_nat 0) with O. cbn [skipn]. rewrite (firstn_all2 (skipn _ _)); [symmetry; apply firstn_skipn|]. rewrite skipn_length. lia.
Qed.

(* ---------- the search ---------- *)
Lemma seqo_assoc {S R} (o : outcome S R) k1 k2 : seqo (seqo o k1) k2 = seqo o (fun s => seqo (k1 s) k2).
Proof. destruct o; reflexivity. Qed.

(* symbolic execution of a translated block: straight-line code is executed (nothing is forgotten), a loop is entered through its
   invariant.  Leaves: `P r` at a return, `I s` at the end of a loop body / at continue / break. *)
Ltac destruct_state := repeat match goal with s : (_ * _)%type |- _ => destruct s end.
Ltac sx_red := cbn [seqo bindr uncont unloop]; cbv beta iota zeta.
Ltac sx_step :=
  lazymatch goal with
  | |- OutP _ _ (uncont _) => apply OutP_uncont
  | |- OutP _ _ (unloop _) => apply OutP_unloop
  | |- OutP _ _ (fold_left _ _ _) =>
      apply OutP_fold; [|let s := fresh "s" in let x := fresh "x" in let Hs := fresh "Hs" in let Hx := fresh "Hx" in
                         intros s x Hs Hx; destruct_state; cbv beta iota zeta in Hs |- *]
  | |- OutP _ _ (while_loop _ _ _ _) =>
      apply OutP_while; [|let s := fresh "s" in let Hs := fresh "Hs" in let Hc := fresh "Hc" in intros s Hs Hc; destruct_state; cbv beta iota zeta in Hs, Hc |- *]
  | |- OutP _ _ (seqo (while_loop _ _ _ _) _) =>
      apply OutP_seqo; [|let s := fresh "s" in let Hs := fresh "Hs" in intros s Hs; destruct_state; cbv beta iota zeta in Hs |- *]
  | |- OutP _ _ (seqo (seqo _ _) _) => rewrite seqo_assoc
  | |- OutP _ _ (seqo (unloop _) _) =>
      apply OutP_seqo; [|let s := fresh "s" in let Hs := fresh "Hs" in intros s Hs; destruct_state; cbv beta iota zeta in Hs |- *]
  | |- OutP _ _ (seqo (if ?c then _ else _) _) => destruct c eqn:?; sx_red
  | |- OutP _ _ (seqo (bindr ?c _) _) => destruct c eqn:?; sx_red
  | |- OutP _ _ (seqo (match ?x with _ => _ end) _) => destruct x eqn:?; sx_red
  | |- OutP _ _ (seqo _ _) => sx_red
  | |- OutP _ _ (if ?c then _ else _) => destruct c eqn:?; sx_red
  | |- OutP _ _ (bindr ?c _) => destruct c eqn:?; sx_red
  | |- OutP _ _ (Ret _) => cbn [OutP]
  | |- OutP _ _ (Next _) => cbn [OutP]; cbv beta iota
  | |- OutP _ _ (Cont _) => cbn [OutP]; cbv beta iota
  | |- OutP _ _ (Brk _) => cbn [OutP]; cbv beta iota
  | |- OutP _ _ (Raised _) => exact I
  | |- OutP _ _ NonInt => exact I
  | |- OutP _ _ OutOfFuel => exact I
  | |- OutP _ _ RetNone => exact I
  | |- OutP _ _ (match ?x with _ => _ end) => destruct x eqn:?; sx_red
  end.
Ltac sx := cbv beta iota zeta; repeat sx_step.

(* the check every candidate of the V = I case goes through: non-zero, identity on the left block, W on the right *)
Definition chk (k : Z) (W : pstr) (seq : list pstr) : Prop :=
  exists r b ops, seq = b :: ops /\ ncr_from b ops = Some r /\ py_S_left_part_val r k = identity (Z.to_nat k) /\ py_S_right_part_val r k = W.

Lemma chk_intro k W seq res : py_S_nested_commutator_result seq = FRet res ->
  (opt_is_some res && pstr_eqb (py_S_left_part_val (unopt [] res) k) (identity (Z.to_nat k)) && pstr_eqb (py_S_right_part_val (unopt [] res) k) W)%bool = true -> chk k W seq.
Proof.
  intros H C. destruct res as [r|]; [|discriminate]. cbn [opt_is_some unopt andb] in C. apply andb_true_iff in C. destruct C as [C1 C2].
  apply pstr_eqb_true in C1. apply pstr_eqb_true in C2. apply gen_s_ncr in H. destruct H as [b [ops [-> H]]]. exists r, b, ops. auto.
Qed.

Theorem gen_s_case3 k G1 G2 Aext W orc seq : py_S_case3_best_reordering k G1 G2 Aext W orc = FRet (Some seq) -> chk k W seq.
Proof.
  unfold py_S_case3_best_reordering. intros H.
  refine (OutP_finish (fun r => match r with Some s => chk k W s | None => True end) (fun _ => True) _ (Some seq) _ H). clear H.
  sx.
  all: try exact I; try (eapply chk_intro; eassumption).
Qed.

(* ---------- the breadth-first fallback ---------- *)
Section Bfs.
Variables (k : Z) (S_ : list pstr) (W : pstr).
Definition sel (idxs : list Z) : list pstr := map (fun i => list_get [] S_ i) idxs.
Definition PairOK (x : option pstr * list Z) : Prop :=
  match fst x with None => snd x = [] | Some r => exists b ops, sel (snd x) = b :: ops /\ ncr_from b ops = Some r end.
Lemma ncr_from_snoc : forall ops b c a, ncr_from b ops = Some c -> length a = length c -> anti_l a c = true -> ncr_from b (ops ++ [a]) = Some (smul a c).
Proof.
  induction ops as [|x t IH]; intros b c a H L A.
  - cbn in H. injection H as <-. cbn. rewrite L, Nat.eqb_refl, A. reflexivity.
  - cbn [ncr_from app] in *. destruct (Nat.eqb (length x) (length b)); [|discriminate]. destruct (anti_l x b); [|discriminate]. apply IH; assumption.
Qed.
Lemma enumerate_get {A} (d : A) (l : list A) j x : In (j, x) (enumerate l) -> list_get d l j = x.
Proof.
  unfold enumerate. intros H. apply In_nth with (d := (0, d)) in H. destruct H as [n [Hn E]]. rewrite combine_length, map_length, seq_length, Nat.min_id in Hn.
  rewrite combine_nth in E by (rewrite map_length, seq_length; reflexivity). injection E as E1 E2.
  rewrite (nth_indep _ 0 (Z.of_nat 0)) in E1 by (rewrite map_length, seq_length; exact Hn). rewrite map_nth, seq_nth in E1 by exact Hn. subst j.
  unfold list_get, py_index. assert (B : (Z.of_nat (0 + n) <? 0) = false) by lia. rewrite B.
  assert (C : ((0 <=? Z.of_nat (0 + n)) && (Z.of_nat (0 + n) <? Z.of_nat (length l)))%bool = true) by lia. rewrite C.
  replace (Z.to_nat (Z.of_nat (0 + n))) with n by lia. exact E2.
Qed.
Lemma pair_step o8 l11 z5 p nres :
  PairOK (o8, l11) -> In (z5, p) (enumerate S_) ->
  (if negb (opt_is_some o8) then nres = Some p else py_S_ad_apply p (Some (unopt [] o8)) = FRet nres) ->
  negb (opt_is_some nres) = false -> PairOK (Some (unopt [] nres), l11 ++ [z5]).
Proof.
  unfold PairOK. cbn [fst snd]. intros HP Hin Hn Hs. destruct nres as [r|]; [|discriminate]. cbn [unopt].
  unfold sel. rewrite map_app. cbn [map]. rewrite (enumerate_get [] S_ z5 p Hin).
  destruct o8 as [c|]; cbn [opt_is_some negb unopt] in Hn.
  - destruct HP as [b [ops [E H]]]. apply ad_apply_ret in Hn. destruct Hn as [Hr L]. destruct (anti_l p c) eqn:A; [|discriminate]. injection Hr as ->.
    exists b, (ops ++ [p]). fold (sel l11). rewrite E. split; [reflexivity|]. apply ncr_from_snoc; assumption.
  - injection Hn as Hn. subst r. rewrite HP. exists p, []. split; reflexivity.
Qed.
Lemma chk_from_pair r idxs : PairOK (Some r, idxs) ->
  (pstr_eqb (py_S_left_part_val r k) (identity (Z.to_nat k)) && pstr_eqb (py_S_right_part_val r k) W)%bool = true -> chk k W (sel idxs).
Proof.
  unfold PairOK. cbn [fst snd]. intros [b [ops [E H]]] C. apply andb_true_iff in C. destruct C as [C1 C2]. apply pstr_eqb_true in C1. apply pstr_eqb_true in C2.
  exists r, b, ops. auto.
Qed.
End Bfs.

Ltac pair_from_in := repeat match goal with Hx : In ?x ?l, HF : Forall (PairOK ?U) ?l |- _ =>
    lazymatch goal with H : PairOK U x |- _ => fail | _ => pose proof (proj1 (Forall_forall _ _) HF _ Hx) end end.
Ltac inv_leaf :=
  repeat match goal with H : _ /\ _ |- _ => destruct H end; pair_from_in;
  repeat match goal with |- _ /\ _ => split end;
  try assumption; try (constructor; fail);
  try match goal with Hx : In ?x ?l, HF : Forall _ ?l |- PairOK _ ?x => exact (proj1 (Forall_forall _ _) HF _ Hx) end;
  try (apply Forall_app; split; [assumption|constructor; [|constructor]]);
  try match goal with
      | |- PairOK _ (Some (unopt [] _), _ ++ [_]) =>
          eapply pair_step; [eassumption|eassumption| |assumption];
          match goal with H : negb (opt_is_some _) = _ |- _ => rewrite H end; first [reflexivity|eassumption]
      end.

Theorem gen_s_bfs k N W dc nc seq : py_S_bfs_case3 k N W dc nc = FRet (Some seq) -> chk k W seq.
Proof.
  unfold py_S_bfs_case3. intros H.
  destruct (universal (Z.to_nat N) (Z.to_nat k)) as [U|] eqn:EU; cbn [res_ok res_val] in H; [|discriminate].
  refine (OutP_finish (fun r => match r with Some s => chk k W s | None => True end)
    (fun '(fr, vis, nodes, nf, nres) => Forall (PairOK U) fr /\ Forall (PairOK U) nf) _ (Some seq) _ H). clear H.
  sx.
  all: try exact I.
  all: try (inv_leaf; fail).
  all: try (repeat match goal with H : _ /\ _ |- _ => destruct H end; pair_from_in;
            match goal with |- chk _ _ (map _ (?l ++ [?z])) => change (chk k W (sel U (l ++ [z]))) end;
            eapply chk_from_pair; [|eassumption];
            eapply pair_step; [eassumption|eassumption| |assumption];
            match goal with H : negb (opt_is_some _) = _ |- _ => rewrite H end; first [reflexivity|eassumption]).
  - split; [constructor; [reflexivity|constructor]|constructor].
Qed.


(* ---------- compile ---------- *)
Definition good (target : pstr) (s : list pstr) : Prop := nested_eval s = Some target /\ s <> [] /\ all_len (length target) s.

(* every string of an accepted sequence has the length of the result *)
Lemma ncr_from_len : forall ops b r, ncr_from b ops = Some r -> length r = length b /\ forall a, In a ops -> length a = length b.
Proof.
  induction ops as [|x t IH]; intros b r H.
  - cbn in H. injection H as <-. split; [reflexivity|intros a []].
  - cbn [ncr_from] in H. destruct (Nat.eqb_spec (length x) (length b)) as [L|]; [|discriminate]. destruct (anti_l x b); [|discriminate].
    apply IH in H. destruct H as [H1 H2]. rewrite smul_length in H1, H2 by exact L. split; [congruence|].
    intros a [<-|Ha]; [exact L|]. rewrite (H2 a Ha). exact L.
Qed.

Lemma ncr_from_good b ops r s : ncr_from b ops = Some r -> py_S_sequence_to_paulie_orientation (b :: ops) = FRet s -> good r s.
Proof.
  intros H1 H2. rewrite gen_s_orient in H2. injection H2 as <-. split; [|split].
  - apply (ncr_from_eval ops [b] b r); [discriminate|reflexivity|exact H1].
  - intros F. apply app_eq_nil in F. destruct F; discriminate.
  - apply ncr_from_len in H1. destruct H1 as [L1 L2]. intros a Ha. apply in_app_or in Ha. destruct Ha as [Ha|[<-|[]]].
    + apply in_rev in Ha. rewrite L1. apply L2. exact Ha.
    + symmetry. exact L1.
Qed.

(* a candidate that passed `res is not None and left == V and right == W` *)
Lemma leaf_checked k V W G res s : py_S_nested_commutator_result G = FRet res ->
  (opt_is_some res && pstr_eqb (py_S_left_part_val (unopt [] res) k) V && pstr_eqb (py_S_right_part_val (unopt [] res) k) W)%bool = true ->
  py_S_sequence_to_paulie_orientation G = FRet s -> good (V ++ W) s.
Proof.
  intros H C HO. destruct res as [r|]; [|discriminate]. cbn [opt_is_some unopt andb] in C. apply andb_true_iff in C. destruct C as [C1 C2].
  apply pstr_eqb_true in C1. apply pstr_eqb_true in C2. apply gen_s_ncr in H. destruct H as [b [ops [-> H]]].
  rewrite <- (split_at k r V W C1 C2). eapply ncr_from_good; eassumption.
Qed.

Lemma identity_of V k : negb (is_identity V) = false -> Z.of_nat (length V) = k -> V = identity (Z.to_nat k).
Proof. intros H L. apply negb_false_iff in H. apply is_identity_iff in H. rewrite H at 1. f_equal. lia. Qed.

(* ... `res is not None and left.is_identity() and right == W`, in the V = I case (W is not the identity there, hence not empty,
   which is what pins the length of the left part: is_identity() alone does not) *)
Lemma leaf_checked_id k nr V W G res s : py_S_nested_commutator_result G = FRet res ->
  (opt_is_some res && is_identity (py_S_left_part_val (unopt [] res) k) && pstr_eqb (py_S_right_part_val (unopt [] res) k) W)%bool = true ->
  py_S_sequence_to_paulie_orientation G = FRet s -> is_identity W = false ->
  negb (is_identity V) = false -> (Z.eqb (Z.of_nat (length V)) k && Z.eqb (Z.of_nat (length W)) nr)%bool = true -> good (V ++ W) s.
Proof.
  intros H C HO HW HV HA. destruct res as [r|]; [|discriminate]. cbn [opt_is_some unopt andb] in C. apply andb_true_iff in C. destruct C as [C1 C2].
  apply pstr_eqb_true in C2. apply gen_s_ncr in H. destruct H as [b [ops [-> H]]].
  assert (L : Z.of_nat (length V) = k) by lia.
  assert (E : py_S_left_part_val r k = V).
  { rewrite (identity_of V k HV L). apply is_identity_iff in C1. rewrite C1. f_equal. unfold py_S_left_part_val. change (Z.to_nat 0) with O. cbn [skipn].
    assert (NW : W <> []) by (intros ->; discriminate).
    unfold py_S_right_part_val in C2. assert (LW : (1 <= length (skipn (Z.to_nat k) r))%nat).
    { destruct (skipn (Z.to_nat k) r) eqn:ES; [rewrite firstn_nil in C2; congruence|cbn; lia]. }
    rewrite skipn_length in LW. rewrite firstn_length. lia. }
  rewrite <- (split_at k r V W E C2). eapply ncr_from_good; eassumption.
Qed.

(* a sequence accepted by _case3_best_reordering or _bfs_case3 (left block identity, right block W), when V is the identity *)
Lemma chk_good k nr V W (r : option (list pstr)) s : (forall seq0, r = Some seq0 -> chk k W seq0) -> opt_is_some r = true ->
  py_S_sequence_to_paulie_orientation (unopt [] r) = FRet s ->
  negb (is_identity V) = false -> (Z.eqb (Z.of_nat (length V)) k && Z.eqb (Z.of_nat (length W)) nr)%bool = true -> good (V ++ W) s.
Proof.
  intros Hc Hr HO HV HA. destruct r as [seq0|]; [|discriminate]. cbn [unopt] in HO. destruct (Hc seq0 eq_refl) as [r [b [ops [-> [H [E1 E2]]]]]].
  assert (L : Z.of_nat (length V) = k) by lia. rewrite <- (identity_of V k HV L) in E1.
  rewrite <- (split_at k r V W E1 E2). eapply ncr_from_good; eassumption.
Qed.

Theorem gen_s_compile fuel k nr fd fn N V W orc seq : py_S_compile fuel k nr fd fn N V W orc = FRet seq -> good (V ++ W) seq.
Proof.
  unfold py_S_compile. intros H.
  refine (OutP_finish (good (V ++ W)) (fun _ => True) _ seq _ H). clear H.
  sx.
  all: try exact I.
  all: try (eapply leaf_checked; eassumption).
  all: try (eapply leaf_checked_id; eassumption).
  all: match goal with H : py_S_sequence_to_paulie_orientation (unopt [] ?r) = FRet ?s |- good _ ?s =>
         eapply (chk_good k nr V W r s); [|eassumption|eassumption|eassumption|eassumption]; intros ? ->;
         first [eapply gen_s_case3; eassumption|eapply gen_s_bfs; eassumption] end.
Qed.

(* compile_target(target, k): whatever it returns evaluates to the target *)
Theorem gen_s_compile_target fuel target k orc seq : py_S_compile_target fuel target k orc = FRet seq -> good target seq.
Proof.
  unfold py_S_compile_target. intros H.
  refine (OutP_finish (good target) (fun _ => True) _ seq _ H). clear H.
  sx.
  all: try exact I.
  apply gen_s_compile in Heqf. rewrite <- (split_at k target _ _ eq_refl eq_refl) in Heqf. exact Heqf.
Qed.

(* ---------- which strings a returned sequence is made of ---------- *)
Lemma opt_some_unopt {A} (d : A) (o : option A) : opt_is_some o = true -> o = Some (unopt d o).
Proof. destruct o; [reflexivity|discriminate]. Qed.
Lemma kdict_get_in {K A} (eqb : K -> K -> bool) (d : list (K * A)) k v : kdict_get eqb d k = Some v -> exists k', In (k', v) d.
Proof. induction d as [|[k0 v0] t IH]; cbn; [discriminate|]. destruct (eqb k0 k); [intros E; injection E as <-; eauto|intros E; destruct (IH E) as [k' H]; eauto]. Qed.
Lemma kdict_set_in {K A} (eqb : K -> K -> bool) (d : list (K * A)) k v k' v' : In (k', v') (kdict_set eqb d k v) -> v' = v \/ In (k', v') d.
Proof.
  induction d as [|[k0 v0] t IH]; cbn.
  - intros [E|[]]. injection E as _ <-. left. reflexivity.
  - destruct (eqb k0 k); cbn; intros [E|H].
    + injection E as _ <-. left. reflexivity.
    + right. right. exact H.
    + right. left. exact E.
    + destruct (IH H) as [->|H']; [left; reflexivity|right; right; exact H'].
Qed.

(* left_map_over_a(V_from, V_to, A): whatever it returns (at any fuel) is a list of members of A *)
Theorem gen_s_left_map_members fuel Vf Vt A seq : py_S_left_map_over_a fuel Vf Vt A = FRet seq -> forall a, In a seq -> In a A.
Proof.
  unfold py_S_left_map_over_a. intros H.
  refine (OutP_finish (fun r => forall a, In a r -> In a A)
    (fun '(q, parent, seen, cur_k, sq) => (forall kk v, In (kk, v) parent -> In (snd v) A) /\ (forall a, In a sq -> In a A)) _ seq _ H). clear H.
  sx.
  all: try exact I.
  all: repeat match goal with H : _ /\ _ |- _ => destruct H end.
  all: try (intros ? []; fail).
  all: try (split; [first [assumption|intros ? ? []]|first [assumption|intros ? []]]; fail).
  all: try (intros a Ha; apply in_rev in Ha; auto; fail).
  - (* the inner while: one more step along the parent pointers *)
    split; [assumption|]. intros a Ha. apply in_app_or in Ha. destruct Ha as [Ha|[<-|[]]]; [auto|].
    match goal with H : opt_is_some (kdict_get pstr_eqb ?d ?k) = true, E : unopt ?dd (kdict_get pstr_eqb ?d ?k) = _ |- _ =>
      pose proof (opt_some_unopt dd _ H) as EK; rewrite E in EK; apply kdict_get_in in EK; destruct EK as [k' EK] end.
    match goal with HP : forall kk v, In (kk, v) _ -> In (snd v) A |- _ => exact (HP _ _ EK) end.
  - (* a new entry of the parent dictionary stores a member of A *)
    split; [|assumption]. intros kk v Hin. apply kdict_set_in in Hin. destruct Hin as [->|Hin]; [cbn [snd]; assumption|eauto].
Qed.

Definition ext_left (nr : Z) (A : list pstr) : list pstr := map (fun a => a ++ identity (Z.to_nat nr)) A.

(* compile(V, I..I): every string of the returned sequence is a left generator extended by identities *)
Theorem gen_s_compile_left_members fuel k nr fd fn N V W orc seq : py_S_compile fuel k nr fd fn N V W orc = FRet seq -> is_identity W = true ->
  forall a, In a seq -> In a (ext_left nr (left_a_minimal (Z.to_nat k))).
Proof.
  unfold py_S_compile. intros H HW.
  refine (OutP_finish (fun r => forall a, In a r -> In a (ext_left nr (left_a_minimal (Z.to_nat k)))) (fun _ => True) _ seq _ H). clear H.
  sx.
  all: try exact I.
  all: try congruence.
  all: match goal with HO : py_S_sequence_to_paulie_orientation _ = FRet ?r |- forall a, In a ?r -> _ => rewrite gen_s_orient in HO; cbn [app] in HO; injection HO as <- end.
  all: intros a Ha; apply in_app_or in Ha; destruct Ha as [Ha|[<-|[]]].
  all: try (apply in_rev in Ha; apply in_map_iff in Ha; destruct Ha as [b [<- Hb]]; apply in_map_iff; exists b; split; [reflexivity|eapply gen_s_left_map_members; eassumption]).
  all: apply in_map_iff; eexists; split; [reflexivity|assumption].
Qed.

(* _bfs_case3: every string of the returned sequence is a member of the universal set construct_universal_set(n_total, k) *)
Theorem gen_s_bfs_members k N W dc nc seq U : py_S_bfs_case3 k N W dc nc = FRet (Some seq) -> universal (Z.to_nat N) (Z.to_nat k) = Ok U ->
  forall a, In a seq -> In a U.
Proof.
  unfold py_S_bfs_case3. intros H EU. rewrite EU in H. cbn [res_ok res_val] in H.
  refine (OutP_finish (fun r => match r with Some s => forall a, In a s -> In a U | None => True end) (fun _ => True) _ (Some seq) _ H). clear H.
  sx.
  all: try exact I.
  all: intros a Ha; apply in_map_iff in Ha; destruct Ha as [i [<- Hi]];
    match goal with H : forallb _ _ = true |- _ => rewrite forallb_forall in H; specialize (H i Hi); unfold idx_ok in H;
      destruct (py_index (length U) i) as [j|] eqn:EJ; [|discriminate H] end;
    unfold list_get; unfold pstr in *; rewrite EJ; apply nth_In; unfold py_index in EJ;
    destruct ((0 <=? (if i <? 0 then i + Z.of_nat (length U) else i)) && ((if i <? 0 then i + Z.of_nat (length U) else i) <? Z.of_nat (length U)))%bool eqn:B; [|discriminate];
    injection EJ as <-; lia.
Qed.

(* ---------- C05 read on the source ---------- *)
(* whatever compile_target(target, k) returns — for every target, every k, and whatever the untranslated helpers do — is a non-empty sequence
   whose string-level evaluation in the documented orientation is the target ... *)
Theorem gen_s_c05_evaluates fuel target k orc seq : py_S_compile_target fuel target k orc = FRet seq -> seq <> [] /\ nested_eval seq = Some target.
Proof. intros H. apply gen_s_compile_target in H. destruct H as [H1 [H2 _]]. split; assumption. Qed.

(* ... and whose nested MATRIX commutator ad_{M s_0}( ... ad_{M s_{m-1}}(M s_m)) is a non-zero multiple of M(target): the clause of C05
   "non-zero and proportional to the target", for every N (Theory/CompilerT.nested_eval_matrix) *)
Theorem gen_s_c05_matrix fuel target k orc seq : py_S_compile_target fuel target k orc = FRet seq ->
  exists c, gnorm c <> 0%Z /\ meq (length target) (nested_comm (length target) seq) (mscale c (M target)).
Proof.
  intros H. apply gen_s_compile_target in H. destruct H as [H1 [H2 H3]].
  pose proof (nested_eval_matrix (length target) seq H2 H3) as T. rewrite H1 in T. exact T.
Qed.

(* ... and for a target that is the identity on the right block (the branch served by the left map alone) ALL THREE clauses of C05 hold:
   the validator of Model/Compiler.v accepts what compile_target returns — non-empty, every element in the universal set, evaluates to the target *)
Theorem gen_s_c05_left_only fuel target k orc seq : py_S_compile_target fuel target k orc = FRet seq ->
  is_identity (skipn (Z.to_nat k) target) = true -> compile_ok (length target) (Z.to_nat k) target seq = true.
Proof.
  intros H HW. pose proof (gen_s_compile_target _ _ _ _ _ H) as [E [NE _]].
  revert H. unfold py_S_compile_target. intros H.
  refine (OutP_finish (fun r => r = seq -> compile_ok (length target) (Z.to_nat k) target seq = true) (fun _ => True) _ seq _ H eq_refl). clear H.
  sx.
  all: try exact I.
  intros ->.
  match goal with H : py_S_compile _ _ ?nr _ _ _ _ ?Wt _ = FRet _ |- _ =>
    assert (EW : Wt = skipn (Z.to_nat k) target) by (apply firstn_all2; rewrite skipn_length; lia);
    rewrite EW in H; pose proof (gen_s_compile_left_members _ _ _ _ _ _ _ _ _ _ H HW) as M end.
  unfold compile_ok, universal.
  assert (G : (Nat.leb 1 (Z.to_nat k) && Nat.ltb (Z.to_nat k) (length target))%bool = true) by lia. rewrite G.
  destruct seq as [|s0 seq']; [congruence|]. rewrite E, pstr_eqb_refl, andb_true_r.
  apply forallb_forall. intros a Ha. specialize (M a Ha). unfold memU. apply existsb_exists. exists a. split; [|apply pstr_eqb_refl].
  apply in_or_app. left. unfold ext_left in M. replace (length target - Z.to_nat k)%nat with (Z.to_nat (Z.of_nat (length target) - k)) by lia. exact M.
Qed.

(* non-vacuity: the translated compiler runs.  XII with k = 2: the left map is empty; YII: one step found by the translated breadth-first
   left map; a left-only target outside the reach of the left generators for k = 3 (IXX: even weight): RuntimeError; too little fuel *)
Example gen_search_runs :
  py_S_compile_target 100 [PX;PI;PI] 2 [OSub []] = FRet [[PX;PI;PI]] /\
  py_S_compile_target 100 [PY;PI;PI] 2 [OSub []] = FRet [[PZ;PI;PI]; [PX;PI;PI]] /\
  py_S_compile_target 100 [PI;PX;PX;PI] 3 [OSub []] = FRaised (EUser "RuntimeError") /\
  py_S_compile_target 1 [PZ;PY;PI] 2 [OSub []] = FOutOfFuel /\
  py_S_compile_target 100 [PY;PI;PI] 1 [] = FRaised (EUser "ValueError") /\
  py_S_nested_commutator_result [[PX;PI;PI]; [PZ;PI;PI]] = FRet (Some [PY;PI;PI]) /\
  py_S_nested_commutator_result [[PX;PI;PI]; [PX;PI;PI]] = FRet None /\
  py_S_nested_commutator_result [[PX;PI;PI]; [PX;PI]] = FRaised (EUser "ValueError").
Proof. repeat split; vm_compute; reflexivity. Qed.

(* the breadth-first fallback finds IIY from the universal set (3, 2) at depth 2, and gives up within its node budget *)
Example gen_bfs_runs : exists s, py_S_bfs_case3 2 3 [PY] 8 200000 = FRet (Some s) /\ nested_eval (rev (tl s) ++ [hd [] s]) = Some [PI;PI;PY] /\
  py_S_bfs_case3 2 3 [PY] 8 3 = FRet None.
Proof. eexists. split; [vm_compute; reflexivity|]. split; vm_compute; reflexivity. Qed.

(* ---------- total correctness: the same logic, with OutOfFuel excluded ---------- *)
Section OutT.
Context {S R : Type} (P : R -> Prop).
Definition OutT (I : S -> Prop) (o : outcome S R) : Prop :=
  match o with Ret r => P r | Next s | Cont s | Brk s => I s | OutOfFuel => False | _ => True end.
Lemma OutT_seqo (J I : S -> Prop) o k : OutT J o -> (forall s, J s -> I s) -> (forall s, J s -> OutT I (k s)) -> OutT I (seqo o k).
Proof. destruct o; cbn; intros; try contradiction; auto. Qed.
Lemma OutT_uncont I o : OutT I o -> OutT I (uncont o).
Proof. destruct o; cbn; intros; try contradiction; auto. Qed.
Lemma OutT_unloop I o : OutT I o -> OutT I (unloop o).
Proof. destruct o; cbn; intros; try contradiction; auto. Qed.
Lemma OutT_weaken (I J : S -> Prop) o : (forall s, I s -> J s) -> OutT I o -> OutT J o.
Proof. intros H. destruct o; cbn; intros; try contradiction; auto. Qed.
Lemma OutT_fold {A} I (body : S -> A -> outcome S R) l : forall o0, OutT I o0 ->
  (forall s x, I s -> In x l -> OutT I (body s x)) ->
  OutT I (fold_left (fun o x => seqo o (fun s => body s x)) l o0).
Proof.
  induction l as [|x l IH]; intros o0 H0 Hb; [exact H0|]. cbn [fold_left]. apply IH.
  - apply (OutT_seqo I); [exact H0|auto|]. intros s Hs. apply Hb; [exact Hs|left; reflexivity].
  - intros s y Hs Hy. apply Hb; [exact Hs|right; exact Hy].
Qed.
(* while on fuel: an invariant and a measure that every iteration decreases; the fuel exceeds the measure *)
Lemma OutT_while (I : S -> Prop) (m : S -> nat) cond body : forall fuel s0, I s0 -> (m s0 < fuel)%nat ->
  (forall s, I s -> cond s = true -> OutT (fun s' => I s' /\ (m s' < m s)%nat) (body s)) -> OutT I (while_loop fuel cond body s0).
Proof.
  induction fuel as [|f IH]; intros s0 H0 Hm Hb; [lia|]. cbn [while_loop]. destruct (cond s0) eqn:C; [|exact H0].
  pose proof (Hb s0 H0 C) as Hs. destruct (body s0); cbn [uncont] in *; cbn [OutT] in Hs; try exact Hs; try exact Logic.I.
  - destruct Hs. apply IH; [assumption|lia|exact Hb].
  - destruct Hs. apply IH; [assumption|lia|exact Hb].
  - destruct Hs. assumption.
Qed.
Lemma OutT_finish I o : OutT I o -> finish o <> FOutOfFuel.
Proof. destruct o; cbn; intros H; try discriminate. contradiction. Qed.
End OutT.

(* position of the first occurrence *)
Fixpoint pos (x : pstr) (l : list pstr) : nat := match l with [] => O | y :: t => if pstr_eqb x y then O else S (pos x t) end.
Lemma pos_lt x l : In x l -> (pos x l < length l)%nat.
Proof. induction l as [|y t IH]; [intros []|]. cbn. destruct (pstr_eqb x y) eqn:E; [lia|]. intros [->|H]; [rewrite pstr_eqb_refl in E; discriminate|]. specialize (IH H). lia. Qed.
Lemma pos_app_in x l y : In x l -> pos x (l ++ [y]) = pos x l.
Proof. induction l as [|z t IH]; [intros []|]. cbn. destruct (pstr_eqb x z) eqn:E; [reflexivity|]. intros [->|H]; [rewrite pstr_eqb_refl in E; discriminate|]. rewrite IH by exact H. reflexivity. Qed.
Lemma pos_app_new x l : ~ In x l -> pos x (l ++ [x]) = length l.
Proof. induction l as [|z t IH]; cbn; [rewrite pstr_eqb_refl; reflexivity|]. intros H. destruct (pstr_eqb x z) eqn:E; [apply pstr_eqb_true in E; subst; exfalso; apply H; left; reflexivity|]. rewrite IH by (intros F; apply H; right; exact F). reflexivity. Qed.
Lemma mem_b_in x l : mem_b pstr_eqb x l = true <-> In x l.
Proof. unfold mem_b. rewrite existsb_exists. split; [intros [y [H E]]; apply pstr_eqb_true in E; subst; exact H|intros H; exists x; split; [exact H|apply pstr_eqb_refl]]. Qed.
Lemma mem_b_notin x l : mem_b pstr_eqb x l = false <-> ~ In x l.
Proof. rewrite <- mem_b_in. destruct (mem_b pstr_eqb x l); split; congruence. Qed.

Lemma kdict_set_in' {A} (d : list (pstr * A)) k v k' v' : In (k', v') (kdict_set pstr_eqb d k v) -> (v' = v /\ k' = k) \/ In (k', v') d.
Proof.
  induction d as [|[k0 v0] t IH]; cbn.
  - intros [E|[]]. injection E as <- <-. left. split; reflexivity.
  - destruct (pstr_eqb k0 k) eqn:E0; cbn; intros [E|H].
    + injection E as <- <-. apply pstr_eqb_true in E0. left. split; [reflexivity|exact E0].
    + right. right. exact H.
    + right. left. exact E.
    + destruct (IH H) as [[-> ->]|H']; [left; split; reflexivity|right; right; exact H'].
Qed.

Definition ParentOK (seen : list pstr) (parent : list (pstr * (pstr * pstr * pstr))) : Prop :=
  forall key v, In (key, v) parent -> In key seen /\ In (fst (fst v)) seen /\ (pos (fst (fst v)) seen < pos key seen)%nat.

Ltac sxt_red := cbn [seqo bindr uncont unloop]; cbv beta iota zeta.
Ltac sxt_step :=
  lazymatch goal with
  | |- OutT _ _ (uncont _) => apply OutT_uncont
  | |- OutT _ _ (unloop _) => apply OutT_unloop
  | |- OutT _ _ (seqo (seqo _ _) _) => rewrite seqo_assoc
  | |- OutT _ _ (seqo (unloop _) _) => fail
  | |- OutT _ _ (seqo (while_loop _ _ _ _) _) => fail
  | |- OutT _ _ (seqo (if ?c then _ else _) _) => destruct c eqn:?; sxt_red
  | |- OutT _ _ (seqo (bindr ?c _) _) => destruct c eqn:?; sxt_red
  | |- OutT _ _ (seqo (match ?x with _ => _ end) _) => destruct x eqn:?; sxt_red
  | |- OutT _ _ (seqo _ _) => sxt_red
  | |- OutT _ _ (if ?c then _ else _) => destruct c eqn:?; sxt_red
  | |- OutT _ _ (bindr ?c _) => destruct c eqn:?; sxt_red
  | |- OutT _ _ (Ret _) => cbn [OutT]
  | |- OutT _ _ (Next _) => cbn [OutT]; cbv beta iota
  | |- OutT _ _ (Cont _) => cbn [OutT]; cbv beta iota
  | |- OutT _ _ (Brk _) => cbn [OutT]; cbv beta iota
  | |- OutT _ _ (Raised _) => exact I
  | |- OutT _ _ NonInt => exact I
  | |- OutT _ _ RetNone => exact I
  | |- OutT _ _ (fold_left _ _ _) => fail
  | |- OutT _ _ (while_loop _ _ _ _) => fail
  | |- OutT _ _ (match ?x with _ => _ end) => destruct x eqn:?; sxt_red
  end.
Ltac sxt := cbv beta iota zeta; repeat sxt_step.

Definition Iout (n : nat) (s : list pstr * list (pstr * (pstr * pstr * pstr)) * list pstr * pstr * list pstr) : Prop :=
  let '(q, parent, seen, cur_k, sq) := s in
  OtocLoopT.all_len n q /\ (forall x, In x q -> In x seen) /\ OtocLoopT.all_len n seen /\ NoDup seen /\ ParentOK seen parent.
Definition mout (n : nat) (s : list pstr * list (pstr * (pstr * pstr * pstr)) * list pstr * pstr * list pstr) : nat :=
  let '(q, parent, seen, cur_k, sq) := s in (length q + 2 * (Nat.pow 4 n - length seen))%nat.

Lemma key_val p : py_S_key_val p = p. Proof. reflexivity. Qed.
Lemma kdict_get_in' {A} (d : list (pstr * A)) k v : kdict_get pstr_eqb d k = Some v -> In (k, v) d.
Proof. induction d as [|[k0 v0] t IH]; cbn; [discriminate|]. destruct (pstr_eqb k0 k) eqn:E; [intros H; injection H as <-; apply pstr_eqb_true in E; subst; left; reflexivity|intros H; right; exact (IH H)]. Qed.
Lemma while_not_cont {S R} fuel c (b : S -> outcome S R) : forall s s', while_loop fuel c b s <> Cont s' /\ while_loop fuel c b s <> Brk s'.
Proof.
  induction fuel as [|f IH]; intros s s'; cbn [while_loop]; [split; discriminate|]. destruct (c s); [|split; discriminate].
  destruct (b s); cbn [uncont]; try (split; discriminate); apply IH.
Qed.
Lemma OutT_seqo_while {S R} (P : R -> Prop) (J I : S -> Prop) fuel c b s0 k :
  OutT P J (while_loop fuel c b s0) -> (forall s, J s -> OutT P I (k s)) -> OutT P I (seqo (while_loop fuel c b s0) k).
Proof.
  intros H Hk. pose proof (while_not_cont fuel c b s0) as N. destruct (while_loop fuel c b s0) eqn:E; cbn in *; try contradiction; auto.
  - exfalso. apply (proj1 (N s)). reflexivity.
  - exfalso. apply (proj2 (N s)). reflexivity.
Qed.
Lemma mul_ok_len a c : py_S_multiply_ok a c = true -> length a = length c /\ py_S_multiply_val a c = smul a c.
Proof.
  unfold py_S_multiply_ok, py_S_multiply_val. destruct (Nat.eq_dec (length a) (length c)) as [L|L].
  - rewrite (multiply_code_ok a c L). cbn. auto.
  - unfold multiply_code. rewrite !bits_length. destruct (Nat.eqb_spec (2 * length a) (2 * length c)); [lia|]. cbn. discriminate.
Qed.
Lemma NoDup_snoc (l : list pstr) x : NoDup l -> ~ In x l -> NoDup (l ++ [x]).
Proof. intros H N. apply NoDup_rev in H. rewrite <- (rev_involutive (l ++ [x])). apply NoDup_rev. rewrite rev_app_distr. cbn. constructor; [rewrite <- in_rev; exact N|exact H]. Qed.

Theorem gen_s_left_map_terminates fuel n Vf Vt A : length Vf = n -> (2 * Nat.pow 4 n < fuel)%nat -> py_S_left_map_over_a fuel Vf Vt A <> FOutOfFuel.
Proof.
  intros Ln Hf. unfold py_S_left_map_over_a. assert (P4 : (1 <= Nat.pow 4 n)%nat) by (pose proof (Nat.pow_nonzero 4 n); lia).
  apply (OutT_finish (fun _ => True) (fun _ => True)).
  sxt.
  - exact I.
  - rewrite !key_val.
    apply (OutT_seqo_while _ (Iout n)); [|intros s _; destruct_state; exact I].
    apply (OutT_while _ (Iout n) (mout n)).
    + (* initially: the queue and the seen set hold the start string *)
      cbn. split; [|split; [|split; [|split]]].
      * intros g [<-|[]]. exact Ln.
      * intros x Hx. exact Hx.
      * intros g [<-|[]]. exact Ln.
      * constructor; [intros []|constructor].
      * intros ? ? [].
    + cbn. lia.
    + intros s Hs Hc. destruct s as [[[[q parent] seen] cur_k] sq]. cbv beta iota zeta in Hc |- *. destruct q as [|cur q']; [exact I|].
      destruct Hs as [Hq [Hqs [Hsl [Hnd Hp]]]].
      assert (Hcur : In cur seen) by (apply Hqs; left; reflexivity).
      assert (Lcur : length cur = n) by (apply Hq; left; reflexivity).
      assert (Bnd : (length seen <= Nat.pow 4 n)%nat) by (apply OtocLoopT.visited_bound; assumption).
      rewrite !key_val. destruct (pstr_eqb cur Vt) eqn:EG; sxt_red.
      * (* the goal was popped: walk back along the parent pointers; the position in `seen` decreases *)
        rewrite seqo_assoc.
        apply (OutT_seqo_while _ (fun '(q0, parent0, seen0, ck, sq0) => parent0 = parent /\ seen0 = seen /\ In ck seen)); [|intros s _; destruct_state; sxt_red; exact I].
        apply (OutT_while _ (fun '(q0, parent0, seen0, ck, sq0) => parent0 = parent /\ seen0 = seen /\ In ck seen) (fun '(q0, parent0, seen0, ck, sq0) => pos ck seen)).
        -- auto.
        -- pose proof (pos_lt cur seen Hcur). lia.
        -- intros s Hs2 Hc2. destruct_state. cbv beta iota zeta in Hs2, Hc2 |- *. destruct Hs2 as [-> [-> Hck]].
           sxt; try exact I.
           match goal with H : opt_is_some (kdict_get pstr_eqb parent ?k) = true, E : unopt ?dd (kdict_get pstr_eqb parent ?k) = _ |- _ =>
             pose proof (opt_some_unopt dd _ H) as EK; rewrite E in EK; apply kdict_get_in' in EK end.
           destruct (Hp _ _ EK) as [H1 [H2 H3]]. cbn [fst] in H2, H3. auto.
      * (* otherwise: its neighbours; the potential |q| + 2 (4^n - |seen|) does not grow, and the pop has paid one *)
        set (J := fun s : list pstr * list (pstr * (pstr * pstr * pstr)) * list pstr * pstr * list pstr =>
                    Iout n s /\ (let '(q0, parent0, seen0, ck, sq0) := s in In cur seen0 /\ ck = cur) /\ (mout n s <= mout n (q', parent, seen, cur, sq))%nat).
        assert (JP : forall s, J s -> Iout n s /\ (mout n s < mout n (cur :: q', parent, seen, cur_k, sq))%nat).
        { intros s [H1 [_ H3]]. split; [exact H1|]. cbn [mout length] in *. lia. }
        apply (OutT_seqo _ J); [|exact JP|intros s Hs; destruct_state; cbn [OutT]; exact (JP _ Hs)].
        apply OutT_unloop. apply OutT_fold.
        -- cbn [OutT]. split; [|split; [split; [exact Hcur|reflexivity]|apply le_n]].
           split; [intros g Hg; apply Hq; right; exact Hg|]. split; [intros x Hx; apply Hqs; right; exact Hx|]. split; [exact Hsl|split; [exact Hnd|exact Hp]].
        -- intros s a Hs Ha. destruct s as [[[[q1 parent1] seen1] ck1] sq1]. cbv beta iota zeta.
           destruct Hs as [[Hq1 [Hqs1 [Hsl1 [Hnd1 Hp1]]]] [[Hc1 ->] Hm1]].
           apply OutT_uncont. sxt; try exact I; try (split; [split; [assumption|split; [assumption|split; [assumption|split; assumption]]]|split; [split; [assumption|reflexivity]|assumption]]; fail).
           (* a new string: queued, recorded as seen, its parent stored *)
           match goal with H : py_S_multiply_ok a cur = true |- _ => destruct (mul_ok_len a cur H) as [La Ev] end. rewrite !key_val, Ev in *.
           match goal with H : mem_b pstr_eqb (smul a cur) seen1 = false |- _ => apply mem_b_notin in H; rename H into Hnew end.
           assert (Lnk : length (smul a cur) = n) by (rewrite smul_length; congruence).
           assert (ES : set_add_b pstr_eqb (smul a cur) seen1 = seen1 ++ [smul a cur]).
           { unfold set_add_b. destruct (mem_b pstr_eqb (smul a cur) seen1) eqn:E; [apply mem_b_in in E; contradiction|reflexivity]. }
           rewrite ES.
           assert (Hsl2 : OtocLoopT.all_len n (seen1 ++ [smul a cur])) by (intros g Hg; apply in_app_or in Hg; destruct Hg as [Hg|[<-|[]]]; [apply Hsl1; exact Hg|exact Lnk]).
           assert (Hnd2 : NoDup (seen1 ++ [smul a cur])) by (apply NoDup_snoc; assumption).
           pose proof (OtocLoopT.visited_bound n _ Hsl2 Hnd2) as B2. rewrite app_length in B2. cbn [length] in B2.
           split; [|split].
           ++ split; [|split; [|split; [exact Hsl2|split; [exact Hnd2|]]]].
              ** intros g Hg. apply in_app_or in Hg. destruct Hg as [Hg|[<-|[]]]; [apply Hq1; exact Hg|exact Lnk].
              ** intros x Hx. apply in_app_or in Hx. apply in_or_app. destruct Hx as [Hx|[<-|[]]]; [left; apply Hqs1; exact Hx|right; left; reflexivity].
              ** intros key v Hin. apply kdict_set_in' in Hin. destruct Hin as [[-> ->]|Hin].
                 --- cbn [fst]. split; [apply in_or_app; right; left; reflexivity|]. split; [apply in_or_app; left; exact Hc1|].
                     rewrite pos_app_in by exact Hc1. rewrite pos_app_new by exact Hnew. apply pos_lt. exact Hc1.
                 --- destruct (Hp1 _ _ Hin) as [H1 [H2 H3]]. split; [apply in_or_app; left; exact H1|]. split; [apply in_or_app; left; exact H2|].
                     rewrite !pos_app_in by assumption. exact H3.
           ++ split; [apply in_or_app; left; exact Hc1|reflexivity].
           ++ cbn [mout] in *. rewrite !app_length. cbn [length]. lia.
Qed.

(* ---------- compile_target on a target with identity right block terminates ---------- *)
Lemma ncr_no_fuel G : py_S_nested_commutator_result G <> FOutOfFuel.
Proof.
  unfold py_S_nested_commutator_result. apply (OutT_finish (fun _ => True) (fun _ => True)).
  sxt; try exact I.
  apply (OutT_seqo _ (fun _ => True)); [|auto|intros; exact I].
  apply OutT_unloop. apply OutT_fold; [exact I|]. intros s x _ _. cbv beta iota zeta. apply OutT_uncont.
  unfold py_S_ad_apply. destruct s as [c|]; cbn [opt_is_some negb seqo finish unopt bindr].
  - destruct (py_S_commutes_ok x c); cbn [finish bindr]; [|exact I]. destruct (py_S_commutes_val x c || py_S_multiply_ok x c)%bool; cbn [finish bindr]; [|exact I].
    destruct (py_S_commutes_val x c); cbn; exact I.
  - cbn. exact I.
Qed.

Lemma compile_left_no_fuel fuel k nr fd fn N V W orc : is_identity W = true -> (2 * Nat.pow 4 (Z.to_nat k) < fuel)%nat ->
  py_S_compile fuel k nr fd fn N V W orc <> FOutOfFuel.
Proof.
  intros HW Hf. unfold py_S_compile.
  apply (OutT_finish (fun _ => True) (fun _ => True)).
  sxt; try exact I; try congruence.
  apply (OutT_seqo _ (fun _ => True)); [|auto|intros; exact I].
  apply OutT_unloop. apply OutT_fold; [exact I|]. intros s As _ HAs. destruct_state. cbv beta iota zeta. apply OutT_uncont.
  match goal with |- OutT _ _ (match ?c with _ => _ end) => assert (NF : c <> FOutOfFuel) end.
  { apply (gen_s_left_map_terminates _ (Z.to_nat k)); [apply UniversalT.left_lengths; exact HAs|exact Hf]. }
  match goal with |- OutT _ _ (match ?c with _ => _ end) => destruct c eqn:EL; try congruence; try exact I end.
  - sxt; try exact I; cbn [OutT].
    all: try match goal with H : py_S_nested_commutator_result ?G = FOutOfFuel |- _ => exact (ncr_no_fuel G H) end.
    all: match goal with H : py_S_sequence_to_paulie_orientation ?G = FOutOfFuel |- _ => rewrite gen_s_orient in H; discriminate H end.
  - sxt; exact I.
Qed.

(* C06, the clause "compilation terminates", for targets with identity right block: every loop of compile_target, compile and
   left_map_over_a ends within the fuel 2 * 4^k + 1 (the number of left strings bounds the breadth-first search) *)
Theorem gen_s_left_only_terminates fuel target k sub rest :
  is_identity (skipn (Z.to_nat k) target) = true -> (2 * Nat.pow 4 (Z.to_nat k) < fuel)%nat -> py_S_compile_target fuel target k (OSub sub :: rest) <> FOutOfFuel.
Proof.
  intros HW Hf. unfold py_S_compile_target.
  apply (OutT_finish (fun _ => True) (fun _ => True)).
  sxt; try exact I.
  cbn [OutT]. match goal with H : py_S_compile _ _ _ _ _ _ _ ?Wt _ = FOutOfFuel |- _ =>
    assert (EW : Wt = skipn (Z.to_nat k) target) by (apply firstn_all2; rewrite skipn_length; lia); rewrite EW in H;
    exact (compile_left_no_fuel _ _ _ _ _ _ _ _ _ HW Hf H) end.
Qed.

(* ---------- exact outcomes: what is returned, which exceptions may leave, nothing else (no break in the code at hand) ---------- *)
Section OutX.
Context {S R : Type} (P : R -> Prop) (E : exn -> Prop).
(* c = false: `continue` is not among the outcomes (a loop body after uncont) *)
Definition OutX (c : bool) (I : S -> Prop) (o : outcome S R) : Prop :=
  match o with Ret r => P r | Next s => I s | Cont s => if c then I s else False | Raised e => E e | _ => False end.
Lemma OutX_seqo c (J I : S -> Prop) o k : OutX c J o -> (forall s, J s -> I s) -> (forall s, J s -> OutX c I (k s)) -> OutX c I (seqo o k).
Proof. destruct o; cbn; intros; try contradiction; auto. destruct c; auto. Qed.
Lemma OutX_seqo_while c (J I : S -> Prop) fuel cd b s0 k :
  OutX c J (while_loop fuel cd b s0) -> (forall s, J s -> OutX c I (k s)) -> OutX c I (seqo (while_loop fuel cd b s0) k).
Proof.
  intros H Hk. pose proof (while_not_cont fuel cd b s0) as N. destruct (while_loop fuel cd b s0) eqn:Ew; cbn in *; try contradiction; auto.
  exfalso. apply (proj1 (N s)). reflexivity.
Qed.
Lemma OutX_uncont I o : OutX true I o -> OutX false I (uncont o).
Proof. destruct o; cbn; intros; try contradiction; auto. Qed.
Lemma OutX_unloop c I o : OutX c I o -> OutX c I (unloop o).
Proof. destruct o; cbn; intros; try contradiction; auto. Qed.
Lemma OutX_lift I o : OutX false I o -> OutX true I o.
Proof. destruct o; cbn; intros; try contradiction; auto. Qed.
(* for: an invariant indexed by the part of the list already processed *)
Lemma OutX_foldp {A} (Ip : list A -> S -> Prop) (body : S -> A -> outcome S R) : forall post pre o0, OutX false (Ip pre) o0 ->
  (forall p x q s, pre ++ post = p ++ x :: q -> Ip p s -> OutX false (Ip (p ++ [x])) (body s x)) ->
  OutX false (Ip (pre ++ post)) (fold_left (fun o x => seqo o (fun s => body s x)) post o0).
Proof.
  induction post as [|x post IH]; intros pre o0 H0 Hb; [rewrite app_nil_r; exact H0|]. cbn [fold_left].
  replace (pre ++ x :: post) with ((pre ++ [x]) ++ post) by (rewrite <- app_assoc; reflexivity). apply IH.
  - destruct o0; cbn in *; try contradiction; try exact H0. apply (Hb pre x post); [reflexivity|exact H0].
  - intros p y q s Hs. apply (Hb p y q s). rewrite <- app_assoc in Hs. exact Hs.
Qed.
(* while on fuel: invariant, measure; at the exit the condition is false *)
Lemma OutX_while (I : S -> Prop) (m : S -> nat) cond body : forall fuel s0, I s0 -> (m s0 < fuel)%nat ->
  (forall s, I s -> cond s = true -> OutX true (fun s' => I s' /\ (m s' < m s)%nat) (body s)) ->
  OutX false (fun s => I s /\ cond s = false) (while_loop fuel cond body s0).
Proof.
  induction fuel as [|f IH]; intros s0 H0 Hm Hb; [lia|]. cbn [while_loop]. destruct (cond s0) eqn:C; [|split; assumption].
  pose proof (Hb s0 H0 C) as Hs. destruct (body s0); cbn [uncont] in *; cbn [OutX] in Hs; try exact Hs; try contradiction.
  - destruct Hs. apply IH; [assumption|lia|exact Hb].
  - destruct Hs. apply IH; [assumption|lia|exact Hb].
Qed.
Lemma OutX_finish c o : OutX c (fun _ => False) o -> match finish o with FRet r => P r | FRaised e => E e | _ => False end.
Proof. destruct o; cbn; intros H; try contradiction; try exact H. destruct c; contradiction. Qed.
End OutX.

Ltac sxx_red := cbn [seqo bindr uncont unloop]; cbv beta iota zeta.
Ltac sxx_step :=
  lazymatch goal with
  | |- OutX _ _ false _ (uncont _) => apply OutX_uncont
  | |- OutX _ _ _ _ (unloop _) => apply OutX_unloop
  | |- OutX _ _ _ _ (seqo (seqo _ _) _) => rewrite seqo_assoc
  | |- OutX _ _ _ _ (seqo (unloop _) _) => fail
  | |- OutX _ _ _ _ (seqo (while_loop _ _ _ _) _) => fail
  | |- OutX _ _ _ _ (seqo (if ?c then _ else _) _) => destruct c eqn:?; sxx_red
  | |- OutX _ _ _ _ (seqo (bindr ?c _) _) => destruct c eqn:?; sxx_red
  | |- OutX _ _ _ _ (seqo (match ?x with _ => _ end) _) => destruct x eqn:?; sxx_red
  | |- OutX _ _ _ _ (seqo _ _) => sxx_red
  | |- OutX _ _ _ _ (if ?c then _ else _) => destruct c eqn:?; sxx_red
  | |- OutX _ _ _ _ (bindr ?c _) => destruct c eqn:?; sxx_red
  | |- OutX _ _ _ _ (Ret _) => cbn [OutX]
  | |- OutX _ _ _ _ (Next _) => cbn [OutX]; cbv beta iota
  | |- OutX _ _ _ _ (Cont _) => cbn [OutX]; cbv beta iota
  | |- OutX _ _ _ _ (Raised _) => cbn [OutX]
  | |- OutX _ _ _ _ (fold_left _ _ _) => fail
  | |- OutX _ _ _ _ (while_loop _ _ _ _) => fail
  | |- OutX _ _ _ _ (match ?x with _ => _ end) => destruct x eqn:?; sxx_red
  end.
Ltac sxx := cbv beta iota zeta; repeat sxx_step.

Lemma ok_len a c : length a = length c ->
  py_S_commutes_ok a c = true /\ py_S_commutes_val a c = negb (anti_l a c) /\ py_S_multiply_ok a c = true /\ py_S_multiply_val a c = smul a c.
Proof.
  intros L. unfold py_S_commutes_ok, py_S_commutes_val, py_S_multiply_ok, py_S_multiply_val.
  rewrite (commutes_code_ok a c L), (multiply_code_ok a c L). cbn. auto.
Qed.
Lemma kdict_get_set_same {A} (d : list (pstr * A)) k v : kdict_get pstr_eqb (kdict_set pstr_eqb d k v) k = Some v.
Proof. induction d as [|[k0 v0] t IH]; cbn; [rewrite pstr_eqb_refl; reflexivity|]. destruct (pstr_eqb k0 k) eqn:E; cbn; rewrite E; [reflexivity|exact IH]. Qed.
Lemma kdict_get_set_other {A} (d : list (pstr * A)) k v k' : k' <> k -> kdict_get pstr_eqb (kdict_set pstr_eqb d k v) k' = kdict_get pstr_eqb d k'.
Proof.
  intros N. induction d as [|[k0 v0] t IH]; cbn.
  - destruct (pstr_eqb k k') eqn:E; [apply pstr_eqb_true in E; congruence|reflexivity].
  - destruct (pstr_eqb k0 k) eqn:E; cbn.
    + apply pstr_eqb_true in E. subst k0. destruct (pstr_eqb k k') eqn:E2; [apply pstr_eqb_true in E2; congruence|reflexivity].
    + destruct (pstr_eqb k0 k'); [reflexivity|exact IH].
Qed.
Lemma pstr_neq x y : pstr_eqb x y = false -> x <> y.
Proof. intros E ->. rewrite pstr_eqb_refl in E. discriminate. Qed.

Section LeftMapSpec.
Variables (n : nat) (Vf Vt : pstr) (A : list pstr).
Hypothesis LVf : length Vf = n.
Hypothesis LA : forall a, In a A -> length a = n.
Definition Reach (y : pstr) : Prop := exists ops, (forall a, In a ops -> In a A) /\ ncr_from Vf ops = Some y.
Definition st := (list pstr * list (pstr * (pstr * pstr * pstr)) * list pstr * pstr * list pstr)%type.
Definition PEntry (seen : list pstr) (key : pstr) (v : pstr * pstr * pstr) : Prop :=
  In key seen /\ In (fst (fst v)) seen /\ (pos (fst (fst v)) seen < pos key seen)%nat /\ In (snd v) A /\ length (fst (fst v)) = n /\
  anti_l (snd v) (fst (fst v)) = true /\ key = smul (snd v) (fst (fst v)).
Definition Closed (seen q : list pstr) (except : pstr -> Prop) : Prop :=
  forall x, In x seen -> ~ In x q -> ~ except x -> x <> Vt /\ forall a, In a A -> anti_l a x = true -> In (smul a x) seen.
Definition Inv0 (except : pstr -> Prop) (s : st) : Prop := let '(q, parent, seen, ck, sq) := s in
  OtocLoopT.all_len n q /\ OtocLoopT.all_len n seen /\ NoDup seen /\ NoDup q /\ (forall x, In x q -> In x seen) /\ In Vf seen /\
  Closed seen q except /\ (forall key v, In (key, v) parent -> PEntry seen key v) /\
  (forall x, In x seen -> x <> Vf -> opt_is_some (kdict_get pstr_eqb parent x) = true).
Definition Inv := Inv0 (fun _ => False).
Definition PSeq (sq : list pstr) : Prop := (forall a, In a sq -> In a A) /\ ncr_from Vf sq = Some Vt.
Definition EExn (e : exn) : Prop := e = EUser "RuntimeError" /\ ~ Reach Vt.

(* a seen set that is closed under the steps (empty queue) contains everything reachable from any of its members *)
Lemma closed_reach seen : OtocLoopT.all_len n seen -> Closed seen [] (fun _ => False) ->
  forall ops x y, (forall a, In a ops -> In a A) -> In x seen -> ncr_from x ops = Some y -> In y seen.
Proof.
  intros Hl Hc. induction ops as [|a t IH]; intros x y Ho Hx H.
  - cbn in H. injection H as <-. exact Hx.
  - cbn [ncr_from] in H. destruct (Nat.eqb (length a) (length x)); [|discriminate]. destruct (anti_l a x) eqn:Ea; [|discriminate].
    apply (IH (smul a x) y); [intros b Hb; apply Ho; right; exact Hb| |exact H].
    apply (Hc x Hx); [intros []|intros []|apply Ho; left; reflexivity|exact Ea].
Qed.

Theorem left_map_spec fuel : (2 * Nat.pow 4 n < fuel)%nat ->
  match py_S_left_map_over_a fuel Vf Vt A with FRet sq => PSeq sq | FRaised e => EExn e | _ => False end.
Proof.
  intros Hf. unfold py_S_left_map_over_a. assert (P4 : (1 <= Nat.pow 4 n)%nat) by (pose proof (Nat.pow_nonzero 4 n); lia).
  apply (OutX_finish PSeq EExn false).
  sxx.
  - (* start = goal *) split; [intros a []|]. cbn. f_equal. apply pstr_eqb_true. rewrite !key_val in *. assumption.
  - rewrite !key_val in *.
    eapply OutX_seqo_while.
    + eapply (OutX_while _ _ Inv (mout n)).
      * (* initially *)
        cbn. split; [intros g [<-|[]]; exact LVf|]. split; [intros g [<-|[]]; exact LVf|]. split; [constructor; [intros []|constructor]|].
        split; [constructor; [intros []|constructor]|]. split; [intros x Hx; exact Hx|]. split; [left; reflexivity|].
        split; [intros x [<-|[]] Hn; exfalso; apply Hn; left; reflexivity|]. split; [intros ? ? []|]. intros x [<-|[]] Hn; congruence.
      * cbn. lia.
      * intros s Hs Hc. destruct s as [[[[q parent] seen] ck0] sq]. cbv beta iota zeta in Hc |- *. destruct q as [|cur q']; [discriminate Hc|].
        destruct Hs as [Hq [Hsl [Hnd [Hndq [Hqs [Hst [Hcl [Hpe Hpt]]]]]]]].
        assert (Hcur : In cur seen) by (apply Hqs; left; reflexivity).
        assert (Lcur : length cur = n) by (apply Hq; left; reflexivity).
        assert (Bnd : (length seen <= Nat.pow 4 n)%nat) by (apply OtocLoopT.visited_bound; assumption).
        assert (Hcq : ~ In cur q') by (inversion Hndq; assumption).
        rewrite !key_val. destruct (pstr_eqb cur Vt) eqn:EG; sxx_red.
        -- (* the goal was popped: walk back along the parent pointers *)
           apply pstr_eqb_true in EG. rewrite seqo_assoc.
           set (Iin := fun s : st => let '(q0, p0, s0, ck, sq0) := s in p0 = parent /\ s0 = seen /\ In ck seen /\ ncr_from ck (rev sq0) = Some cur /\ (forall a, In a sq0 -> In a A)).
           eapply OutX_seqo_while.
           ++ apply OutX_lift. eapply (OutX_while _ _ Iin (fun '(q0, p0, s0, ck, sq0) => pos ck seen)).
              ** cbn. repeat split; auto. intros a [].
              ** pose proof (pos_lt cur seen Hcur). lia.
              ** intros s Hs2 Hc2. destruct s as [[[[q0 p0] s0] ck] sq0]. cbv beta iota zeta in Hs2, Hc2 |- *. destruct Hs2 as [-> [-> [Hck [Hch Hmem]]]].
                 assert (Hne : ck <> Vf) by (apply pstr_neq; destruct (pstr_eqb ck Vf); [discriminate|reflexivity]).
                 pose proof (Hpt ck Hck Hne) as Hsome.
                 sxx; try (unfold pstr in *; congruence).
                 match goal with E : unopt ?dd ?o = _ |- _ =>
                   pose proof (opt_some_unopt dd o Hsome) as EK; rewrite E in EK; apply kdict_get_in' in EK end.
                 destruct (Hpe _ _ EK) as [H1 [H2 [H3 [H4 [H5 [H6 H7]]]]]]. cbn [fst snd] in *.
                 split; [|exact H3]. split; [reflexivity|]. split; [reflexivity|]. split; [exact H2|]. split.
                 --- rewrite rev_app_distr. cbn [rev app ncr_from]. rewrite (LA _ H4), H5, Nat.eqb_refl, H6. rewrite <- H7. exact Hch.
                 --- intros a Ha. apply in_app_or in Ha. destruct Ha as [Ha|[<-|[]]]; auto.
           ++ intros s [Hs2 Hc2]. destruct s as [[[[q0 p0] s0] ck] sq0]. cbv beta iota zeta in Hs2, Hc2 |- *. destruct Hs2 as [_ [_ [_ [Hch Hmem]]]].
              sxx_red. cbn [OutX]. split; [intros a Ha; apply in_rev in Ha; auto|].
              assert (Eck : ck = Vf) by (apply pstr_eqb_true; destruct (pstr_eqb ck Vf); [reflexivity|discriminate]). unfold pstr in *. congruence.
        -- (* its neighbours: after the loop the popped string is closed too *)
           assert (Ncur : cur <> Vt) by (apply pstr_neq; exact EG).
           set (s0 := (q', parent, seen, cur, sq) : st).
           set (Jp := fun (pre : list pstr) (s : st) =>
                  Inv0 (fun x => x = cur) s /\
                  (let '(q0, p0, sn, ck, sq0) := s in In cur sn /\ ck = cur /\ ~ In cur q0 /\ forall a, In a pre -> anti_l a cur = true -> In (smul a cur) sn) /\
                  (mout n s <= mout n s0)%nat).
           assert (JP : forall s, Jp A s -> Inv s /\ (mout n s < mout n (cur :: q', parent, seen, ck0, sq))%nat).
           { intros s [H1 [H2 H3]]. destruct s as [[[[q1 p1] sn] ck] sq1]. split; [|unfold s0 in H3; cbn [mout length] in *; lia].
             destruct H1 as [G1 [G2 [G3 [G4 [G5 [G6 [G7 [G8 G9]]]]]]]]. destruct H2 as [K1 [K2 [K3 K4]]].
             repeat (split; [assumption|]). split; [|split; assumption].
             intros x Hx Hnq _. destruct (pstr_eqb x cur) eqn:Ex.
             - apply pstr_eqb_true in Ex. subst x. split; [exact Ncur|exact K4].
             - apply G7; [exact Hx|exact Hnq|apply pstr_neq; exact Ex]. }
           apply (OutX_seqo _ _ true (Jp A)); [|exact JP|intros s Hs; destruct s as [[[[q1 p1] sn] ck] sq1]; cbn [OutX]; exact (JP _ Hs)].
           apply OutX_lift. apply OutX_unloop.
           change (Jp A) with (Jp ([] ++ A)). apply (OutX_foldp _ _ Jp).
           ++ (* before the loop *)
              cbn [OutX]. unfold Jp, s0. split; [|split; [|apply le_n]].
              ** split; [intros g Hg; apply Hq; right; exact Hg|]. split; [exact Hsl|]. split; [exact Hnd|]. split; [inversion Hndq; assumption|].
                 split; [intros x Hx; apply Hqs; right; exact Hx|]. split; [exact Hst|]. split; [|split; assumption].
                 intros x Hx Hnq Hxc. apply Hcl; [exact Hx| |intros []]. intros [<-|F]; [apply Hxc; reflexivity|exact (Hnq F)].
              ** split; [exact Hcur|]. split; [reflexivity|]. split; [exact Hcq|]. intros a [].
           ++ intros p a qq s EA Hs. assert (HaA : In a A) by (cbn [app] in EA; rewrite EA; apply in_or_app; right; left; reflexivity).
              destruct s as [[[[q1 p1] sn] ck] sq1]. cbv beta iota zeta.
              destruct Hs as [[G1 [G2 [G3 [G4 [G5 [G6 [G7 [G8 G9]]]]]]]] [[K1 [-> [K3 K4]]] Hm]].
              assert (Lac : length a = length cur) by (rewrite (LA a HaA); symmetry; exact Lcur).
              destruct (ok_len a cur Lac) as [O1 [O2 [O3 O4]]].
              apply OutX_uncont. rewrite O1, O2, O3, O4, !key_val. cbv beta iota. sxx.
              ** (* commutes: nothing to do *)
                 unfold Jp. split; [repeat (split; [assumption|]); assumption|]. split; [|exact Hm].
                 split; [exact K1|]. split; [reflexivity|]. split; [exact K3|].
                 intros b Hb Hab. apply in_app_or in Hb. destruct Hb as [Hb|[Eb|[]]]; [apply K4; assumption|]. subst b.
                 match goal with H : negb (anti_l a cur) = true |- _ => rewrite Hab in H; discriminate H end.
              ** (* already seen *)
                 unfold Jp. split; [repeat (split; [assumption|]); assumption|]. split; [|exact Hm].
                 split; [exact K1|]. split; [reflexivity|]. split; [exact K3|].
                 intros b Hb Hab. apply in_app_or in Hb. destruct Hb as [Hb|[Eb|[]]]; [apply K4; assumption|]. subst b.
                 match goal with H : mem_b pstr_eqb _ sn = true |- _ => apply mem_b_in in H; exact H end.
              ** (* a new string: queued, recorded as seen, its parent stored *)
                 match goal with H : mem_b pstr_eqb (smul a cur) sn = false |- _ => apply mem_b_notin in H; rename H into Hnew end.
                 match goal with H : negb (anti_l a cur) = false |- _ => apply negb_false_iff in H; rename H into Hanti end.
                 set (nk := smul a cur) in *.
                 assert (Lnk : length nk = n) by (unfold nk; rewrite smul_length; congruence).
                 assert (ES : set_add_b pstr_eqb nk sn = sn ++ [nk]).
                 { unfold set_add_b. destruct (mem_b pstr_eqb nk sn) eqn:Em; [apply mem_b_in in Em; contradiction|reflexivity]. }
                 rewrite ES.
                 assert (Hsl2 : OtocLoopT.all_len n (sn ++ [nk])) by (intros g Hg; apply in_app_or in Hg; destruct Hg as [Hg|[<-|[]]]; [apply G2; exact Hg|exact Lnk]).
                 assert (Hnd2 : NoDup (sn ++ [nk])) by (apply NoDup_snoc; assumption).
                 pose proof (OtocLoopT.visited_bound n _ Hsl2 Hnd2) as B2. rewrite app_length in B2. cbn [length] in B2.
                 assert (Hnq : ~ In nk q1) by (intros F; apply Hnew; apply G5; exact F).
                 assert (Hnc : nk <> cur) by (intros F; apply Hnew; rewrite F; exact K1).
                 unfold Jp. split; [|split].
                 --- split; [intros g Hg; apply in_app_or in Hg; destruct Hg as [Hg|[<-|[]]]; [apply G1; exact Hg|exact Lnk]|].
                     split; [exact Hsl2|]. split; [exact Hnd2|]. split; [apply NoDup_snoc; assumption|].
                     split; [intros x Hx; apply in_app_or in Hx; apply in_or_app; destruct Hx as [Hx|[<-|[]]]; [left; apply G5; exact Hx|right; left; reflexivity]|].
                     split; [apply in_or_app; left; exact G6|]. split; [|split].
                     +++ (* closedness is monotone *)
                         intros x Hx Hxq Hxc. apply in_app_or in Hx. destruct Hx as [Hx|[<-|[]]].
                         *** destruct (G7 x Hx) as [F1 F2]; [intros F; apply Hxq; apply in_or_app; left; exact F|exact Hxc|]. split; [exact F1|].
                             intros b Hb Hab. apply in_or_app. left. exact (F2 b Hb Hab).
                         *** exfalso. apply Hxq. apply in_or_app. right. left. reflexivity.
                     +++ intros key v Hin. apply kdict_set_in' in Hin. destruct Hin as [[-> ->]|Hin].
                         *** unfold PEntry. cbn [fst snd]. split; [apply in_or_app; right; left; reflexivity|]. split; [apply in_or_app; left; exact K1|].
                             split; [rewrite pos_app_in by exact K1; rewrite pos_app_new by exact Hnew; apply pos_lt; exact K1|].
                             split; [exact HaA|]. split; [exact Lcur|]. split; [exact Hanti|reflexivity].
                         *** destruct (G8 _ _ Hin) as [H1 [H2 [H3 H4]]]. unfold PEntry. split; [apply in_or_app; left; exact H1|]. split; [apply in_or_app; left; exact H2|].
                             split; [rewrite !pos_app_in by assumption; exact H3|exact H4].
                     +++ intros x Hx Hxf. apply in_app_or in Hx. destruct Hx as [Hx|[<-|[]]].
                         *** rewrite kdict_get_set_other; [apply G9; assumption|]. intros ->. contradiction.
                         *** rewrite kdict_get_set_same. reflexivity.
                 --- split; [apply in_or_app; left; exact K1|]. split; [reflexivity|]. split; [intros F; apply in_app_or in F; destruct F as [F|[F|[]]]; [exact (K3 F)|exact (Hnc F)]|].
                     intros b Hb Hab. apply in_app_or in Hb. apply in_or_app. destruct Hb as [Hb|[Eb|[]]]; [left; apply K4; assumption|]. subst b. right. left. reflexivity.
                 --- unfold s0 in *. cbn [mout] in *. rewrite !app_length. cbn [length]. lia.
    + (* the queue is empty and the goal was never popped: it is not reachable *)
      intros s [Hs Hq]. destruct s as [[[[q parent] seen] ck] sq]. cbv beta iota zeta in Hq |- *. destruct q; [|discriminate]. cbn [OutX].
      split; [reflexivity|]. intros [ops [Ho Hr]].
      destruct Hs as [_ [Hsl [_ [_ [_ [Hst [Hcl _]]]]]]].
      pose proof (closed_reach seen Hsl Hcl ops Vf Vt Ho Hst Hr) as Hin.
      destruct (Hcl Vt Hin) as [F _]; [intros []|intros []|]. apply F. reflexivity.
Qed.
End LeftMapSpec.

(* ---------- compile_target on left-only targets, even k: it returns ---------- *)

(* _nested_commutator_result on strings of one length never raises: it is ncr_from *)
Lemma ad_apply_total a c : length a = length c -> py_S_ad_apply a (Some c) = FRet (if anti_l a c then Some (smul a c) else None).
Proof.
  intros L. unfold py_S_ad_apply. cbn [opt_is_some negb seqo unopt]. destruct (ok_len a c L) as [O1 [O2 [O3 O4]]]. rewrite O1, O2, O3, O4.
  rewrite orb_true_r. cbn [finish]. destruct (anti_l a c); reflexivity.
Qed.
Lemma ncr_total n : forall ops b, length b = n -> (forall a, In a ops -> length a = n) -> py_S_nested_commutator_result (b :: ops) = FRet (ncr_from b ops).
Proof.
  intros ops b Lb Lo. unfold py_S_nested_commutator_result. cbv zeta. cbn [is_nil negb seqo]. change (idx_ok (b :: ops) 0) with true. cbv iota.
  change (list_get [] (b :: ops) 0) with b. change (slice_from (b :: ops) 1) with ops.
  match goal with |- context [fold_left ?f ops _] => set (F := f) end.
  assert (FR : forall l (r0 : option pstr), fold_left F l (Ret r0) = Ret r0) by (induction l as [|x l IHl]; intros r0; [reflexivity|cbn [fold_left]; apply IHl]).
  assert (G : forall l c, length c = n -> (forall a, In a l -> length a = n) ->
     fold_left F l (Next (Some c)) = match ncr_from c l with Some r => Next (Some r) | None => Ret None end).
  { induction l as [|a l IH]; intros c Lc Ll; [reflexivity|]. cbn [fold_left ncr_from]. unfold F at 2. cbn [seqo]. cbv zeta.
    assert (La : length a = length c) by (rewrite Lc; apply Ll; left; reflexivity). rewrite (ad_apply_total a c La). cbn [bindr]. rewrite La, Nat.eqb_refl.
    destruct (anti_l a c); cbn [opt_is_some negb seqo uncont].
    - apply IH; [rewrite smul_length by exact La; rewrite La; exact Lc|intros x Hx; apply Ll; right; exact Hx].
    - apply FR. }
  rewrite (G ops b Lb Lo). destruct (ncr_from b ops); reflexivity.
Qed.

(* appending identities to every string of a chain *)
Lemma ncr_from_ext n m : forall ops b r, length b = n -> (forall a, In a ops -> length a = n) -> ncr_from b ops = Some r ->
  ncr_from (b ++ identity m) (map (fun a => a ++ identity m) ops) = Some (r ++ identity m).
Proof.
  induction ops as [|a t IH]; intros b r Lb Lo H.
  - cbn in H. injection H as <-. reflexivity.
  - cbn [ncr_from map] in *. assert (La : length a = length b) by (rewrite Lb; apply Lo; left; reflexivity).
    rewrite La, Nat.eqb_refl in H. rewrite !app_length, La, Nat.eqb_refl.
    rewrite anti_l_app by exact La. rewrite anti_identity, xorb_false_r. destruct (anti_l a b); [|discriminate].
    rewrite smul_app by exact La. rewrite smul_identity. apply IH; [rewrite smul_length by exact La; rewrite La; exact Lb|intros x Hx; apply Lo; right; exact Hx|exact H].
Qed.

Lemma nested_none_prefix : forall l s, s <> [] -> nested_eval s = None -> nested_eval (l ++ s) = None.
Proof.
  induction l as [|y l IH]; intros s Hs N; [exact N|]. cbn [app]. rewrite nested_eval_step by (intros F; apply app_eq_nil in F; destruct F; contradiction).
  rewrite (IH s Hs N). reflexivity.
Qed.
(* from the documented-orientation evaluation back to the chain *)
Lemma nested_to_ncr n : forall ops b r, length b = n -> (forall a, In a ops -> length a = n) -> nested_eval (rev ops ++ [b]) = Some r -> ncr_from b ops = Some r.
Proof.
  assert (G : forall ops s c r, s <> [] -> nested_eval s = Some c -> length c = n -> (forall a, In a ops -> length a = n) ->
               nested_eval (rev ops ++ s) = Some r -> ncr_from c ops = Some r).
  { induction ops as [|a t IH]; intros s c r Hs Hc Lc Lo H.
    - cbn in H. rewrite Hc in H. exact H.
    - cbn [rev] in H. rewrite <- app_assoc in H. cbn [app] in H. cbn [ncr_from]. assert (La : length a = length c) by (rewrite Lc; apply Lo; left; reflexivity).
      rewrite La, Nat.eqb_refl.
      destruct (anti_l a c) eqn:Ea.
      + apply (IH (a :: s) (smul a c) r); [discriminate| | |intros x Hx; apply Lo; right; exact Hx|exact H].
        * rewrite nested_eval_step by exact Hs. rewrite Hc, Ea. reflexivity.
        * rewrite smul_length by exact La. rewrite La. exact Lc.
      + exfalso. assert (N : nested_eval (a :: s) = None) by (rewrite nested_eval_step by exact Hs; rewrite Hc, Ea; reflexivity).
        pose proof (nested_none_prefix (rev t) (a :: s) ltac:(discriminate) N) as F. unfold pstr in *. congruence. }
  intros ops b r Lb Lo H. apply (G ops [b] b r); [discriminate|reflexivity|exact Lb|exact Lo|exact H].
Qed.

(* for even k every non-identity left string is reached from some left generator by steps over the left generators *)
Lemma left_reach k V : Nat.even k = true -> length V = k -> V <> identity k ->
  exists b ops, In b (left_a_minimal k) /\ (forall a, In a ops -> In a (left_a_minimal k)) /\ ncr_from b ops = Some V.
Proof.
  intros Hev LV NV. pose proof (left_full k V Hev LV NV) as HC.
  assert (HL : forall g, In g (left_a_minimal k) -> length g = k) by (intros g; apply UniversalT.left_lengths).
  apply (ClL_enc k (Lk k) HL V LV) in HC.
  assert (HC' : ClS (fun a => In a (map enc (left_a_minimal k))) (enc V)).
  { revert HC. apply s_ext. intros a. unfold image, Lk. rewrite in_map_iff. split.
    - intros [g [E Hg]]. exists g. split; [exact Hg|symmetry; exact E].
    - intros [g [Hg E]]. exists g. split; [symmetry; exact E|exact Hg]. }
  destruct (nested_exists k (left_a_minimal k) V HL LV HC') as [s [Hne [Hmem Hev']]].
  destruct (exists_last Hne) as [l' [b Es]]. subst s. exists b, (rev l'). split; [apply Hmem; apply in_or_app; right; left; reflexivity|]. split.
  - intros a Ha. apply in_rev in Ha. apply Hmem. apply in_or_app. left. exact Ha.
  - apply (nested_to_ncr k); [apply HL; apply Hmem; apply in_or_app; right; left; reflexivity| |rewrite rev_involutive; exact Hev'].
    intros a Ha. apply in_rev in Ha. apply HL. apply Hmem. apply in_or_app. left. exact Ha.
Qed.

Lemma compile_left_returns (fuel : nat) (k nr fd fn Nt : Z) (V W : pstr) (orc : list oans) :
  Nat.even (Z.to_nat k) = true -> (0 <= nr)%Z -> Z.of_nat (length V) = k -> Z.of_nat (length W) = nr -> is_identity W = true -> V <> identity (Z.to_nat k) ->
  (2 * Nat.pow 4 (Z.to_nat k) < fuel)%nat -> exists seq, py_S_compile fuel k nr fd fn Nt V W orc = FRet seq.
Proof.
  intros Hev Hnr LV LW HW NV Hf.
  destruct (left_reach (Z.to_nat k) V Hev ltac:(lia) NV) as [b [ops [Hb [Hops Hch]]]].
  assert (HL : forall g, In g (left_a_minimal (Z.to_nat k)) -> length g = Z.to_nat k) by (intros g; apply UniversalT.left_lengths).
  assert (T : match py_S_compile fuel k nr fd fn Nt V W orc with FRet r => True | FRaised e => False | _ => False end).
  { unfold py_S_compile. apply (OutX_finish (fun _ => True) (fun _ => False) false).
    assert (C1 : ((Z.of_nat (length V) =? k) && (Z.of_nat (length W) =? nr))%bool = true) by lia. cbv beta iota zeta. rewrite C1, HW. sxx_red.
    rewrite seqo_assoc. set (A := left_a_minimal (Z.to_nat k)) in *.
    assert (EWid : W = identity (Z.to_nat nr)) by (apply is_identity_iff in HW; rewrite HW; f_equal; lia).
    apply (OutX_seqo _ _ false (fun _ => ~ In b A)); [|intros s F; exact (F Hb)|intros s F; exfalso; exact (F Hb)].
    apply OutX_unloop.
    change (fun _ : list oans => ~ In b A) with ((fun (pre : list pstr) (_ : list oans) => ~ In b pre) ([] ++ A)). apply OutX_foldp; [cbn; intros []|].
    intros p x qq s EA Hp. assert (HxA : In x A) by (cbn [app] in EA; rewrite EA; apply in_or_app; right; left; reflexivity).
    assert (Lx : length x = Z.to_nat k) by (apply HL; exact HxA).
    cbv beta iota zeta. apply OutX_uncont.
    pose proof (left_map_spec (Z.to_nat k) x V A Lx HL fuel Hf) as SP.
    destruct (py_S_left_map_over_a fuel x V A) as [r| |e| |] eqn:EL; try contradiction.
    - (* the left map returned: the candidate passes the check *)
      destruct SP as [Hmem Hr].
      assert (Ok1 : py_S_extend_left_ok nr x = true) by (unfold py_S_extend_left_ok; lia). rewrite Ok1.
      assert (Ok2 : forallb (fun v_c_a : pstr => py_S_extend_left_ok nr v_c_a) r = true) by (apply forallb_forall; intros; unfold py_S_extend_left_ok; lia). rewrite Ok2.
      cbv beta iota zeta. cbn [app].
      assert (EN : py_S_nested_commutator_result (py_S_extend_left_val nr x :: map (fun v_c_a : pstr => py_S_extend_left_val nr v_c_a) r) = FRet (Some (V ++ identity (Z.to_nat nr)))).
      { unfold py_S_extend_left_val, py_S_tensor_val. rewrite (ncr_total (Z.to_nat k + Z.to_nat nr)).
        - f_equal. apply (ncr_from_ext (Z.to_nat k)); [exact Lx|intros a Ha; apply HL; apply Hmem; exact Ha|exact Hr].
        - rewrite app_length, identity_length. lia.
        - intros a Ha. apply in_map_iff in Ha. destruct Ha as [c [<- Hc]]. rewrite app_length, identity_length, (HL c (Hmem c Hc)). reflexivity. }
      rewrite EN. cbn [bindr opt_is_some unopt negb orb andb].
      assert (LVn : length V = Z.to_nat k) by lia.
      assert (EL1 : py_S_left_part_val (V ++ identity (Z.to_nat nr)) k = V).
      { unfold py_S_left_part_val. change (Z.to_nat 0) with O. cbn [skipn]. rewrite firstn_app, <- LVn, Nat.sub_diag, firstn_all. cbn [firstn]. apply app_nil_r. }
      assert (ER1 : py_S_right_part_val (V ++ identity (Z.to_nat nr)) k = W).
      { unfold py_S_right_part_val. rewrite skipn_app, <- LVn, skipn_all, Nat.sub_diag. cbn [skipn app]. rewrite EWid. apply firstn_all2. rewrite app_length, identity_length. lia. }
      assert (G1 : py_S_left_part_ok (V ++ identity (Z.to_nat nr)) k = true) by (unfold py_S_left_part_ok; lia).
      assert (G2 : py_S_right_part_ok (V ++ identity (Z.to_nat nr)) k = true) by (unfold py_S_right_part_ok; rewrite app_length, identity_length; lia).
      rewrite G1, EL1, pstr_eqb_refl, G2, ER1, pstr_eqb_refl. cbn [negb orb andb seqo]. rewrite gen_s_orient. cbn [bindr OutX]. exact I.
    - (* the left map raised: only RuntimeError, and only when V is not reachable from x — so x is not b *)
      destruct SP as [-> NR]. cbn [exn_is]. change (String.eqb "RuntimeError" "RuntimeError") with true. cbn [OutX]. cbv iota.
      intros F. apply in_app_or in F. destruct F as [F|[F|[]]]; [exact (Hp F)|]. subst x. apply NR. exists ops. split; [exact Hops|exact Hch]. }
  destruct (py_S_compile fuel k nr fd fn Nt V W orc); try contradiction. eexists. reflexivity.
Qed.

(* C05 + C06 on the source, for targets with identity right block and an even left block size, every N: compile_target RETURNS
   (no RuntimeError, no other exception, within the fuel 2 * 4^k + 1), and what it returns is accepted by the validator *)
Theorem gen_s_left_only_total (fuel : nat) (target : pstr) (k : Z) (sub rest : list oans) :
  Nat.even (Z.to_nat k) = true -> (2 <= k < Z.of_nat (length target))%Z ->
  is_identity (skipn (Z.to_nat k) target) = true -> firstn (Z.to_nat k) target <> identity (Z.to_nat k) ->
  (2 * Nat.pow 4 (Z.to_nat k) < fuel)%nat ->
  exists seq, py_S_compile_target fuel target k (OSub sub :: rest) = FRet seq /\ compile_ok (length target) (Z.to_nat k) target seq = true.
Proof.
  intros Hev Hk HW NV Hf.
  set (V := firstn (Z.to_nat k) target) in *. set (W := skipn (Z.to_nat k) target) in *.
  assert (LV : Z.of_nat (length V) = k) by (unfold V; rewrite firstn_length; lia).
  assert (LW : Z.of_nat (length W) = Z.of_nat (length target) - k) by (unfold W; rewrite skipn_length; lia).
  destruct (compile_left_returns fuel k (Z.of_nat (length target) - k) 8 200000 (Z.of_nat (length target)) V W sub Hev ltac:(lia) LV LW HW NV Hf) as [seq Hseq].
  assert (E : py_S_compile_target fuel target k (OSub sub :: rest) = FRet seq).
  { unfold py_S_compile_target. cbv zeta.
    assert (C1 : negb ((1 <=? k) && (k <? Z.of_nat (length target))) = false) by lia. rewrite C1. cbn [seqo].
    assert (C2 : ((0 <=? 0) && (0 <=? k))%bool = true) by lia. rewrite C2.
    assert (C3 : ((0 <=? k) && (0 <=? Z.of_nat (length target) - k))%bool = true) by lia. rewrite C3.
    assert (C4 : (k <? 2) = false) by lia. rewrite C4.
    change (Z.to_nat 0) with O. cbn [skipn]. fold V.
    fold W. assert (EW : firstn (Z.to_nat (Z.of_nat (length target) - k)) W = W) by (apply firstn_all2; unfold W; rewrite skipn_length; lia). rewrite EW.
    rewrite Hseq. reflexivity. }
  exists seq. split; [exact E|]. apply (gen_s_c05_left_only fuel target k (OSub sub :: rest) seq E HW).
Qed.

(* non-vacuity of the totality theorem: YX(x)II with k = 2 meets its hypotheses, and the translated compiler does return on it *)
Example gen_left_only_total_runs :
  (Nat.even (Z.to_nat 2) = true /\ (2 <= 2 < Z.of_nat (length [PY;PX;PI;PI]))%Z /\ is_identity (skipn (Z.to_nat 2) [PY;PX;PI;PI]) = true /\
   firstn (Z.to_nat 2) [PY;PX;PI;PI] <> identity (Z.to_nat 2) /\ (2 * Nat.pow 4 (Z.to_nat 2) < 40)%nat) /\
  exists seq, py_S_compile_target 40 [PY;PX;PI;PI] 2 [OSub []] = FRet seq /\ compile_ok 4 2 [PY;PX;PI;PI] seq = true.
Proof.
  split; [split; [reflexivity|split; [cbn [length]; lia|split; [reflexivity|split; [cbn; discriminate|change (Z.to_nat 2) with 2%nat; cbn [Nat.pow]; lia]]]]|].
  eexists. split; vm_compute; reflexivity.
Qed.

(* symbolic execution for termination, loops with the trivial invariant *)
Ltac sxt_loop :=
  lazymatch goal with
  | |- OutT _ ?I (seqo (unloop (fold_left _ _ _)) _) =>
      apply (OutT_seqo _ I I); [apply OutT_unloop; apply OutT_fold; [exact Logic.I|let s := fresh "s" in let x := fresh "x" in let Hx := fresh "Hx" in
                                 intros s x _ Hx; destruct_state; cbv beta iota zeta]|intros; exact Logic.I|let s := fresh "s" in intros s _; destruct_state; cbv beta iota zeta]
  | |- OutT _ ?I (unloop (fold_left _ _ _)) =>
      apply OutT_unloop; apply OutT_fold; [exact Logic.I|let s := fresh "s" in let x := fresh "x" in let Hx := fresh "Hx" in intros s x _ Hx; destruct_state; cbv beta iota zeta]
  end.
Ltac sxta := cbv beta iota zeta; repeat first [sxt_step | sxt_loop].

Lemma left_factor_spec k G r : py_S_left_factor_from_sequence k G = FRet r -> (length r <= Z.to_nat k)%nat.
Proof.
  unfold py_S_left_factor_from_sequence. intros H.
  refine (OutP_finish (fun r => (length r <= Z.to_nat k)%nat) (fun _ => True) _ r _ H). clear H.
  sx; try exact I.
  - unfold get_single. rewrite !app_length. cbn [length]. unfold identity. rewrite !repeat_length. lia.
  - unfold py_S_left_part_val. rewrite firstn_length. lia.
Qed.
Lemma left_factor_no_fuel k G : py_S_left_factor_from_sequence k G <> FOutOfFuel.
Proof.
  unfold py_S_left_factor_from_sequence. apply (OutT_finish (fun _ => True) (fun _ => True)). sxta; try exact I.
  cbn [OutT]. match goal with H : py_S_nested_commutator_result ?G = FOutOfFuel |- _ => exact (ncr_no_fuel G H) end.
Qed.
Ltac no_fuel_leaf :=
  cbn [OutT]; try exact I;
  match goal with
  | H : py_S_nested_commutator_result ?G = FOutOfFuel |- _ => exact (ncr_no_fuel G H)
  | H : py_S_sequence_to_paulie_orientation ?G = FOutOfFuel |- _ => rewrite gen_s_orient in H; discriminate H
  | H : py_S_left_factor_from_sequence ?k ?G = FOutOfFuel |- _ => exact (left_factor_no_fuel k G H)
  end.
Lemma case3_no_fuel k G1 G2 Aext W orc : py_S_case3_best_reordering k G1 G2 Aext W orc <> FOutOfFuel.
Proof. unfold py_S_case3_best_reordering. apply (OutT_finish (fun _ => True) (fun _ => True)). sxta; no_fuel_leaf. Qed.
Lemma bfs_no_fuel k N W dc nc : py_S_bfs_case3 k N W dc nc <> FOutOfFuel.
Proof.
  unfold py_S_bfs_case3. apply (OutT_finish (fun _ => True) (fun _ => True)). sxta; try no_fuel_leaf.
  all: cbn [OutT]; match goal with H : py_S_ad_apply ?a ?c = FOutOfFuel |- _ => revert H end;
    unfold py_S_ad_apply; cbn [opt_is_some negb seqo unopt finish];
    repeat match goal with |- context [if ?c then _ else _] => destruct c end; cbn [finish]; discriminate.
Qed.

Lemma pow4_mono a b : (a <= b)%nat -> (Nat.pow 4 a <= Nat.pow 4 b)%nat.
Proof. intros H. apply Nat.pow_le_mono_r; lia. Qed.

(* C06, "compilation terminates", for EVERY target: every loop of the translated code (compile_target, compile, _case3_best_reordering,
   _bfs_case3, _nested_commutator_result and the two while loops of left_map_over_a) ends within the fuel 2 * 4^k + 1, whatever
   subsystem_compiler, _candidate_decompositions and the interleaving generators return or raise.  (Those four are not translated: that THEY
   return is not part of this statement.) *)
Theorem gen_s_compile_terminates fuel k nr fd fn N V W orc : (2 * Nat.pow 4 (Z.to_nat k) < fuel)%nat ->
  py_S_compile fuel k nr fd fn N V W orc <> FOutOfFuel.
Proof.
  intros Hf. unfold py_S_compile. apply (OutT_finish (fun _ => True) (fun _ => True)).
  sxta.
  all: try no_fuel_leaf.
  all: cbn [OutT].
  all: try match goal with H : py_S_case3_best_reordering ?k ?a ?b ?c ?d ?e = FOutOfFuel |- _ => exact (case3_no_fuel k a b c d e H) end.
  all: try match goal with H : py_S_bfs_case3 ?k ?a ?b ?c ?d = FOutOfFuel |- _ => exact (bfs_no_fuel k a b c d H) end.
  all: match goal with H : py_S_left_map_over_a ?f ?Vf ?Vt ?A = FOutOfFuel |- _ =>
         apply (gen_s_left_map_terminates f (length Vf) Vf Vt A eq_refl) in H; [exact H|] end.
  all: try match goal with Hx : In ?x (left_a_minimal _), Hf' : (_ < ?f)%nat |- (2 * Nat.pow 4 (length ?x) < ?f)%nat => rewrite (UniversalT.left_lengths _ _ Hx); exact Hf' end.
  all: match goal with H : py_S_left_factor_from_sequence _ _ = FRet ?r |- (2 * Nat.pow 4 (length ?r) < _)%nat =>
         pose proof (pow4_mono _ _ (left_factor_spec _ _ _ H)); lia end.
Qed.

Theorem gen_s_compile_target_terminates fuel target k orc : (2 * Nat.pow 4 (Z.to_nat k) < fuel)%nat -> py_S_compile_target fuel target k orc <> FOutOfFuel.
Proof.
  intros Hf. unfold py_S_compile_target. apply (OutT_finish (fun _ => True) (fun _ => True)).
  sxta; try exact I. cbn [OutT].
  match goal with H : py_S_compile _ _ _ _ _ _ _ _ _ = FOutOfFuel |- _ => exact (gen_s_compile_terminates _ _ _ _ _ _ _ _ _ Hf H) end.
Qed.

Print Assumptions gen_s_ncr.
Print Assumptions gen_s_orient.
Print Assumptions checked_evaluates.
Print Assumptions gen_s_case3.
Print Assumptions gen_s_bfs.
Print Assumptions gen_s_compile.
Print Assumptions gen_s_compile_target.
Print Assumptions gen_s_c05_evaluates.
Print Assumptions gen_s_c05_matrix.
Print Assumptions gen_s_left_map_members.
Print Assumptions gen_s_compile_left_members.
Print Assumptions gen_s_bfs_members.
Print Assumptions gen_s_c05_left_only.
Print Assumptions gen_s_left_map_terminates.
Print Assumptions gen_s_left_only_terminates.
Print Assumptions left_map_spec.
Print Assumptions gen_s_left_only_total.
Print Assumptions gen_left_only_total_runs.
Print Assumptions gen_s_compile_terminates.
Print Assumptions gen_s_compile_target_terminates.
Print Assumptions gen_search_runs.
Print Assumptions gen_bfs_runs.
