(* Refine/FactoryRefine.v — the k-local expansion of src/paulie/common/pauli_string_factory.py (gen_k_local, gen_k_local_generators: two
   generators that share a `Used` object), as tools/py2coq.py generates it from /repo's working tree on every run of C17, is the hand-written
   model Model/Parser.v (k_local, k_local_generators) about which Theory/ParserT.v proves the C17 clause "expanding a generator list to n qubits
   yields exactly the distinct translates of each generator, each once, in order". *)
From PauLie Require Import Pauli Parser ParserT.
From PauLieRefine Require Import PySem.
From PauLieGen Require Import FactoryGen.
From Coq Require Import Lia ZifyBool.
Open Scope Z_scope.

Lemma mem_b_memL x l : mem_b pstr_eqb x l = memL x l.
Proof. reflexivity. Qed.

(* the loop of gen_k_local from translate k on: cnt more translates *)
Lemma k_local_loop (n : nat) (p : pstr) : forall cnt k out used, (k + cnt = n - length p + 1)%nat -> (length p <= n)%nat ->
  fold_left (fun (o_ : outcome (list pstr * list pstr) (list pstr * list pstr)) (it_ : Z) => seqo o_ (fun '(v_out_, v_used) => let it0_ := it_ in let v_k := it0_ in
     uncont (if 0 <=? v_k then (if 0 <=? (Z.of_nat n - Z.of_nat (length p)) - v_k then
       (let v_left := (identity (Z.to_nat v_k) ++ p) ++ identity (Z.to_nat ((Z.of_nat n - Z.of_nat (length p)) - v_k)) in
        seqo (if mem_b pstr_eqb v_left v_used then Cont (v_out_, v_used) else Next (v_out_, v_used))
             (fun '(v_out_, v_used) => let v_used := v_left :: v_used in let v_out_ := v_out_ ++ [v_left] in Next (v_out_, v_used)))
       else Raised (EUser "ValueError")) else Raised (EUser "ValueError"))))
    (map Z.of_nat (seq k cnt)) (Next (out, used)) =
  Next (snd (k_local n p k cnt used out), fst (k_local n p k cnt used out)).
Proof.
  induction cnt as [|c IH]; intros k out used Hk Hp; [reflexivity|].
  cbn [seq map fold_left seqo k_local]. cbv zeta.
  assert (E1 : (0 <=? Z.of_nat k) = true) by lia. assert (E2 : (0 <=? Z.of_nat n - Z.of_nat (length p) - Z.of_nat k) = true) by lia. rewrite E1, E2.
  rewrite Nat2Z.id. replace (Z.to_nat (Z.of_nat n - Z.of_nat (length p) - Z.of_nat k)) with (n - length p - k)%nat by lia.
  rewrite <- app_assoc. rewrite mem_b_memL. destruct (memL (identity k ++ p ++ identity (n - length p - k)) used); cbn [seqo uncont]; apply IH; lia.
Qed.

Theorem gen_f_gen_k_local (n : nat) (p : pstr) (used : list pstr) :
  py_F_gen_k_local (Z.of_nat n) p used =
  if Nat.ltb n (length p) then FRaised (EUser "ValueError")
  else FRet (snd (k_local n p 0 (n - length p + 1) used []), fst (k_local n p 0 (n - length p + 1) used [])).
Proof.
  unfold py_F_gen_k_local. cbv zeta. destruct (Nat.ltb_spec n (length p)) as [H|H].
  - assert (E : (Z.of_nat n <? Z.of_nat (length p)) = true) by lia. rewrite E. reflexivity.
  - assert (E : (Z.of_nat n <? Z.of_nat (length p)) = false) by lia. rewrite E. cbn [seqo]. cbv beta iota.
    unfold pyrange. replace (Z.to_nat (Z.of_nat n - Z.of_nat (length p) + 1)) with (n - length p + 1)%nat by lia.
    pose proof (k_local_loop n p (n - length p + 1) 0 [] used ltac:(lia) H) as L. cbv beta zeta in L. cbv beta zeta. rewrite L. reflexivity.
Qed.

(* gen_k_local_generators: the generators in order, each through gen_k_local with the shared Used *)
Definition kl_fold (n : nat) (gens : list pstr) (st : list pstr * list pstr) : list pstr * list pstr :=
  fold_left (fun st g => k_local n g 0 (n - length g + 1) (fst st) (snd st)) gens st.

Lemma k_local_out_app n p : forall cnt k used out, snd (k_local n p k cnt used out) = out ++ snd (k_local n p k cnt used []) /\
  fst (k_local n p k cnt used out) = fst (k_local n p k cnt used []).
Proof.
  induction cnt as [|c IH]; intros k used out; cbn [k_local]; [split; [rewrite app_nil_r; reflexivity|reflexivity]|].
  destruct (memL (identity k ++ p ++ identity (n - length p - k)) used); [apply IH|].
  destruct (IH (S k) ((identity k ++ p ++ identity (n - length p - k)) :: used) (out ++ [identity k ++ p ++ identity (n - length p - k)])) as [A1 A2].
  destruct (IH (S k) ((identity k ++ p ++ identity (n - length p - k)) :: used) [identity k ++ p ++ identity (n - length p - k)]) as [B1 B2].
  cbn [app]. rewrite A1, A2, B1, B2. split; [rewrite <- !app_assoc; reflexivity|reflexivity].
Qed.

Lemma kl_loop (n : nat) : forall l out used, (forall g, In g l -> (length g <= n)%nat) ->
  fold_left (fun (o_ : outcome (list pstr * list pstr) (list pstr * list pstr)) (it_ : pstr) => seqo o_ (fun '(v_out_, v_used) => let it0_ := it_ in let v_g := it0_ in
     uncont (bindr (py_F_gen_k_local (Z.of_nat n) v_g v_used) (fun r_ => let v_out_ := v_out_ ++ fst r_ in let v_used := snd r_ in Next (v_out_, v_used)))))
    l (Next (out, used)) = Next (snd (kl_fold n l (used, out)), fst (kl_fold n l (used, out))).
Proof.
  induction l as [|g l IH]; intros out used Hl; [reflexivity|]. cbn [fold_left seqo]. cbv zeta. rewrite gen_f_gen_k_local.
  assert (E : Nat.ltb n (length g) = false) by (apply Nat.ltb_ge; apply Hl; left; reflexivity). rewrite E. cbn [bindr fst snd uncont].
  destruct (k_local_out_app n g (n - length g + 1) 0 used out) as [A1 A2].
  unfold kl_fold. cbn [fold_left fst snd]. rewrite <- A1, <- A2.
  rewrite (IH _ _ (fun x Hx => Hl x (or_intror Hx))). unfold kl_fold.
  destruct (k_local n g 0 (n - length g + 1) used out) as [u o]. reflexivity.
Qed.

Theorem gen_f_gen_k_local_generators (n : nat) (gens used : list pstr) : gens <> [] -> (forall g, In g gens -> (length g <= n)%nat) ->
  py_F_gen_k_local_generators (Z.of_nat n) gens used = FRet (snd (kl_fold n gens (used, [])), fst (kl_fold n gens (used, []))).
Proof.
  intros Hne Hl. unfold py_F_gen_k_local_generators. cbv zeta. destruct gens as [|g0 gs] eqn:EG; [congruence|]. cbn [is_nil negb]. rewrite <- EG in *.
  pose proof (kl_loop n gens [] used Hl) as L. cbv beta zeta in L. cbv beta zeta. rewrite L. reflexivity.
Qed.

(* an empty list of generators: max(...) raises *)
Theorem gen_f_generators_empty n used : py_F_gen_k_local_generators n [] used = FRaised (EUser "ValueError").
Proof. reflexivity. Qed.

(* C17 read on the source: for generators of one length m <= n (what PauliStringCollection(...).get() hands over) the strings yielded are the
   model's k_local_generators, i.e. all translates of all generators, each kept at its first occurrence (Theory/ParserT.klocal_is_dedup_translates) *)
Theorem gen_f_klocal_model (n m : nat) (gens : list pstr) : gens <> [] -> (forall g, In g gens -> length g = m) -> (m <= n)%nat ->
  exists out u, py_F_gen_k_local_generators (Z.of_nat n) gens [] = FRet (out, u) /\ k_local_generators n gens = Ok out.
Proof.
  intros Hne Hm Hmn. eexists. eexists. split; [apply gen_f_gen_k_local_generators; [exact Hne|intros g Hg; rewrite (Hm g Hg); exact Hmn]|].
  unfold k_local_generators. destruct gens as [|g0 gs] eqn:EG; [congruence|]. rewrite <- EG in *.
  assert (EM : maxlenL gens = m).
  { clear -Hm Hne. induction gens as [|g l IH]; [congruence|]. cbn [maxlenL fold_right]. rewrite (Hm g (or_introl eq_refl)).
    destruct l as [|g1 l']; [cbn; lia|]. fold (maxlenL (g1 :: l')). rewrite IH; [lia|discriminate|intros x Hx; apply Hm; right; exact Hx]. }
  rewrite EM. assert (EL : Nat.ltb n m = false) by (apply Nat.ltb_ge; exact Hmn). rewrite EL. f_equal. f_equal. unfold kl_fold.
  assert (G : forall l st, (forall g, In g l -> length g = m) ->
     fold_left (fun st g => k_local n g 0 (n - length g + 1) (fst st) (snd st)) l st =
     fold_left (fun st g => let g' := g ++ identity (m - length g) in k_local n g' 0 (n - m + 1) (fst st) (snd st)) l st).
  { induction l as [|g l IH]; intros st Hl; [reflexivity|]. cbn [fold_left]. cbv zeta. rewrite (Hl g (or_introl eq_refl)), Nat.sub_diag. cbn [identity repeat].
    rewrite app_nil_r. apply IH. intros x Hx. apply Hl. right. exact Hx. }
  symmetry. apply G. exact Hm.
Qed.

Theorem gen_f_klocal_translates (n m : nat) (gens : list pstr) : gens <> [] -> (forall g, In g gens -> length g = m) -> (m <= n)%nat ->
  exists u, py_F_gen_k_local_generators (Z.of_nat n) gens [] =
    FRet (snd (fold_left add_new (flat_map (fun g => translates_of n (padL (maxlenL gens) g)) gens) ([], [])), u).
Proof.
  intros Hne Hm Hmn. destruct (gen_f_klocal_model n m gens Hne Hm Hmn) as [out [u [H1 H2]]]. exists u. rewrite H1. f_equal. f_equal.
  assert (EM : (maxlenL gens <= n)%nat).
  { clear -Hm Hmn. induction gens as [|g l IH]; [cbn; lia|]. cbn [maxlenL fold_right]. rewrite (Hm g (or_introl eq_refl)). fold (maxlenL l).
    specialize (IH (fun x Hx => Hm x (or_intror Hx))). lia. }
  rewrite (klocal_is_dedup_translates n gens Hne EM) in H2. injection H2 as <-. reflexivity.
Qed.

(* non-vacuity *)
Example gen_factory_runs :
  py_F_gen_k_local_generators 3 [[PX;PY]; [PZ;PZ]; [PX;PY]] [] =
    FRet ([[PX;PY;PI]; [PI;PX;PY]; [PZ;PZ;PI]; [PI;PZ;PZ]], [[PI;PZ;PZ]; [PZ;PZ;PI]; [PI;PX;PY]; [PX;PY;PI]]) /\
  py_F_gen_k_local 1 [PX;PY] [] = FRaised (EUser "ValueError") /\
  py_F_gen_k_local_generators 4 [] [] = FRaised (EUser "ValueError").
Proof. repeat split; vm_compute; reflexivity. Qed.

Print Assumptions gen_f_gen_k_local.
Print Assumptions gen_f_gen_k_local_generators.
Print Assumptions gen_f_generators_empty.
Print Assumptions gen_f_klocal_model.
Print Assumptions gen_f_klocal_translates.
Print Assumptions gen_factory_runs.
