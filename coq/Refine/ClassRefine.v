(* Refine/ClassRefine.v — the functions that tools/py2coq.py generates from src/paulie/classifier/classification.py
   (on every run, from /repo's working tree) are equal to the hand-written model Model/Star.v that the property
   theorems are about.  A change of the source changes the generated terms and these proofs are re-checked. *)
From PauLie Require Import Star StarT.
From PauLieRefine Require Import PySem.
From PauLieGen Require Import ClassGen.
From Coq Require Import Lia ZifyBool.
Open Scope Z_scope.

Definition cexn : exn := EUser "ClassificatonException".
Definition lift {A B} (f : A -> B) (c : cres A) : fres B :=
  match c with COk a => FRet (f a) | ClassErr => FRaised cexn end.
Definition tg (t : tgraph) : TypeGraph :=
  match t with TA => TypeGraph_A | TB1 => TypeGraph_B1 | TB2 => TypeGraph_B2 | TB3 => TypeGraph_B3 | TNONE => TypeGraph_NONE end.
Definition ta (t : talg) : TypeAlgebra :=
  match t with AU => TypeAlgebra_U | ASU => TypeAlgebra_SU | ASP => TypeAlgebra_SP | ASO => TypeAlgebra_SO end.

Lemma census_nonneg : forall l one two long a b c, census l one two long = COk (a, b, c) ->
  0 <= one -> 0 <= two -> 0 <= long -> 0 <= a /\ 0 <= b /\ 0 <= c.
Proof.
  induction l as [|x l IH]; intros one two long a b c E H1 H2 H3; cbn [census] in E.
  - injection E as <- <- <-. auto.
  - destruct (x =? 1)%nat; [apply (IH _ _ _ _ _ _ E); lia|].
    destruct (x =? 2)%nat; [apply (IH _ _ _ _ _ _ E); lia|].
    destruct (2 <? x)%nat; [|apply (IH _ _ _ _ _ _ E); lia].
    destruct (0 <? long); [discriminate|apply (IH _ _ _ _ _ _ E); lia].
Qed.
Lemma counts_nonneg legs a b c : counts legs = COk (a, b, c) -> 0 <= a /\ 0 <= b /\ 0 <= c.
Proof.
  unfold counts, counts_gen. destruct (census (tl legs) 0 0 0) as [[[one two] long]|] eqn:E; [|discriminate].
  apply census_nonneg in E; try lia. intros H. unfold adjust in H.
  repeat match type of H with context [if ?b then _ else _] => destruct b end; injection H as <- <- <-; lia.
Qed.
Lemma get_properties_nonneg legs t a b c : get_properties_gen true legs = COk (t, a, b, c) -> 0 <= a /\ 0 <= b /\ 0 <= c.
Proof.
  unfold get_properties_gen. destruct legs as [|x [|y l]]; [discriminate|intros H; injection H as <- <- <- <-; lia|].
  fold counts. destruct (counts (x :: y :: l)) as [[[one two] long]|] eqn:E; [|discriminate]. apply counts_nonneg in E.
  intros H. repeat match type of H with context [if ?b then _ else _] => destruct b end; try discriminate; injection H as <- <- <- <-; exact E.
Qed.

(* ---- dictionaries and keys of Classification.get_algebra ---- *)
Lemma tok_eqb_eq a b : tok_eqb a b = true <-> a = b.
Proof.
  destruct a as [x|x], b as [y|y]; cbn; try (split; [discriminate|intros H; discriminate H]).
  - rewrite String.eqb_eq. split; [intros ->; reflexivity|intros H; injection H; auto].
  - rewrite Z.eqb_eq. split; [intros ->; reflexivity|intros H; injection H; auto].
Qed.
Lemma pystr_eqb_eq : forall a b, pystr_eqb a b = true <-> a = b.
Proof.
  induction a as [|x a IH]; destruct b as [|y b]; cbn; try (split; [discriminate|intros H; discriminate H]); [split; reflexivity|].
  rewrite andb_true_iff, tok_eqb_eq, IH. split; [intros [-> ->]; reflexivity|intros H; injection H; auto].
Qed.
Lemma pystr_eqb_refl a : pystr_eqb a a = true.
Proof. apply pystr_eqb_eq. reflexivity. Qed.
Lemma dict_get_set {A} (d : list (pystr * A)) k v k' :
  dict_get (dict_set d k v) k' = if pystr_eqb k k' then Some v else dict_get d k'.
Proof.
  induction d as [|[k0 v0] d IH]; cbn [dict_set dict_get].
  - destruct (pystr_eqb k k'); reflexivity.
  - destruct (pystr_eqb k0 k) eqn:E0; cbn [dict_get].
    + apply pystr_eqb_eq in E0. subst k0. destruct (pystr_eqb k k'); reflexivity.
    + rewrite IH. destruct (pystr_eqb k0 k') eqn:E1; [|reflexivity].
      destruct (pystr_eqb k k') eqn:E2; [|reflexivity]. apply pystr_eqb_eq in E1, E2. subst. rewrite pystr_eqb_refl in E0. discriminate.
Qed.

Definition prefix (t : talg) : string := match t with AU => "u(" | ASU => "su(" | ASP => "sp(" | ASO => "so(" end.
Definition key (t : talg) (size : Z) : pystr := [TS (prefix t); TZ size; TS ")"].
Lemma key_inj t size t' size' : key t size = key t' size' -> t = t' /\ size = size'.
Proof. unfold key. intros H. injection H as H1 H2. split; [destruct t, t'; try reflexivity; discriminate H1|exact H2]. Qed.
(* d[k] = v if k is new, d[k] += v otherwise *)
Definition dict_add (d : list (pystr * Z)) (k : pystr) (v : Z) : list (pystr * Z) :=
  match dict_get d k with Some cur => dict_set d k (cur + v) | None => dict_set d k v end.
Definition dict_val (d : list (pystr * Z)) (k : pystr) : Z := match dict_get d k with Some v => v | None => 0 end.
Lemma dict_val_add d k v k' : dict_val (dict_add d k v) k' = if pystr_eqb k k' then dict_val d k + v else dict_val d k'.
Proof.
  unfold dict_val, dict_add. destruct (dict_get d k) as [cur|] eqn:E; rewrite dict_get_set; destruct (pystr_eqb k k'); try reflexivity.
Qed.
(* the dictionary get_algebra builds from the terms ((type, size), 2*multiplicity) of the model, in order *)
Definition merge_from (d : list (pystr * Z)) (terms : list (talg * Z * Z)) : list (pystr * Z) :=
  fold_left (fun d '(t, size, m2) => dict_add d (key t size) (m2 / 2)) terms d.
Definition merge := merge_from [].
Definition talg_eqb (a b : talg) : bool := match a, b with AU, AU | ASU, ASU | ASP, ASP | ASO, ASO => true | _, _ => false end.
(* total doubled multiplicity of the summand (t, size) among the terms *)
Definition count2 (terms : list (talg * Z * Z)) (t : talg) (size : Z) : Z :=
  fold_right (fun '(t', size', m2) acc => if talg_eqb t' t && (size' =? size) then m2 + acc else acc) 0 terms.
Lemma key_eqb t size t' size' : pystr_eqb (key t size) (key t' size') = talg_eqb t t' && (size =? size').
Proof.
  destruct (pystr_eqb (key t size) (key t' size')) eqn:E.
  - apply pystr_eqb_eq, key_inj in E. destruct E as [-> ->]. rewrite Z.eqb_refl. destruct t'; reflexivity.
  - symmetry. apply not_true_iff_false. intros H. apply andb_true_iff in H. destruct H as [H1 H2]. apply Z.eqb_eq in H2. subst size'.
    assert (t = t') by (destruct t, t'; try reflexivity; discriminate H1). subst t'. rewrite pystr_eqb_refl in E. discriminate.
Qed.
Theorem merge_counts : forall terms d t size, Forall (fun '(_, _, m2) => m2 mod 2 = 0) terms ->
  2 * dict_val (merge_from d terms) (key t size) = 2 * dict_val d (key t size) + count2 terms t size.
Proof.
  induction terms as [|[[t' size'] m2] terms IH]; intros d t size HF; [cbn; lia|].
  inversion HF as [|? ? Hev HF']; subst. unfold merge_from. cbn [fold_left count2 fold_right]. fold (merge_from (dict_add d (key t' size') (m2 / 2)) terms). fold (count2 terms t size).
  rewrite (IH _ t size HF'), dict_val_add, key_eqb. destruct (talg_eqb t' t && (size' =? size)) eqn:E; [|reflexivity].
  apply andb_true_iff in E. destruct E as [E1 E2]. apply Z.eqb_eq in E2. subst size'. assert (t' = t) by (destruct t, t'; try reflexivity; discriminate E1). subst t'.
  assert (m2 = 2 * (m2 / 2)) by (rewrite (Z.div_mod m2 2) at 1 by lia; lia). lia.
Qed.

Section Refine.
Context {V : Type}.
Notation lens := (map (@length V)).

Lemma zlen1 n : (Z.of_nat n =? 1) = (n =? 1)%nat.
Proof. destruct (Nat.eqb_spec n 1); [apply Z.eqb_eq|apply Z.eqb_neq]; lia. Qed.
Lemma zlen2 n : (Z.of_nat n =? 2) = (n =? 2)%nat.
Proof. destruct (Nat.eqb_spec n 2); [apply Z.eqb_eq|apply Z.eqb_neq]; lia. Qed.
Lemma zlen_gt2 n : (Z.of_nat n >? 2) = (2 <? n)%nat.
Proof. rewrite Z.gtb_ltb. destruct (Nat.ltb_spec 2 n); [apply Z.ltb_lt|apply Z.ltb_ge]; lia. Qed.
Lemma zgt0 x : (x >? 0) = (0 <? x).
Proof. apply Z.gtb_ltb. Qed.

Ltac run_ifs := repeat (match goal with |- context [seqo (if ?b then _ else _) _] => destruct b eqn:? end; cbn [seqo uncont]).
Ltac norm := rewrite ?zlen1, ?zlen2, ?zlen_gt2, ?zgt0, ?Z.geb_leb.
Ltac split_ifs := repeat (norm; match goal with |- context [if ?b then _ else _] => destruct b eqn:?; cbv beta iota zeta end).

Theorem gen_counts (legs : list (list V)) : py_Morph_counts legs = lift (fun c => c) (counts (lens legs)).
Proof.
  unfold py_Morph_counts, counts, counts_gen, enumerate. destruct legs as [|c l]; [reflexivity|].
  cbv zeta. match goal with |- context [fold_left ?f _ _] => set (F := f) end.
  cbn [length seq map combine tl fold_left].
  assert (Fr : forall l' e, fold_left F l' (Raised e) = Raised e).
  { induction l' as [|x l' IHl]; intros e; [reflexivity|]. cbn [fold_left]. change (F (Raised e) x) with (@Raised (Z * Z * Z * Z * list V) (Z * Z * Z) e). apply IHl. }
  assert (L : forall (l : list (list V)) k one two long i leg, (1 <= k)%nat -> 0 <= long ->
     exists i' leg', fold_left F (combine (map Z.of_nat (seq k (length l))) l) (Next (one, two, long, i, leg)) =
       match census (lens l) one two long with COk (a, b, c) => Next (a, b, c, i', leg') | ClassErr => Raised cexn end
     /\ (forall a b c, census (lens l) one two long = COk (a, b, c) -> 0 <= c)).
  { clear - Fr. induction l as [|a l IH]; intros k one two long i leg Hk Hl.
    - exists i, leg. cbn. split; [reflexivity|]. intros a b c E. injection E as <- <- <-. exact Hl.
    - cbn [length seq map combine fold_left census].
      assert (Hk0 : (Z.of_nat k =? 0) = false) by (apply Z.eqb_neq; lia).
      assert (S : F (Next (one, two, long, i, leg)) (Z.of_nat k, a) =
        if (Z.of_nat (length a) =? 1) then Next (one + 1, two, long, Z.of_nat k, a)
        else if (Z.of_nat (length a) =? 2) then Next (one, two + 1, long, Z.of_nat k, a)
        else if (Z.of_nat (length a) >? 2) then (if long >? 0 then Raised cexn else Next (one, two, long + Z.of_nat (length a), Z.of_nat k, a))
        else Next (one, two, long, Z.of_nat k, a)).
      { clear IH Fr. subst F. cbv beta. cbn [seqo uncont]. rewrite Hk0. cbn [seqo uncont].
        repeat (match goal with |- context [seqo (if ?b then _ else _) _] => destruct b eqn:? end; cbn [seqo uncont]).
        all: first [reflexivity | exfalso; lia]. }
      rewrite zlen1, zlen2, zlen_gt2, zgt0 in S.
      rewrite S. clear S.
      destruct (length a =? 1)%nat; [apply IH; [lia|exact Hl]|].
      destruct (length a =? 2)%nat; [apply IH; [lia|exact Hl]|].
      destruct (2 <? length a)%nat; [|apply IH; [lia|exact Hl]].
      destruct (0 <? long) eqn:E0; [|apply IH; lia].
      exists i, leg. rewrite Fr. split; [reflexivity|discriminate]. }
  match goal with |- context [fold_left F ?l (F ?s ?x)] => change (F s x) with (@Next (Z * Z * Z * Z * list V) (Z * Z * Z) (0, 0, 0, 0, c)) end. destruct (L l 1%nat 0 0 0 0 c (le_n _) (Z.le_refl _)) as [i' [leg' [E _]]]. rewrite E. clear E L Fr F.
  destruct (census (lens l) 0 0 0) as [[[one two] long]|]; [|reflexivity].
  unfold adjust, lift. cbv beta iota zeta delta [seqo finish unloop].
  split_ifs; try reflexivity; try (exfalso; lia).
Qed.

Theorem gen_get_properties (legs : list (list V)) :
  py_Morph_get_properties legs = lift (fun '(t, a, b, c) => (tg t, a, b, c)) (get_properties_gen true (lens legs)).
Proof.
  unfold py_Morph_get_properties, py_Morph_is_empty, py_Morph_is_empty_legs, get_properties_gen.
  destruct legs as [|c [|d l]]; [reflexivity|reflexivity|].
  assert (E0 : (Z.of_nat (length (c :: d :: l)) =? 0) = false) by (cbn [length]; lia).
  assert (E1 : (Z.of_nat (length (c :: d :: l)) =? 1) = false) by (cbn [length]; lia).
  cbv zeta. rewrite E0, E1. cbn [seqo]. rewrite gen_counts. cbn [map]. fold counts.
  destruct (counts _) as [[[one two] long]|]; [|reflexivity]. cbn [lift bindr].
  run_ifs; reflexivity.
Qed.

Theorem gen_algprops (legs : list (list V)) :
  py_Morph_get_algebra_properties legs = lift (fun '(t, nc, size) => (ta t, nc, size)) (algprops (lens legs)).
Proof.
  unfold py_Morph_get_algebra_properties, algprops, algprops_gen. cbv zeta. rewrite gen_get_properties.
  destruct (get_properties_gen true (lens legs)) as [[[[t one] two] long]|] eqn:E; [|reflexivity].
  apply get_properties_nonneg in E. cbn [lift bindr].
  assert (G0 : (0 <=? two) = true) by lia. assert (G2 : (0 <=? two + 2) = true) by lia. assert (G3 : (0 <=? two + 3) = true) by lia.
  destruct t; cbn [tg TypeGraph_eqb seqo]; rewrite ?G0, ?G2, ?G3; reflexivity.
Qed.

Theorem gen_dla_dim (ms : list (list (list V))) : Forall nc_ok (map lens ms) ->
  py_Classification_get_dla_dim ms = lift (fun d => d) (dla_dim (map lens ms)).
Proof.
  unfold py_Classification_get_dla_dim. cbv zeta. match goal with |- context [fold_left ?f _ _] => set (F := f) end.
  assert (Fr : forall l' e, fold_left F l' (Raised e) = Raised e).
  { induction l' as [|x l' IHl]; intros e; [reflexivity|]. cbn [fold_left]. change (F (Raised e) x) with (@Raised (Z * list (list V) * TypeAlgebra * Z * Z * Z) Z e). apply IHl. }
  assert (L : forall (ms : list (list (list V))) d m0 t0 nc0 n0 c0, Forall nc_ok (map lens ms) ->
     exists m1 t1 nc1 n1 c1, fold_left F ms (Next (d, m0, t0, nc0, n0, c0)) =
       match dla_dim (map lens ms) with COk s => Next (d + s, m1, t1, nc1, n1, c1) | ClassErr => Raised cexn end).
  { clear - Fr. induction ms as [|m ms IH]; intros d m0 t0 nc0 n0 c0 HF.
    - exists m0, t0, nc0, n0, c0. cbn. rewrite Z.add_0_r. reflexivity.
    - cbn [map] in HF. inversion HF as [|? ? Hok HF']; subst. cbn [fold_left map]. unfold nc_ok in Hok.
      assert (S : F (Next (d, m0, t0, nc0, n0, c0)) m =
        match algprops (lens m) with COk (t, nc, size) => Next (d + copies nc * dim_of t size, m, ta t, nc, size, copies nc) | ClassErr => Raised cexn end).
      { clear IH Fr. subst F. cbv beta. cbn [seqo uncont]. rewrite gen_algprops.
        destruct (algprops (lens m)) as [[[t nc] size]|]; [|reflexivity]. cbn [lift bindr].
        assert (G : ((nc =? 1) || (0 <=? nc - 1)) = true) by lia. rewrite G. unfold copies.
        destruct t; cbn [ta TypeAlgebra_eqb seqo uncont dim_of]; unfold dim_su, dim_so, dim_sp; rewrite ?Z.pow_2_r; repeat f_equal; try ring.
        all: destruct (nc =? 1) eqn:E1; lia. }
      rewrite S. clear S. unfold dla_dim. cbn [fold_right]. fold (dla_dim (map lens ms)).
      destruct (algprops (lens m)) as [[[t nc] size]|].
      + destruct (IH (d + copies nc * dim_of t size) m (ta t) nc size (copies nc) HF') as [m1 [t1 [nc1 [n1 [c1 E]]]]].
        exists m1, t1, nc1, n1, c1. rewrite E. destruct (dla_dim (map lens ms)) as [s|]; [|reflexivity]. replace (d + (s + copies nc * dim_of t size)) with (d + copies nc * dim_of t size + s) by ring. reflexivity.
      + exists m0, t0, nc0, n0, c0. rewrite Fr. destruct (dla_dim (map lens ms)); reflexivity. }
  intros HF. destruct (L ms 0 [] TypeAlgebra_U 0 0 0 HF) as [m1 [t1 [nc1 [n1 [c1 E]]]]]. rewrite E.
  destruct (dla_dim (map lens ms)) as [s|]; reflexivity.
Qed.

Lemma copies_gen nc : (if nc =? 1 then nc else 2 ^ (nc - 1)) = copies nc.
Proof. unfold copies. destruct (Z.eqb_spec nc 1) as [->|]; reflexivity. Qed.
Lemma mult2_half nc : 1 <= nc -> mult2 nc / 2 = copies nc.
Proof. intros H. rewrite <- (copies_mult2 nc H), Z.mul_comm. apply Z.div_mul. lia. Qed.

(* get_algebra: the dictionary (summand name -> multiplicity, insertion order) is the model's term list merged by name *)
Theorem gen_get_algebra (ms : list (list (list V))) : Forall nc_ok (map lens ms) ->
  py_Classification_get_algebra ms = lift merge (algebra_terms (map lens ms)).
Proof.
  unfold py_Classification_get_algebra. cbv zeta. match goal with |- context [fold_left ?f _ _] => set (F := f) end.
  assert (Fr : forall l' e, fold_left F l' (Raised e) = Raised e).
  { induction l' as [|x l' IHl]; intros e; [reflexivity|]. cbn [fold_left].
    change (F (Raised e) x) with (@Raised (list (pystr * Z) * list (list V) * TypeAlgebra * Z * Z * pystr) (list (pystr * Z)) e). apply IHl. }
  assert (L : forall (ms : list (list (list V))) d m0 t0 nc0 n0 a0, Forall nc_ok (map lens ms) ->
     exists m1 t1 nc1 n1 a1, fold_left F ms (Next (d, m0, t0, nc0, n0, a0)) =
       match algebra_terms (map lens ms) with COk terms => Next (merge_from d terms, m1, t1, nc1, n1, a1) | ClassErr => Raised cexn end).
  { clear - Fr. induction ms as [|m ms IH]; intros d m0 t0 nc0 n0 a0 HF.
    - exists m0, t0, nc0, n0, a0. reflexivity.
    - cbn [map] in HF. inversion HF as [|? ? Hok HF']; subst. cbn [fold_left map]. unfold nc_ok in Hok.
      assert (S : F (Next (d, m0, t0, nc0, n0, a0)) m =
        match algprops (lens m) with COk (t, nc, size) => Next (dict_add d (key t size) (copies nc), m, ta t, nc, size, key t size) | ClassErr => Raised cexn end).
      { clear IH Fr. subst F. cbv beta. cbn [seqo uncont]. rewrite gen_algprops.
        destruct (algprops (lens m)) as [[[t nc] size]|]; [|reflexivity]. cbn [lift bindr].
        assert (G : ((nc =? 1) || (0 <=? nc - 1)) = true) by lia.
        destruct t; cbn [ta TypeAlgebra_eqb seqo uncont]; unfold dict_mem, dict_add, key, prefix;
          match goal with |- context [dict_get d ?k] => destruct (dict_get d k) end; cbn [seqo uncont]; rewrite G, copies_gen; reflexivity. }
      rewrite S. clear S. unfold algebra_terms. cbn [fold_right]. fold (algebra_terms (map lens ms)).
      destruct (algprops (lens m)) as [[[t nc] size]|].
      + destruct (IH (dict_add d (key t size) (copies nc)) m (ta t) nc size (key t size) HF') as [m1 [t1 [nc1 [n1 [a1 E]]]]].
        exists m1, t1, nc1, n1, a1. refine (eq_trans E _). destruct (algebra_terms (map lens ms)) as [terms|]; [|reflexivity].
        unfold merge_from at 2. cbn [fold_left]. rewrite (mult2_half nc Hok). reflexivity.
      + exists m0, t0, nc0, n0, a0. rewrite Fr. destruct (algebra_terms (map lens ms)); reflexivity. }
  intros HF. destruct (L ms [] [] TypeAlgebra_U 0 0 [] HF) as [m1 [t1 [nc1 [n1 [a1 E]]]]]. unfold pystr in *. rewrite E.
  destruct (algebra_terms (map lens ms)) as [terms|]; reflexivity.
Qed.

Lemma terms_even : forall morphs terms, Forall nc_ok morphs -> algebra_terms morphs = COk terms ->
  Forall (fun '(_, _, m2) => m2 mod 2 = 0) terms.
Proof.
  induction morphs as [|legs morphs IH]; intros terms HF HT.
  - cbn in HT. injection HT as <-. constructor.
  - inversion HF as [|? ? Hok HF']; subst. unfold algebra_terms in HT. cbn [fold_right] in HT. fold (algebra_terms morphs) in HT.
    destruct (algebra_terms morphs) as [l|]; [|discriminate]. unfold nc_ok in Hok.
    destruct (algprops legs) as [[[t nc] size]|]; [|discriminate]. injection HT as <-. constructor; [|apply IH; [exact HF'|reflexivity]].
    unfold mult2. replace nc with (Z.succ (nc - 1)) by lia. rewrite Z.pow_succ_r by lia. rewrite Z.mul_comm. apply Z.mod_mul. lia.
Qed.

(* what the translated get_algebra returns, read as a multiset of summands: the multiplicity stored under the name of
   (t, size) is the total multiplicity of that summand among the canonical graphs *)
Theorem gen_get_algebra_counts (ms : list (list (list V))) d : Forall nc_ok (map lens ms) ->
  py_Classification_get_algebra ms = FRet d ->
  exists terms, algebra_terms (map lens ms) = COk terms /\ forall t size, 2 * dict_val d (key t size) = count2 terms t size.
Proof.
  intros HF H. rewrite (gen_get_algebra ms HF) in H. destruct (algebra_terms (map lens ms)) as [terms|] eqn:E; [|discriminate].
  exists terms. split; [reflexivity|]. intros t size. cbn [lift] in H. injection H as <-.
  unfold merge. rewrite (merge_counts terms [] t size (terms_even _ _ HF E)). reflexivity.
Qed.
Lemma terms_err_dim_err : forall l, algebra_terms l = ClassErr -> dla_dim l = ClassErr.
Proof.
  induction l as [|x l IH]; [discriminate|]. unfold algebra_terms, dla_dim. cbn [fold_right]. fold (algebra_terms l). fold (dla_dim l).
  destruct (algebra_terms l) as [ts|].
  - destruct (algprops x) as [[[t nc] size]|]; [discriminate|]. intros _. destruct (dla_dim l); reflexivity.
  - intros _. rewrite (IH eq_refl). reflexivity.
Qed.
(* the translated get_dla_dim is the dimension of what the translated get_algebra names *)
Theorem gen_dim_of_name (ms : list (list (list V))) dim : Forall nc_ok (map lens ms) ->
  py_Classification_get_dla_dim ms = FRet dim ->
  exists terms, py_Classification_get_algebra ms = FRet (merge terms) /\ 2 * dim = name_dim2 terms.
Proof.
  intros HF H. rewrite (gen_dla_dim ms HF) in H. rewrite (gen_get_algebra ms HF).
  destruct (dla_dim (map lens ms)) as [d'|] eqn:ED; [|discriminate]. cbn [lift] in H. injection H as <-.
  destruct (algebra_terms (map lens ms)) as [terms|] eqn:ET.
  - exists terms. split; [reflexivity|]. apply (dla_dim_is_name_dim _ _ _ HF ET ED).
  - exfalso. rewrite (terms_err_dim_err _ ET) in ED. discriminate.
Qed.
End Refine.

(* non-vacuity: a concrete collection of canonical graphs meets the hypothesis and the translated code runs on it *)
Example gen_runs : let ms := [[[tt]; [tt]; [tt]; [tt; tt]; [tt; tt]]; [[tt]]; [[tt]; [tt]; [tt; tt; tt]]] in
  Forall nc_ok (map (map (@length unit)) ms) /\ py_Classification_get_dla_dim ms = FRet 88 /\
  py_Classification_get_algebra ms = FRet [(key ASP 4, 2); (key AU 1, 1); (key ASO 6, 1)].
Proof.
  cbv zeta. split; [|split; vm_compute; reflexivity]. cbn [map].
  repeat (apply Forall_cons; [vm_compute; discriminate|]). apply Forall_nil.
Qed.

(* outside the hypothesis: a centre with one long leg and no single leg has nc = 0; the source then computes 2**(-1) = 0.5
   (Python prints 0.5*so(6), dimension 7.5); the translated code stops with NonInt.  MorphFactory never builds such a graph. *)
Example gen_nonint : py_Classification_get_dla_dim [[[tt]; [tt; tt; tt]]] = FNonInt /\ ~ nc_ok [1%nat; 3%nat].
Proof. split; [vm_compute; reflexivity|]. vm_compute. intros H. apply H. reflexivity. Qed.

Print Assumptions gen_counts.
Print Assumptions gen_get_properties.
Print Assumptions gen_algprops.
Print Assumptions gen_dla_dim.
Print Assumptions gen_get_algebra.
Print Assumptions gen_get_algebra_counts.
Print Assumptions gen_dim_of_name.
Print Assumptions gen_runs.
Print Assumptions gen_nonint.
