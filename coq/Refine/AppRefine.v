(* Refine/AppRefine.v — the graph and orbit applications that tools/py2coq.py generates from common/get_graph.py, application/otoc.py,
   fourpoint.py, charges.py and from the read-only graph methods of PauliStringCollection / PauliString (get_size, get_pair,
   get_anticommutation_pair, get_anticommutation_fraction, get_commutants, get_graph, get_commutator_graph; PauliString.get_commutants)
   are equal to the hand-written models Model/Graph.v and Model/Orbit.v about which the C14 and C15 theorems are stated. *)
From PauLie Require Import Pauli PauliBits Collection Graph Sym Orbit MatrixT ParserT CollectionT GraphT GenAllT SymT OrbitT OtocLoopT.
From PauLieRefine Require Import PySem.
From PauLieGen Require Import AppGen.
From Coq Require Import Lia ZifyBool.
Open Scope Z_scope.

Definition verr : exn := EUser "ValueError".
Lemma commutes_ok p q : length p = length q -> commutes_code p q = Ok (negb (anti_l p q)).
Proof. apply commutes_code_ok. Qed.
Lemma adjoint_ok p q : length p = length q -> adjoint_code p q = Ok (if anti_l p q then Some (smul p q) else None).
Proof. apply adjoint_code_ok. Qed.

(* ---------- PauliString.get_commutants() with no search list: the strings of the same length that commute with it ---------- *)
Theorem gen_a_ps_commutants p :
  py_A_PS_get_commutants_all p = FRet (filter (fun g => negb (anti_l p g)) (all_strs (length p))).
Proof.
  unfold py_A_PS_get_commutants_all. cbv zeta. rewrite gen_all_is_all_strs.
  assert (G : forallb (fun g => res_ok (commutes_code p g)) (all_strs (length p)) = true).
  { apply forallb_forall. intros g Hg. apply all_strs_In in Hg. rewrite commutes_ok by congruence. reflexivity. }
  rewrite G. cbn [finish]. f_equal. apply filter_ext_in. intros g Hg. apply all_strs_In in Hg. rewrite commutes_ok by congruence. reflexivity.
Qed.

(* ---------- get_size, get_pair ---------- *)
Theorem gen_a_size G : py_A_C_get_size G = FRet (Z.of_nat (match G with [] => 0%nat | g :: _ => length g end)).
Proof. destruct G as [|g t]; reflexivity. Qed.

Theorem gen_a_pair G : py_A_C_get_pair G = Z.of_nat (pair_count G).
Proof.
  unfold py_A_C_get_pair, pair_count. generalize (length G) as k. intros k. rewrite Nat2Z.inj_div, Nat2Z.inj_mul. destruct k as [|k]; [reflexivity|].
  replace (Z.of_nat (S k - 1)) with (Z.of_nat (S k) - 1) by lia. reflexivity.
Qed.

(* ---------- common/get_graph.py ---------- *)
Definition edge_pairs (es : list (pstr * pstr * pstr)) : list (pstr * pstr) := map (fun e => (fst (fst e), snd (fst e))) es.
Definition pair_eqb (a b : pstr * pstr) : bool := pstr_eqb (fst a) (fst b) && pstr_eqb (snd a) (snd b).
(* the dictionary of edge labels: one store per edge, in order (a later edge with the same end points overwrites the label in place) *)
Definition label_dict (es : list (pstr * pstr * pstr)) (d : list (pstr * pstr * pstr)) : list (pstr * pstr * pstr) :=
  fold_left (fun d e => kdict_set pair_eqb d (fst (fst e), snd (fst e)) (snd e)) es d.
Definition edge_of (filt : list pstr) (ab : pstr * pstr) : list (pstr * pstr * pstr) :=
  let (a, b) := ab in if anti_l a b && (match filt with [] => true | _ => memG (smul a b) filt end) then [(a, b, smul a b)] else [].
Lemma graph_edges_flat gens filt : graph_edges gens filt = flat_map (edge_of filt) (pairs_of gens).
Proof. unfold graph_edges. apply flat_map_ext. intros [a b]. reflexivity. Qed.

Lemma anti_nonempty a b : anti_l a b = true -> Nat.eqb (length (smul a b)) 0 = false.
Proof. destruct a as [|x a], b as [|y b]; cbn; try discriminate; reflexivity. Qed.
Lemma filt_test (F : list pstr) c : ((Z.of_nat (length F) =? 0) || memS c F) = match F with [] => true | _ => memG c F end.
Proof. destruct F as [|f F]; [reflexivity|]. cbn [length]. replace (Z.of_nat (S (length F)) =? 0) with false by lia. reflexivity. Qed.

Definition pairs_len (n : nat) (ps : list (pstr * pstr)) : Prop := forall a b, In (a, b) ps -> length a = n /\ length b = n.
Lemma pairs_of_len n G : all_len n G -> pairs_len n (pairs_of G).
Proof. intros H a b Hab. apply pairs_of_spec in Hab. destruct Hab as [i [j [_ [Hi Hj]]]]. split; apply H; eapply nth_error_In; eassumption. Qed.

Theorem gen_a_get_graph_labels n G F : all_len n G ->
  py_A_get_graph_labels G F = FRet (G, edge_pairs (graph_edges G F), label_dict (graph_edges G F) []).
Proof.
  intros HG. unfold py_A_get_graph_labels. cbv zeta.
  assert (E0 : forall (X : list pstr), (if negb (negb (match F with [] => true | _ => false end)) then @nil pstr else F) = F) by (intros; destruct F; reflexivity).
  match goal with |- context [fold_left ?f (pairs_of G) _] => set (L := f) end.
  assert (Lp : forall ps V D E a0 b0 c0, pairs_len n ps -> exists a1 b1 c1,
     fold_left L ps (Next (F, V, D, E, a0, b0, c0)) = Next (F, V, label_dict (flat_map (edge_of F) ps) D, E ++ edge_pairs (flat_map (edge_of F) ps), a1, b1, c1)).
  { induction ps as [|[a b] ps IH]; intros V D E a0 b0 c0 Hp; [exists a0, b0, c0; cbn; rewrite app_nil_r; reflexivity|].
    cbn [fold_left flat_map]. destruct (Hp a b (or_introl eq_refl)) as [Ha Hb].
    assert (St : L (Next (F, V, D, E, a0, b0, c0)) (a, b) =
       Next (F, V, label_dict (edge_of F (a, b)) D, E ++ edge_pairs (edge_of F (a, b)), a, b, if anti_l a b then Some (smul a b) else None)).
    { subst L. cbv beta iota. cbn [seqo uncont]. rewrite adjoint_ok by congruence. cbn [res_ok res_val].
      unfold edge_of. destruct (anti_l a b) eqn:EA; cbn [opt_truthy unopt andb].
      - rewrite (anti_nonempty a b EA). cbn [negb andb]. rewrite filt_test.
        destruct (match F with [] => true | _ => memG (smul a b) F end); cbn [seqo uncont label_dict fold_left edge_pairs map fst snd app]; [reflexivity|rewrite app_nil_r; reflexivity].
      - cbn [seqo uncont label_dict fold_left edge_pairs map app]. rewrite app_nil_r. reflexivity. }
    rewrite St. destruct (IH V (label_dict (edge_of F (a, b)) D) (E ++ edge_pairs (edge_of F (a, b))) a b (if anti_l a b then Some (smul a b) else None)) as [a1 [b1 [c1 EI]]].
    { intros x y Hxy. apply Hp. right. exact Hxy. }
    exists a1, b1, c1. rewrite EI. unfold label_dict, edge_pairs. rewrite fold_left_app, map_app, app_assoc. reflexivity. }
  destruct F as [|f F'].
  - cbn [negb seqo]. destruct (Lp (pairs_of G) (map (fun g : pstr => g) G) [] [] [] [] None (pairs_of_len n G HG)) as [a1 [b1 [c1 EL]]].
    rewrite EL. cbn [unloop seqo finish app]. rewrite map_id, graph_edges_flat. reflexivity.
  - cbn [negb seqo]. destruct (Lp (pairs_of G) (map (fun g : pstr => g) G) [] [] [] [] None (pairs_of_len n G HG)) as [a1 [b1 [c1 EL]]].
    rewrite EL. cbn [unloop seqo finish app]. rewrite map_id, graph_edges_flat. reflexivity.
Qed.

Theorem gen_a_get_graph_plain n G F : all_len n G ->
  py_A_get_graph_plain G F = FRet (G, edge_pairs (graph_edges G F)).
Proof.
  intros HG. unfold py_A_get_graph_plain. cbv zeta.
  match goal with |- context [fold_left ?f (pairs_of G) _] => set (L := f) end.
  assert (Lp : forall ps V D E a0 b0 c0, pairs_len n ps -> exists a1 b1 c1,
     fold_left L ps (Next (F, V, D, E, a0, b0, c0)) = Next (F, V, D, E ++ edge_pairs (flat_map (edge_of F) ps), a1, b1, c1)).
  { induction ps as [|[a b] ps IH]; intros V D E a0 b0 c0 Hp; [exists a0, b0, c0; cbn; rewrite app_nil_r; reflexivity|].
    cbn [fold_left flat_map]. destruct (Hp a b (or_introl eq_refl)) as [Ha Hb].
    assert (St : L (Next (F, V, D, E, a0, b0, c0)) (a, b) =
       Next (F, V, D, E ++ edge_pairs (edge_of F (a, b)), a, b, if anti_l a b then Some (smul a b) else None)).
    { subst L. cbv beta iota. cbn [seqo uncont]. rewrite adjoint_ok by congruence. cbn [res_ok res_val].
      unfold edge_of. destruct (anti_l a b) eqn:EA; cbn [opt_truthy unopt andb].
      - rewrite (anti_nonempty a b EA). cbn [negb andb]. rewrite filt_test.
        destruct (match F with [] => true | _ => memG (smul a b) F end); cbn [seqo uncont edge_pairs map fst snd app]; [reflexivity|rewrite app_nil_r; reflexivity].
      - cbn [seqo uncont edge_pairs map app]. rewrite app_nil_r. reflexivity. }
    rewrite St. destruct (IH V D (E ++ edge_pairs (edge_of F (a, b))) a b (if anti_l a b then Some (smul a b) else None)) as [a1 [b1 [c1 EI]]].
    { intros x y Hxy. apply Hp. right. exact Hxy. }
    exists a1, b1, c1. rewrite EI. unfold edge_pairs. rewrite map_app, app_assoc. reflexivity. }
  destruct F as [|f F'].
  - cbn [negb seqo]. destruct (Lp (pairs_of G) (map (fun g : pstr => g) G) [] [] [] [] None (pairs_of_len n G HG)) as [a1 [b1 [c1 EL]]].
    rewrite EL. cbn [unloop seqo finish app]. rewrite map_id, graph_edges_flat. reflexivity.
  - cbn [negb seqo]. destruct (Lp (pairs_of G) (map (fun g : pstr => g) G) [] [] [] [] None (pairs_of_len n G HG)) as [a1 [b1 [c1 EL]]].
    rewrite EL. cbn [unloop seqo finish app]. rewrite map_id, graph_edges_flat. reflexivity.
Qed.

(* ---------- pair counts ---------- *)
Lemma edge_of_nil_count ps : length (flat_map (edge_of []) ps) = length (filter (fun ab => anti_l (fst ab) (snd ab)) ps).
Proof. induction ps as [|[a b] ps IH]; [reflexivity|]. cbn [flat_map filter fst snd edge_of]. rewrite app_length, IH. rewrite andb_true_r. destruct (anti_l a b); reflexivity. Qed.

Theorem gen_a_anticommutation_pair n G : all_len n G ->
  py_A_C_get_anticommutation_pair G = FRet (Z.of_nat (anticommutation_pair G)).
Proof.
  intros HG. unfold py_A_C_get_anticommutation_pair. cbv zeta.
  match goal with |- context [fold_left ?f (pairs_of G) _] => set (L := f) end.
  assert (Lp : forall ps k x0 y0, pairs_len n ps -> exists x1 y1,
     fold_left L ps (Next (k, x0, y0)) = Next (k + Z.of_nat (length (filter (fun ab => anti_l (fst ab) (snd ab)) ps)), x1, y1)).
  { induction ps as [|[a b] ps IH]; intros k x0 y0 Hp; [exists x0, y0; cbn; rewrite Z.add_0_r; reflexivity|].
    cbn [fold_left filter fst snd]. destruct (Hp a b (or_introl eq_refl)) as [Ha Hb].
    assert (St : L (Next (k, x0, y0)) (a, b) = Next (k + (if anti_l a b then 1 else 0), a, b)).
    { subst L. cbv beta iota. cbn [seqo uncont]. rewrite commutes_ok by congruence. cbn [res_ok res_val]. rewrite negb_involutive.
      destruct (anti_l a b); cbn [seqo uncont]; [reflexivity|rewrite Z.add_0_r; reflexivity]. }
    rewrite St. destruct (IH (k + (if anti_l a b then 1 else 0)) a b) as [x1 [y1 EI]]. { intros x y Hxy. apply Hp. right. exact Hxy. }
    exists x1, y1. rewrite EI. destruct (anti_l a b); cbn [length]; repeat (try lia; f_equal). }
  destruct (Lp (pairs_of G) 0 [] [] (pairs_of_len n G HG)) as [x1 [y1 EL]]. rewrite EL. cbn [unloop seqo finish].
  unfold anticommutation_pair. rewrite graph_edges_flat, edge_of_nil_count. reflexivity.
Qed.

Theorem gen_a_anticommutation_fraction n G : all_len n G ->
  py_A_C_get_anticommutation_fraction G =
  if (length G <? 2)%nat then FRaised EZeroDivision else FRet (Z.of_nat (anticommutation_pair G), Z.of_nat (length (pairs_of G))).
Proof.
  intros HG. unfold py_A_C_get_anticommutation_fraction. cbv zeta.
  match goal with |- context [fold_left ?f (pairs_of G) _] => set (L := f) end.
  assert (Lp : forall ps k m x0 y0, pairs_len n ps -> exists x1 y1,
     fold_left L ps (Next (k, m, x0, y0)) = Next (k + Z.of_nat (length (filter (fun ab => anti_l (fst ab) (snd ab)) ps)), m + Z.of_nat (length ps), x1, y1)).
  { induction ps as [|[a b] ps IH]; intros k m x0 y0 Hp; [exists x0, y0; cbn; rewrite !Z.add_0_r; reflexivity|].
    cbn [fold_left filter fst snd]. destruct (Hp a b (or_introl eq_refl)) as [Ha Hb].
    assert (St : L (Next (k, m, x0, y0)) (a, b) = Next (k + (if anti_l a b then 1 else 0), m + 1, a, b)).
    { subst L. cbv beta iota zeta. cbn [seqo uncont]. rewrite commutes_ok by congruence. cbn [res_ok res_val]. rewrite negb_involutive.
      destruct (anti_l a b); cbn [seqo uncont]; [reflexivity|rewrite Z.add_0_r; reflexivity]. }
    rewrite St. destruct (IH (k + (if anti_l a b then 1 else 0)) (m + 1) a b) as [x1 [y1 EI]]. { intros x y Hxy. apply Hp. right. exact Hxy. }
    exists x1, y1. rewrite EI. destruct (anti_l a b); cbn [length]; repeat (try lia; f_equal). }
  destruct (Lp (pairs_of G) 0 0 [] [] (pairs_of_len n G HG)) as [x1 [y1 EL]]. rewrite EL. cbn [unloop seqo]. rewrite !Z.add_0_l.
  assert (PL : (length G <? 2)%nat = (Z.of_nat (length (pairs_of G)) =? 0)).
  { destruct G as [|a [|b t]]; reflexivity. }
  rewrite PL. destruct (Z.of_nat (length (pairs_of G)) =? 0); cbn [negb finish]; [reflexivity|].
  unfold anticommutation_pair. rewrite graph_edges_flat, edge_of_nil_count. reflexivity.
Qed.

(* ---------- get_commutants ---------- *)
Lemma mk_same n l : all_len n l -> gens (mk l) = l.
Proof.
  intros H. cbn [mk gens]. transitivity (map (fun g : pstr => g) l); [|apply map_id]. apply map_ext_in. intros g Hg.
  pose proof (uniform_of_const l n H g Hg) as U. unfold pad. rewrite U, Nat.sub_diag. apply app_nil_r.
Qed.
Lemma anti_identity n g : anti_l (identity n) g = false.
Proof. revert g. induction n as [|n IH]; intros [|a g]; cbn; try reflexivity. rewrite IH. destruct a; reflexivity. Qed.

Lemma identity_length n : length (identity n) = n. Proof. apply repeat_length. Qed.

Theorem gen_a_commutants n G : all_len n G -> py_A_C_get_commutants G = FRet (commutants n G).
Proof.
  intros HG. unfold py_A_C_get_commutants. cbv zeta. destruct G as [|g0 G']; [reflexivity|].
  assert (Hn : length g0 = n) by (apply HG; left; reflexivity).
  cbn [negb seqo]. rewrite gen_a_size. cbn [bindr negb].
  replace (0 <=? Z.of_nat (length g0)) with true by lia. rewrite Nat2Z.id, identity_length, gen_all_is_all_strs, Hn.
  match goal with |- context [fold_left ?f (g0 :: G') _] => set (L := f) end.
  assert (Lp : forall gs nq idn cand x0, all_len n gs -> all_len n cand -> exists x1,
     fold_left L gs (Next (nq, idn, cand, x0)) = Next (nq, idn, fold_left (fun (c : list pstr) (g : pstr) => filter (fun p => negb (anti_l g p)) c) gs cand, x1)).
  { induction gs as [|g gs IH]; intros nq idn cand x0 Hgs Hc; [exists x0; reflexivity|].
    cbn [fold_left]. apply all_len_cons in Hgs. destruct Hgs as [Hg Hgs].
    assert (St : L (Next (nq, idn, cand, x0)) g = Next (nq, idn, filter (fun p => negb (anti_l g p)) cand, g)).
    { subst L. cbv beta iota. cbn [seqo uncont].
      assert (Gd : forallb (fun p => res_ok (commutes_code g p)) cand = true).
      { apply forallb_forall. intros p Hp. rewrite commutes_ok by (rewrite Hg; symmetry; apply Hc; exact Hp). reflexivity. }
      rewrite Gd. cbn [uncont]. do 3 f_equal. apply filter_ext_in. intros p Hp. rewrite commutes_ok by (rewrite Hg; symmetry; apply Hc; exact Hp). reflexivity. }
    rewrite St. destruct (IH nq idn (filter (fun p => negb (anti_l g p)) cand) g Hgs) as [x1 EI].
    { intros p Hp. apply filter_In in Hp. apply Hc. apply Hp. }
    exists x1. exact EI. }
  destruct (Lp (g0 :: G') (Z.of_nat n) (identity n) (all_strs n) [] HG) as [x1 EL].
  { intros p Hp. apply all_strs_In. exact Hp. }
  rewrite EL. cbn [unloop seqo finish]. f_equal. unfold commutants. apply (mk_same n).
  assert (Sub : forall gs cand p, In p (fold_left (fun (c : list pstr) (g : pstr) => filter (fun p => negb (anti_l g p)) c) gs cand) -> In p cand).
  { induction gs as [|g gs IH]; intros cand p Hp; [exact Hp|]. cbn [fold_left] in Hp. apply IH in Hp. apply filter_In in Hp. apply Hp. }
  intros p Hp. apply Sub in Hp. apply all_strs_In. exact Hp.
Qed.

(* ---------- the collection's get_graph and get_commutator_graph ---------- *)
Theorem gen_a_c_get_graph n G F : all_len n G ->
  py_A_C_get_graph G F = FRet (G, edge_pairs (graph_edges G F), label_dict (graph_edges G F) []).
Proof. intros HG. unfold py_A_C_get_graph. rewrite (gen_a_get_graph_labels n G F HG). reflexivity. Qed.
Theorem gen_a_anticommutation_graph n G : all_len n G ->
  py_A_C_get_graph G [] = FRet (fst (anticommutation_graph G), edge_pairs (snd (anticommutation_graph G)), label_dict (snd (anticommutation_graph G)) []).
Proof. apply gen_a_c_get_graph. Qed.

Theorem gen_a_commutator_graph n G : all_len n G -> (G = [] -> n = 0%nat) ->
  py_A_C_get_commutator_graph G = FRet (fst (commutator_graph n G), edge_pairs (snd (commutator_graph n G))).
Proof.
  intros HG H0. unfold py_A_C_get_commutator_graph. cbv zeta. rewrite gen_a_size.
  assert (Hn : (match G with [] => 0%nat | g :: _ => length g end) = n).
  { destruct G as [|g t]; [symmetry; apply H0; reflexivity|apply HG; left; reflexivity]. }
  rewrite Hn. cbn [bindr]. replace (0 <=? Z.of_nat n) with true by lia. rewrite Nat2Z.id, gen_a_ps_commutants.
  rewrite identity_length. cbn [bindr].
  assert (E : filter (fun g : pstr => negb (anti_l (identity n) g)) (all_strs n) = all_strs n).
  { rewrite <- (filter_ext_in (fun _ => true)); [|intros; rewrite anti_identity; reflexivity].
    induction (all_strs n) as [|a t IH]; [reflexivity|]. cbn [filter]. rewrite IH. reflexivity. }
  rewrite E, (gen_a_get_graph_plain n (all_strs n) G). { reflexivity. }
  intros p Hp. apply all_strs_In. exact Hp.
Qed.

(* ---------- application/otoc.py: the deque / visited-set loop ---------- *)
Section Otoc.
Variables (n : nat) (G : list pstr) (w : pstr).
Hypothesis HG : all_len n G.
Hypothesis Hw : length w = n.
Lemma inner_loop (L : outcome (Z * Z * list pstr * list pstr * pstr * pstr * option pstr) (Z * Z) -> pstr -> outcome (Z * Z * list pstr * list pstr * pstr * pstr * option pstr) (Z * Z)) :
  (forall a s V Q t g0 c0 g, length t = n -> length g = n ->
     L (Next (a, s, V, Q, t, g0, c0)) g = Next (a, s, V, (if anti_l t g && negb (memS (smul t g) V) then Q ++ [smul t g] else Q), t, g, if anti_l t g then Some (smul t g) else None)) ->
  forall gs a s V Q t g0 c0, length t = n -> all_len n gs -> exists g1 c1,
    fold_left L gs (Next (a, s, V, Q, t, g0, c0)) = Next (a, s, V, Q ++ filter (fun c => negb (memS c V)) (map (smul t) (filter (anti_l t) gs)), t, g1, c1).
Proof.
  intros HL. induction gs as [|g gs IH]; intros a s V Q t g0 c0 Ht Hgs; [exists g0, c0; cbn; rewrite app_nil_r; reflexivity|].
  apply all_len_cons in Hgs. destruct Hgs as [Hg Hgs]. cbn [fold_left]. rewrite (HL a s V Q t g0 c0 g Ht Hg).
  destruct (IH a s V (if anti_l t g && negb (memS (smul t g) V) then Q ++ [smul t g] else Q) t g (if anti_l t g then Some (smul t g) else None) Ht Hgs) as [g1 [c1 E]].
  exists g1, c1. eapply eq_trans; [exact E|]. cbn [filter]. destruct (anti_l t g); cbn [andb map filter]; [|reflexivity].
  destruct (memS (smul t g) V); cbn [negb]; [reflexivity|]. rewrite <- app_assoc. reflexivity.
Qed.

Theorem gen_a_otoc_loop fuel v : length v = n ->
  py_A_average_otoc fuel G v w =
  match bfs_c G w fuel [v] [] 0 0 with
  | Some (a, s, _) => if s =? 0 then FRaised EZeroDivision else FRet (1 * s - 2 * a, s)
  | None => FOutOfFuel
  end.
Proof.
  intros Hv. unfold py_A_average_otoc. cbv zeta.
  match goal with |- context [fold_left ?f G _] => set (L := f) end.
  match goal with |- context [while_loop fuel ?c ?b _] => set (C := c); set (B := b) end.
  assert (HL : forall a s V Q t g0 c0 g, length t = n -> length g = n ->
     L (Next (a, s, V, Q, t, g0, c0)) g = Next (a, s, V, (if anti_l t g && negb (memS (smul t g) V) then Q ++ [smul t g] else Q), t, g, if anti_l t g then Some (smul t g) else None)).
  { intros a s V Q t g0 c0 g Ht Hg. subst L. cbv beta iota. cbn [seqo uncont]. rewrite adjoint_ok by congruence. cbn [res_ok res_val].
    destruct (anti_l t g) eqn:EA; cbn [opt_truthy unopt andb].
    - rewrite (anti_nonempty t g EA). cbn [negb andb]. destruct (memS (smul t g) V); cbn [negb seqo uncont]; reflexivity.
    - cbn [seqo uncont]. reflexivity. }
  assert (W : forall f queue visited a s t0 g0 c0, all_len n queue -> exists t1 g1 c1,
      while_loop f C B (a, s, visited, queue, t0, g0, c0) =
      match bfs_c G w f queue visited a s with Some (a', s', vis) => Next (a', s', vis, [], t1, g1, c1) | None => OutOfFuel end).
  { induction f as [|f IH]; intros queue visited a s t0 g0 c0 Hq; [exists t0, g0, c0; reflexivity|].
    cbn [while_loop bfs_c]. destruct queue as [|t q]; [exists t0, g0, c0; reflexivity|].
    apply all_len_cons in Hq. destruct Hq as [Ht Hq].
    assert (EC : C (a, s, visited, t :: q, t0, g0, c0) = true) by reflexivity. rewrite EC.
    destruct (memS t visited) eqn:EM.
    - assert (EB : B (a, s, visited, t :: q, t0, g0, c0) = Cont (a, s, visited, q, t, g0, c0)).
      { subst B. cbv beta iota. rewrite EM. reflexivity. }
      rewrite EB. cbn [uncont]. apply IH. exact Hq.
    - destruct (inner_loop L HL G (if anti_l w t then a + 1 else a) (s + 1) (t :: visited) q t g0 c0 Ht HG) as [g1 [c1 EI]].
      assert (EB : B (a, s, visited, t :: q, t0, g0, c0) =
                   Next ((if anti_l w t then a + 1 else a), s + 1, t :: visited, q ++ filter (fun c => negb (memS c (t :: visited))) (nbrs_l G t), t, g1, c1)).
      { subst B. cbv beta iota. rewrite EM. cbn [seqo]. unfold set_add. rewrite EM. rewrite commutes_ok by congruence. cbn [res_ok res_val]. rewrite negb_involutive.
        destruct (anti_l w t); cbn [seqo]; unfold pstr in *; rewrite EI; reflexivity. }
      rewrite EB. cbn [uncont]. apply IH. intros c Hc. apply in_app_or in Hc. destruct Hc as [Hc|Hc]; [apply Hq; exact Hc|].
      apply filter_In in Hc. apply (nbrs_l_len n G HG t Ht). apply Hc. }
  destruct (W fuel [v] [] 0 0 [] [] None) as [t1 [g1 [c1 EW]]]. { intros c [<-|[]]. exact Hv. }
  remember (bfs_c G w fuel [v] [] 0 0) as r eqn:Er. clear Er W. unfold pstr in *. rewrite EW. destruct r as [[[a s] vis]|]; [|reflexivity].
  cbn [seqo fst snd]. destruct (s =? 0); reflexivity.
Qed.
End Otoc.

Section OtocModel.
Variables (n : nat) (G : list pstr) (w : pstr).
Hypothesis HG : all_len n G.
Hypothesis Hw : length w = n.

(* average_otoc, for every fuel: the model's BFS decides the outcome; the value is (|orbit| - 2 * #anticommuting) / |orbit| *)
Theorem gen_a_otoc fuel v : length v = n ->
  py_A_average_otoc fuel G v w =
  match bfs (map enc G) fuel [enc v] [] with
  | Some vis => FRet (Z.of_nat (length vis) - 2 * Z.of_nat (cntA (enc w) vis), Z.of_nat (length vis))
  | None => FOutOfFuel
  end.
Proof.
  intros Hv. rewrite (gen_a_otoc_loop n G w HG Hw fuel v Hv).
  assert (Hq : all_len n [v]) by (intros c [<-|[]]; exact Hv).
  pose proof (bfs_c_model n G w HG Hw fuel [v] [] 0 0 Hq (all_len_nil n)) as M. cbn [map] in M.
  destruct (bfs (map enc G) fuel [enc v] []) as [visP|]; [|rewrite M; reflexivity].
  destruct M as [vis [E1 E2]]. rewrite E2.
  assert (S1 : 1 <= 0 + Z.of_nat (length visP) - Z.of_nat (@length pstr [])).
  { destruct fuel as [|f]; [discriminate|]. cbn [bfs_c memS existsb] in E2. apply (bfs_c_mono n G w Hw) in E2. lia. }
  cbn [length] in *. replace (0 + Z.of_nat (length visP) - Z.of_nat 0 =? 0) with false by lia.
  unfold cntA. cbn [filter length]. repeat (try lia; f_equal).
Qed.
End OtocModel.

(* at the fuel the model uses, average_otoc returns 1 - 2a/s for the counts (a, s) of Model/Orbit.otoc_counts *)
Theorem gen_a_otoc_counts n G v w : all_len n G -> length v = n -> length w = n ->
  py_A_average_otoc (fuel_for n (map enc G)) G v w =
  match otoc_counts n G v w with Some (a, s) => FRet (Z.of_nat s - 2 * Z.of_nat a, Z.of_nat s) | None => FOutOfFuel end.
Proof.
  intros HG Hv Hw. rewrite (gen_a_otoc n G w HG Hw _ v Hv). unfold otoc_counts.
  destruct (bfs (map enc G) (fuel_for n (map enc G)) [enc v] []); reflexivity.
Qed.

(* average_otoc TERMINATES: at the model's fuel it never runs out, for every collection of strings of one length; the value is
   (s - 2a)/s with 0 <= a <= s and s >= 1 *)
Theorem gen_a_otoc_terminates n G v w : all_len n G -> length v = n -> length w = n ->
  exists a s, py_A_average_otoc (fuel_for n (map enc G)) G v w = FRet (Z.of_nat s - 2 * Z.of_nat a, Z.of_nat s) /\ (0 < s)%nat /\ (a <= s)%nat.
Proof.
  intros HG Hv Hw. destruct (otoc_counts_total n G v w HG Hv Hw) as [a [s [E [H1 H2]]]]. exists a, s.
  rewrite (gen_a_otoc_counts n G v w HG Hv Hw), E. auto.
Qed.

(* ---------- application/fourpoint.py ---------- *)
Theorem gen_a_fourpoint n G p q r s fuel : all_len n G -> length p = n -> length q = n -> length r = n -> length s = n ->
  py_A_fourpoint fuel G p q r s =
  if pstr_eqb (smul r p) (smul q s) && memG (smul q s) (commutants n G) then py_A_average_otoc fuel G p q else FRet (0, 1).
Proof.
  intros HG Hp Hq Hr Hs. unfold py_A_fourpoint. cbv zeta. rewrite (gen_a_commutants n G HG). cbn [bindr].
  rewrite !multiply_code_ok by congruence. cbn [res_ok res_val].
  change (memS (smul q s) (commutants n G)) with (memG (smul q s) (commutants n G)).
  destruct (pstr_eqb (smul r p) (smul q s) && memG (smul q s) (commutants n G)); [|reflexivity].
  cbn [seqo]. destruct (py_A_average_otoc fuel G p q); reflexivity.
Qed.

(* ---------- application/charges.py ---------- *)
Lemma maxlen_const n g l : all_len n (g :: l) -> maxlen (g :: l) = n.
Proof. intros H. rewrite <- (uniform_of_const (g :: l) n H g (or_introl eq_refl)). apply H. left. reflexivity. Qed.
Lemma coll_append_same n l c : all_len n l -> length c = n -> coll_append l c = if memS c l then l else l ++ [c].
Proof.
  intros Hl Hc. unfold coll_append. cbn [step gens]. destruct l as [|g l]; [reflexivity|].
  unfold processing. rewrite (maxlen_const n g l Hl), Hc, Nat.ltb_irrefl. reflexivity.
Qed.

Definition charges_step (acc : list pstr) (cq : pstr * pstr) : list pstr :=
  let (c, q) := cq in
  if anti_l c q then let acc1 := if memG c acc then acc else acc ++ [c] in if memG q acc1 then acc1 else acc1 ++ [q] else acc.

Theorem gen_a_charges n G : all_len n G -> py_A_non_commuting_charges G = FRet (charges n G).
Proof.
  intros HG. unfold py_A_non_commuting_charges. cbv zeta. rewrite (gen_a_commutants n G HG). cbn [bindr].
  match goal with |- context [fold_left ?f (pairs_of (commutants n G)) _] => set (L := f) end.
  assert (Lp : forall ps acc cm c0 q0, pairs_len n ps -> all_len n acc -> exists c1 q1,
     fold_left L ps (Next (acc, cm, c0, q0)) = Next (fold_left charges_step ps acc, cm, c1, q1)).
  { induction ps as [|[c q] ps IH]; intros acc cm c0 q0 Hp Hacc; [exists c0, q0; reflexivity|].
    cbn [fold_left]. destruct (Hp c q (or_introl eq_refl)) as [Hc Hq].
    assert (St : L (Next (acc, cm, c0, q0)) (c, q) = Next (charges_step acc (c, q), cm, c, q)).
    { subst L. cbv beta iota. cbn [seqo uncont]. rewrite commutes_ok by congruence. cbn [res_ok res_val]. rewrite negb_involutive.
      unfold charges_step. destruct (anti_l c q); [|reflexivity]. cbn [seqo uncont].
      rewrite (coll_append_same n acc c Hacc Hc). change (memG c acc) with (memS c acc).
      destruct (memS c acc) eqn:E1; cbn [negb seqo uncont].
      - rewrite (coll_append_same n acc q Hacc Hq). change (memG q acc) with (memS q acc). destruct (memS q acc); reflexivity.
      - assert (Hacc1 : all_len n (acc ++ [c])). { intros x Hx. apply in_app_or in Hx. destruct Hx as [Hx|[<-|[]]]; [apply Hacc; exact Hx|exact Hc]. }
        unfold pstr in *. rewrite (coll_append_same n (acc ++ [c]) q Hacc1 Hq). change (memG q (acc ++ [c])) with (memS q (acc ++ [c])). destruct (memS q (acc ++ [c])); reflexivity. }
    rewrite St. apply IH; [intros x y Hxy; apply Hp; right; exact Hxy|].
    unfold charges_step. destruct (anti_l c q); [|exact Hacc].
    intros x Hx. destruct (memG c acc), (memG q _) in Hx; repeat (apply in_app_or in Hx; destruct Hx as [Hx|[<-|[]]]); auto. }
  assert (HC : all_len n (commutants n G)).
  { unfold commutants. destruct G as [|g0 G']; [intros x []|].
    assert (Sub : forall gs cand p, In p (fold_left (fun (c : list pstr) (g : pstr) => filter (fun p => negb (anti_l g p)) c) gs cand) -> In p cand).
    { induction gs as [|g gs IH]; intros cand p Hp; [exact Hp|]. cbn [fold_left] in Hp. apply IH in Hp. apply filter_In in Hp. apply Hp. }
    intros p Hp. apply Sub in Hp. apply all_strs_In. exact Hp. }
  destruct (Lp (pairs_of (commutants n G)) [] (commutants n G) [] [] (pairs_of_len n _ HC) (all_len_nil n)) as [c1 [q1 EL]].
  change (gens (mk [])) with (@nil pstr). rewrite EL. cbn [unloop seqo finish]. reflexivity.
Qed.

(* ---------- the property statements read on the source ---------- *)
(* C14: the commutant the source returns is exactly the set of strings of the common length that commute with every member, each once *)
Theorem gen_a_commutants_exact n G : all_len n G -> G <> [] ->
  exists l, py_A_C_get_commutants G = FRet l /\
            (forall p, In p l <-> length p = n /\ forall g, In g G -> anti_l g p = false) /\ NoDup l.
Proof.
  intros HG Hne. exists (commutants n G). split; [apply gen_a_commutants; exact HG|]. apply commutants_spec. exact Hne.
Qed.
(* C14: the edges the source returns are exactly the anticommuting pairs (restricted to products in the given area), labelled by the product *)
Theorem gen_a_edges_exact n G F a b : all_len n G ->
  exists V E D, py_A_get_graph_labels G F = FRet (V, E, D) /\ V = G /\
    (In (a, b) E <-> In (a, b) (pairs_of G) /\ anti_l a b = true /\ (F = [] \/ In (smul a b) F)).
Proof.
  intros HG. eexists _, _, _. split; [apply (gen_a_get_graph_labels n G F HG)|]. split; [reflexivity|].
  unfold edge_pairs. rewrite in_map_iff. split.
  - intros [[[a' b'] c'] [[= <- <-] H]]. apply graph_edges_spec in H. tauto.
  - intros [H1 [H2 H3]]. exists (a, b, smul a b). split; [reflexivity|]. apply graph_edges_spec. tauto.
Qed.
(* C15: whenever average_otoc returns, the set it visited is the orbit of V (each element once) and the value is 1 - 2a/s *)
Theorem gen_a_otoc_is_orbit n G v w fuel r : all_len n G -> length v = n -> length w = n ->
  py_A_average_otoc fuel G v w = FRet r ->
  exists vis, (forall t, In t vis <-> OrbL (map enc G) (enc v) t) /\ NoDup vis /\
              r = (Z.of_nat (length vis) - 2 * Z.of_nat (cntA (enc w) vis), Z.of_nat (length vis)).
Proof.
  intros HG Hv Hw. rewrite (gen_a_otoc n G w HG Hw fuel v Hv).
  destruct (bfs (map enc G) fuel [enc v] []) as [vis|] eqn:E; [|discriminate]. intros [= <-].
  exists vis. destruct (bfs_orbit (map enc G) (enc v) fuel vis E) as [H1 H2]. repeat split; try assumption; apply H1.
Qed.

(* ---------- non-vacuity ---------- *)
Example gen_apps_run :
  py_A_C_get_commutants [[PX]] = FRet [[PI]; [PX]] /\
  py_A_get_graph_labels [[PX;PI]; [PZ;PI]; [PI;PX]] [] = FRet ([[PX;PI]; [PZ;PI]; [PI;PX]], [([PX;PI], [PZ;PI])], [(([PX;PI], [PZ;PI]), [PY;PI])]) /\
  py_A_get_graph_plain [[PX;PI]; [PZ;PI]] [[PX;PX]] = FRet ([[PX;PI]; [PZ;PI]], []) /\
  py_A_average_otoc 50 [[PX;PI]; [PZ;PI]; [PI;PX]] [PX;PI] [PZ;PI] = FRet (-1, 3) /\
  py_A_average_otoc 2 [[PX;PI]; [PZ;PI]; [PI;PX]] [PX;PI] [PZ;PI] = FOutOfFuel /\
  py_A_average_otoc 50 [[PX;PI]; [PZ]] [PX;PI] [PZ;PI] = FRaised verr /\
  py_A_fourpoint 50 [[PX;PI]; [PZ;PI]] [PX;PI] [PZ;PI] [PX;PI] [PZ;PI] = FRet (-1, 3) /\
  py_A_fourpoint 50 [[PX;PI]; [PZ;PI]] [PX;PI] [PX;PI] [PI;PX] [PI;PX] = FRet (0, 1) /\
  py_A_non_commuting_charges [[PZ;PZ]] = FRet [[PI;PZ]; [PX;PX]; [PX;PY]; [PY;PX]; [PY;PY]; [PZ;PI]] /\
  py_A_C_get_anticommutation_fraction [[PX]] = FRaised EZeroDivision /\
  py_A_C_get_commutator_graph [[PZ]] = FRet ([[PI]; [PZ]; [PX]; [PY]], [([PX], [PY])]).
Proof. vm_compute. repeat split. Qed.

Print Assumptions gen_a_ps_commutants.
Print Assumptions gen_a_size.
Print Assumptions gen_a_pair.
Print Assumptions gen_a_get_graph_labels.
Print Assumptions gen_a_get_graph_plain.
Print Assumptions gen_a_anticommutation_pair.
Print Assumptions gen_a_anticommutation_fraction.
Print Assumptions gen_a_commutants.
Print Assumptions gen_a_c_get_graph.
Print Assumptions gen_a_anticommutation_graph.
Print Assumptions gen_a_commutator_graph.
Print Assumptions gen_a_otoc_loop.
Print Assumptions gen_a_otoc.
Print Assumptions gen_a_otoc_counts.
Print Assumptions gen_a_otoc_terminates.
Print Assumptions gen_a_fourpoint.
Print Assumptions gen_a_charges.
Print Assumptions gen_a_commutants_exact.
Print Assumptions gen_a_edges_exact.
Print Assumptions gen_a_otoc_is_orbit.
Print Assumptions gen_apps_run.
