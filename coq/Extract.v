(* Extract.v — extraction of the executable model to OCaml.
   Directives: only those of ExtrOcamlBasic (bool, option, unit, prod, list,
   sumbool, sumor -> native OCaml types).  positive/N/Z/nat stay Coq inductives. *)
From PauLie Require Import Pauli Matrix Sym ClosureN LieInv Star Validator Member Collection PauliBits Parser Compiler Graph Orbit Linear Decomp Quadratic Families.
Require Extraction ExtrOcamlBasic.
Extraction Language OCaml.
Extraction "oracle.ml"
  sign_code commutes_code multiply_code adjoint_code conj_code weight_code
  dense M phase smul anti_l is_identity
  closure_strs closure_card enc dec
  lie_inv gen_components_strs
  algprops algprops_old algebra_terms dla_dim dla_dim_old name_dim2
  reduction_check_strs shape_acct_strs
  member_strs space_strs
  mk run
  fresh apply_edit set_substring inc text get_index get_diagonal_index gen_all
  parse_text k_local_generators
  universal nested_eval compile_ok
  commutants anticommutation_graph commutator_graph anti_components commutator_components charges pair_count
  otoc_counts complexity_counts
  simplify ladd lscale lherm lmatmul lmatmul_alias_old ltrace ltrace_old lis_zero lis_zero_old leq denote size_of
  decompose decompose_iter decompose_diag decompose_diag_iter index dindex weight_in pauli_weights shape_ok diag_shape_ok
  full_basis twirl
  su_family_table.
