(* C08 — membership queries agree with the commutator closure.  The implementation answers them by
   re-running the attach pipeline in check mode; that mechanism is not ported.  Model/Member.v is the
   specification, computed from the verified closure, and these theorems say it decides Cl-membership. *)
From PauLie Require Import Pauli Sym SymT ClT ClSym ClosureN ClosureT Member MemberT.

Theorem C08_select_dependents : forall n G, (forall g, In g G -> DN n g) -> forall X, (forall x, In x X -> DN n x) ->
  forall x, In x (select_dep n G X) <-> In x X /\ ClS (fun g => In g G) x.
Proof. exact select_dep_spec. Qed.
Print Assumptions C08_select_dependents.

Theorem C08_is_in : forall n G, (forall g, In g G -> DN n g) -> forall X, (forall x, In x X -> DN n x) ->
  (is_in n G X = true <-> G <> [] /\ forall x, In x X -> ClS (fun g => In g G) x).
Proof. exact is_in_spec. Qed.
Print Assumptions C08_is_in.

Theorem C08_is_eq : forall n G H, (forall g, In g G -> DN n g) -> (forall h, In h H -> DN n h) -> G <> [] -> H <> [] ->
  (is_eq n G H = true <-> forall p, ClS (fun g => In g G) p <-> ClS (fun g => In g H) p).
Proof. exact is_eq_iff. Qed.
Print Assumptions C08_is_eq.

Theorem C08_space : forall n G, (forall g, In g G -> DN n g) ->
  forall a, In a (space n G) <-> ClS (fun g => In g G) a /\ a <> pid.
Proof. exact space_spec. Qed.
Print Assumptions C08_space.

(* the property's own example: G = [IY, YZ], X = [ZY]; the pinned snapshot answered is_in = True *)
Example C08_example : m_in (member_strs 2 [[PI;PY]; [PY;PZ]] [[PZ;PY]]) = false /\ m_in (member_strs 2 [[PI;PY]; [PY;PZ]] [[PY;PX]]) = true.
Proof. vm_compute. split; reflexivity. Qed.
