(* C07 — the universal set has 2N+1 distinct strings of length N and generates su(2^N).
   Proved for all N, k: size, string length and (k >= 2) pairwise distinctness (Theory/UniversalT.v; the older
   bounded computation for N <= 12 is kept).  Generation: REFUTED for every odd k and every N; proved for even k and N <= 6 by computation with the
   verified closure.  Even k at larger N is explored, not proved. *)
From PauLie Require Import Pauli Sym ClSym InvarT Compiler CompilerT ClosureN UniversalT.

Theorem C07_size : forall N k U, universal N k = Ok U ->
  length U = (2 * N + 1)%nat /\ forall g, In g U -> length g = N.
Proof. intros N k U H. split; [apply (universal_length N k U H)|apply (universal_each_length N k U H)]. Qed.
Print Assumptions C07_size.

Theorem C07_distinct : forall N k U, (2 <= k)%nat -> universal N k = Ok U -> NoDup U.
Proof. exact universal_nodup. Qed.
Print Assumptions C07_distinct.

Theorem C07_distinct_bounded : forall N k U, (N <= 12)%nat -> (2 <= k)%nat -> universal N k = Ok U -> NoDup U.
Proof. exact universal_nodup_bounded. Qed.
Print Assumptions C07_distinct_bounded.

Theorem C07_refuted_odd_k : forall N k U, Nat.odd k = true -> (3 <= k < N)%nat -> universal N k = Ok U ->
  x0x1 N <> identity N /\ length (x0x1 N) = N /\ ~ ClL (fun g => In g U) (x0x1 N).
Proof. exact c07_refuted_odd_k. Qed.
Print Assumptions C07_refuted_odd_k.

Theorem C07_even_k_bounded : forall N k, (3 <= N <= 6)%nat -> (2 <= k < N)%nat -> Nat.even k = true ->
  closure_card N (uni N k) = Some (Nat.pow 4 N - 1)%nat.
Proof. exact even_k_full_small. Qed.
Print Assumptions C07_even_k_bounded.

Example C07_example : universal 4 2 = Ok [[PX;PI;PI;PI]; [PZ;PI;PI;PI]; [PI;PX;PI;PI]; [PI;PZ;PI;PI]; [PZ;PZ;PI;PI];
                                          [PX;PI;PX;PI]; [PX;PI;PI;PX]; [PX;PI;PZ;PI]; [PX;PI;PI;PZ]].
Proof. reflexivity. Qed.
