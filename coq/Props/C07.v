(* C07 — the universal set has 2N+1 distinct strings of length N and generates su(2^N).
   Proved for all N, k: size, string length and (k >= 2) pairwise distinctness (Theory/UniversalT.v; the older
   bounded computation for N <= 12 is kept).  Generation: REFUTED for every odd k and every N; PROVED for every even k and every N
   (Theory/ExtendT.v: one more qubit at a time; Theory/LeftFullT.v: the left set on an even number of qubits);
   the older computation with the verified closure for N <= 6 is kept. *)
From PauLie Require Import Pauli Sym ClSym InvarT Compiler CompilerT ClosureN UniversalT ExtendT LeftFullT MinGenT.

Theorem C07_size : forall N k U, universal N k = Ok U ->
  length U = (2 * N + 1)%nat /\ forall g, In g U -> length g = N.
Proof. intros N k U H. split; [apply (universal_length N k U H)|apply (universal_each_length N k U H)]. Qed.
Print Assumptions C07_size.

Theorem C07_distinct : forall N k U, (2 <= k)%nat -> universal N k = Ok U -> NoDup U.
Proof. exact universal_nodup. Qed.
Print Assumptions C07_distinct.

Theorem C07_distinct_bounded : forall N k U, (N <= 12)%nat -> (2 <= k)%nat -> universal N k = Ok U -> NoDup U.
Proof. exact universal_nodup_bounded. Qed.
Print Assumptions C07_distinct_bounded.

Theorem C07_refuted_odd_k : forall N k U, Nat.odd k = true -> (3 <= k < N)%nat -> universal N k = Ok U ->
  x0x1 N <> identity N /\ length (x0x1 N) = N /\ ~ ClL (fun g => In g U) (x0x1 N).
Proof. exact c07_refuted_odd_k. Qed.
Print Assumptions C07_refuted_odd_k.

(* even k, every N: the commutator closure of the universal set is exactly the set of the 4^N - 1 non-identity
   strings of length N *)
Theorem C07_even_k : forall N k U, Nat.even k = true -> (2 <= k)%nat -> universal N k = Ok U ->
  forall p, ClL (fun g => In g U) p <-> (length p = N /\ p <> identity N).
Proof. exact universal_generates_all. Qed.
Print Assumptions C07_even_k.
(* the step that fails for one-qubit H (and so for odd k): with n >= 2 qubits fully generated, one more qubit and the
   two generators w(x)X, w(x)Z give everything on n+1 qubits *)
Theorem C07_one_more_qubit : forall n (H : pstr -> Prop) w, (2 <= n)%nat -> (forall h, H h -> length h = n) ->
  (forall p, length p = n -> p <> identity n -> ClL H p) -> length w = n -> w <> identity n ->
  forall p, length p = S n -> p <> identity (S n) -> ClL (Gext H w) p.
Proof. exact extend_full. Qed.
Print Assumptions C07_one_more_qubit.

(* 2N+1 is the least possible size: no list of fewer strings generates all non-identity strings on N >= 2 qubits *)
Theorem C07_minimal_size : forall N (G : list pstr), (2 <= N)%nat -> (forall g, In g G -> length g = N) ->
  (forall p, length p = N -> p <> identity N -> ClL (fun g => In g G) p) -> (2 * N + 1 <= length G)%nat.
Proof. exact min_generators_strs. Qed.
Print Assumptions C07_minimal_size.

Theorem C07_even_k_bounded : forall N k, (3 <= N <= 6)%nat -> (2 <= k < N)%nat -> Nat.even k = true ->
  closure_card N (uni N k) = Some (Nat.pow 4 N - 1)%nat.
Proof. exact even_k_full_small. Qed.
Print Assumptions C07_even_k_bounded.

Example C07_example : universal 4 2 = Ok [[PX;PI;PI;PI]; [PZ;PI;PI;PI]; [PI;PX;PI;PI]; [PI;PZ;PI;PI]; [PZ;PZ;PI;PI];
                                          [PX;PI;PX;PI]; [PX;PI;PI;PX]; [PX;PI;PZ;PI]; [PX;PI;PI;PZ]].
Proof. reflexivity. Qed.
