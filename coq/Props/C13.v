(* C13 — Pauli decomposition reconstructs the matrix, with one index convention (Model/Decomp.v).
   Every vector of the model is 2^n times the source's (integer numerators; the source halves at each level).
   T p A = tr(M(p) A).  Proved for every n and every matrix over Z[i]; floats are not modelled. *)
From PauLie Require Import Pauli Matrix Graph Decomp DecompT ButterflyT.

(* the entry the string P itself looks up (index P = ba2int of its bits) is tr(M(P) A)   [= 2^n * w[P]] *)
Theorem C13_coeff : forall p A, nth (index p) (decompose (length p) A) g0 = T p A.
Proof. exact decompose_coeff. Qed.
Print Assumptions C13_coeff.

(* sum over all 4^n strings of w[P] M(P) reconstructs A   [here: = 2^n * A] *)
Theorem C13_reconstruct : forall n A r c, length r = n -> length c = n ->
  gsum (all_strs n) (fun p => gmul (nth (index p) (decompose n A) g0) (M p r c)) = gmul (two_pow n) (A r c).
Proof. exact reconstruct_from_weights. Qed.
Print Assumptions C13_reconstruct.

(* the source's in-place strided loops (for h = 1, 4, 16, ... over blocks of 4h entries; h = 1, 2, 4, ... over blocks
   of 2h entries for the diagonal variant) compute exactly the block recursions the theorems above and below are about *)
Theorem C13_iterative : forall n A, decompose_iter n A = decompose n A.
Proof. exact decompose_iter_eq. Qed.
Print Assumptions C13_iterative.
Theorem C13_iterative_diag : forall n d, decompose_diag_iter n d = decompose_diag n d.
Proof. exact decompose_diag_iter_eq. Qed.
Print Assumptions C13_iterative_diag.

(* the diagonal variant agrees with the general one on diagonal matrices; strings with an X/Y letter weigh 0 *)
Theorem C13_diag : forall p d k, dindex p = Some k -> nth k (decompose_diag (length p) d) g0 = T p (diagm d).
Proof. exact diag_coeff. Qed.
Print Assumptions C13_diag.
Theorem C13_diag_zero : forall p d, dindex p = None -> T p (diagm d) = g0.
Proof. exact diag_offdiag_zero. Qed.
Print Assumptions C13_diag_zero.

(* the weight table lists, at the index of P, the number of non-identity letters of P *)
Theorem C13_weights : forall p, nth (index p) (pauli_weights (length p) 0) 0%nat = wt p.
Proof. exact weight_table_entry. Qed.
Print Assumptions C13_weights.

(* accepted shapes: two-dimensional, square, not 1x1, power-of-two side; everything else is a ValueError *)
Theorem C13_reject : forall ndim rows cols, shape_ok ndim rows cols = true <->
  ndim = 2%nat /\ rows = cols /\ rows <> 1%nat /\ exists e, rows = Nat.pow 2 e.
Proof. exact shape_ok_spec. Qed.
Print Assumptions C13_reject.

Example C13_example :
  decompose 1 (fun r c => match r, c with [false], [false] => (1,0) | [false], [true] => (0,-1) | [true], [false] => (0,1) | _, _ => (-1,0) end)%Z
    = [(0,0); (2,0); (0,0); (2,0)]%Z /\ index [PX; PY; PZ] = 45%nat /\ dindex [PI; PZ; PZ] = Some 3%nat.
Proof. vm_compute. repeat split. Qed.
