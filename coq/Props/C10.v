(* C10 — answers after any edit history equal those of a freshly built collection.
   Model/Collection.v is the editing state machine of PauliStringCollection (strings + cached
   classification); a query answers from the cache when there is one.  Proved for EVERY finite history
   of the repaired code: whenever a query is answered, it is answered from a permutation of the strings
   the collection holds at that moment (so, answers being order-independent by C03, a fresh collection
   of the same strings answers the same); queries are read-only; all strings keep one common length;
   append keeps every string.  The pinned snapshot is refuted on its own model. *)
From PauLie Require Import Pauli Collection CollectionT.
From Coq Require Import Permutation.

Theorem C10_fresh : forall ops l, Forall fresh_answer (trace true (mk l) ops).
Proof. intros ops l. apply fresh_along_history. apply inv_mk. Qed.
Print Assumptions C10_fresh.

Theorem C10_query_readonly : forall s,
  gens (fst (step true s Query)) = gens s /\
  snd (step true (fst (step true s Query)) Query) = snd (step true s Query).
Proof. intros s. split; [apply query_readonly|apply query_stable]. Qed.
Print Assumptions C10_query_readonly.

Theorem C10_uniform_length : forall ops l,
  uniform (gens (fold_left (fun s o => fst (step true s o)) ops (mk l))).
Proof. intros ops l. apply uniform_along_history. apply uniform_mk. Qed.
Print Assumptions C10_uniform_length.

Theorem C10_append_keeps : forall s p g, uniform (gens s) -> In g (gens s) ->
  exists g', In g' (gens (fst (step true s (Append p)))) /\ exists k, g' = g ++ identity k.
Proof. exact append_keeps. Qed.
Print Assumptions C10_append_keeps.

(* the snapshot: appending a longer string loses every other string; contract keeps a stale cache;
   replace by a shorter string leaves mixed lengths *)
Theorem C10_refuted_snapshot :
  gens (fst (step false (mk [[PX;PY]; [PZ;PZ]]) (Append [PX;PY;PZ]))) = [[PX;PY;PZ]] /\
  (let s1 := fst (step false (mk [[PX;PI]; [PZ;PI]; [PI;PX]]) Query) in
   let s2 := fst (step false s1 (Contract [PX;PI] [PZ;PI])) in
   snd (step false s2 Query) = Answer [[PX;PI]; [PZ;PI]; [PI;PX]] /\ gens s2 = [[PY;PI]; [PZ;PI]; [PI;PX]]) /\
  gens (fst (step false (mk [[PX;PY]; [PZ;PZ]]) (Replace [PX;PY] [PX]))) = [[PX]; [PZ;PZ]].
Proof. vm_compute. repeat split. Qed.
Print Assumptions C10_refuted_snapshot.

(* the same histories on the repaired machine *)
Example C10_example :
  gens (fst (step true (mk [[PX;PY]; [PZ;PZ]]) (Append [PX;PY;PZ]))) = [[PX;PY;PI]; [PZ;PZ;PI]; [PX;PY;PZ]] /\
  (let s1 := fst (step true (mk [[PX;PI]; [PZ;PI]; [PI;PX]]) Query) in
   let s2 := fst (step true s1 (Contract [PX;PI] [PZ;PI])) in
   snd (step true s2 Query) = Answer [[PY;PI]; [PZ;PI]; [PI;PX]]) /\
  gens (fst (step true (mk [[PX;PY]; [PZ;PZ]]) (Replace [PX;PY] [PX]))) = [[PX;PI]; [PZ;PZ]].
Proof. vm_compute. repeat split. Qed.
