(* C03 — the TRUE algebra is invariant under every re-presentation the property lists, for every n:
   each transformation maps the commutator closure bijectively onto the closure of the transformed
   generators, preserving products and the symplectic form (or leaves it unchanged).  Hence any
   difference between the classifier's answers on G and on tau(G) is a violation with (G, tau) as
   replay, at any size; the check runs that comparison on the implementation. *)
From PauLie Require Import Pauli Sym SymT ClT ClSym InvarT.
From Coq Require Import Permutation.

(* reordering and duplication: the closure depends on the set of generators only *)
Theorem C03_reorder_duplicate : forall (G H : list pstr), (forall g, In g G <-> In g H) ->
  forall p, ClL (fun g => In g G) p <-> ClL (fun g => In g H) p.
Proof. intros G H E p. apply cl_ext. exact E. Qed.
Print Assumptions C03_reorder_duplicate.

Theorem C03_permute_qubits : forall n s (G : pstr -> Prop), Permutation s (seq 0 n) ->
  (forall g, G g -> length g = n) -> forall p, length p = n ->
  (ClL G p <-> ClL (image (permute s) G) (permute s p)).
Proof.
  intros n s G Hs HG p Hp. destruct (permute_hom n s Hs) as [A [B C]].
  apply (ClL_transform n G HG (permute s) A B C p Hp).
Qed.
Print Assumptions C03_permute_qubits.

Theorem C03_relabel : forall n rs (G : pstr -> Prop),
  (forall g, G g -> length g = n) -> forall p, length p = n ->
  (ClL G p <-> ClL (image (relabel rs) G) (relabel rs p)).
Proof.
  intros n rs G HG p Hp. destruct (relabel_hom n rs) as [A [B C]].
  apply (ClL_transform n G HG (relabel rs) A B C p Hp).
Qed.
Print Assumptions C03_relabel.

Theorem C03_append_identity : forall n k (G : pstr -> Prop),
  (forall g, G g -> length g = n) -> forall p, length p = n ->
  (ClL G p <-> ClL (image (append_id k) G) (append_id k p)).
Proof.
  intros n k G HG p Hp. destruct (append_id_hom n k) as [A [B C]].
  apply (ClL_transform n G HG (append_id k) A B C p Hp).
Qed.
Print Assumptions C03_append_identity.

(* the letter-level closure is the closure of the symplectic core, where the last two laws are stated *)
Theorem C03_bridge : forall n (G : pstr -> Prop), (forall g, G g -> length g = n) ->
  forall p, length p = n -> (ClL G p <-> ClS (image enc G) (enc p)).
Proof. exact ClL_enc. Qed.
Print Assumptions C03_bridge.

Theorem C03_contract : forall (G : P -> Prop) a b, G a -> G b -> anti a b = true ->
  forall p, ClS G p <-> ClS (fun g => (G g /\ g <> a) \/ g = mul a b) p.
Proof. exact s_contract. Qed.
Print Assumptions C03_contract.

Theorem C03_add_product : forall (G : P -> Prop) a b, G a -> G b -> anti a b = true ->
  forall p, ClS G p <-> ClS (fun g => G g \/ g = mul a b) p.
Proof. exact s_add_product. Qed.
Print Assumptions C03_add_product.

Example C03_example : permute [2;0;1]%nat [PX;PY;PZ] = [PZ;PX;PY] /\ relabel [p_yzx; p_xzy] [PX;PY] = [PY;PZ]
  /\ Permutation [2;0;1]%nat (seq 0 3).
Proof. repeat split. apply Permutation_cons_app with (l1 := [0;1]%nat) (l2 := []). reflexivity. Qed.
