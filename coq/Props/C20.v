(* C20 — optimising a universal generator set keeps the algebra and the set size.
   Proved for every n: any sequence of the loop's moves (each replaces a generator x by x.y for an entry (x, y) of
   list_connections) leaves the commutator closure and the number of generators unchanged, whatever the choices
   (greedy score or random); and they keep an F2-independent list independent (then the strings stay pairwise distinct).
   NOTE the limit of the second theorem: a list that generates su(2^n) has at least 2n+1 members and is therefore
   never F2-independent, so for the inputs of this property distinctness of the output is NOT a consequence of it;
   distinctness and termination of the retry loop are explored per run with a watchdog (partial).  The lower bound is
   proved: no list of fewer than 2n+1 strings generates all 4^n - 1 non-identity strings (n >= 2), because an
   F2-independent list never generates its whole span (a quadratic form vanishes on some product of generators). *)
From PauLie Require Import Pauli Sym ClSym Optimise OptimiseT GraphDetT IndepT ClosureT InvarT MinGenT.

Theorem C20_contractions_preserve : forall choices l,
  (forall p, ClS (fun g => In g l) p <-> ClS (fun g => In g (run_contractions l choices)) p) /\
  length (run_contractions l choices) = length l.
Proof. exact run_contractions_cl. Qed.
Print Assumptions C20_contractions_preserve.

(* distinctness: independence (different selections of generators have different products) survives every contraction *)
Theorem C20_contractions_keep_independence : forall choices l, independent l -> independent (run_contractions l choices).
Proof. exact run_contractions_independent. Qed.
Print Assumptions C20_contractions_keep_independence.
Theorem C20_independent_strings_are_distinct : forall l, independent l -> NoDup l /\ ~ In pid l.
Proof. exact independent_distinct. Qed.
Print Assumptions C20_independent_strings_are_distinct.

(* the lower bound "at least 2n+1": every list that generates su(2^n) (all non-identity strings), n >= 2, has 2n+1 or more
   members; with C20_contractions_preserve the optimiser can never return fewer *)
Theorem C20_at_least_2n_plus_1 : forall N (G : list pstr), (2 <= N)%nat -> (forall g, In g G -> length g = N) ->
  (forall p, length p = N -> p <> identity N -> ClL (fun g => In g G) p) -> (2 * N + 1 <= length G)%nat.
Proof. exact min_generators_strs. Qed.
Print Assumptions C20_at_least_2n_plus_1.
Theorem C20_independent_never_generates_its_span : forall gs, independent gs -> (3 <= length gs)%nat ->
  exists u, length u = length gs /\ sprod u gs <> pid /\ ~ ClS (fun g => In g gs) (sprod u gs).
Proof. exact independent_never_full. Qed.
Print Assumptions C20_independent_never_generates_its_span.

Theorem C20_connections_are_anticommuting_members : forall l x y,
  In (x, y) (list_connections l) -> In x l /\ In y l /\ anti x y = true.
Proof. exact list_connections_spec. Qed.
Print Assumptions C20_connections_are_anticommuting_members.

Example C20_example :
  run_contractions (map enc [[PX;PI]; [PZ;PI]; [PI;PX]]) [(enc [PX;PI], enc [PZ;PI])] = map enc [[PY;PI]; [PZ;PI]; [PI;PX]] /\
  anticommutation_pair (map enc [[PX;PI]; [PZ;PI]; [PI;PX]]) = 1%nat.
Proof. vm_compute. split; reflexivity. Qed.
