(* C17 — text forms, sparse notation and k-local expansion denote the right strings.
   Model/Parser.v is pauli_string_parser step for step over ASCII characters (fixed = true: the repaired
   digit recognition; fixed = false: Python int() of the pinned snapshot). *)
From PauLie Require Import Pauli Parser ParserT.
Open Scope char_scope.

(* printing and re-reading is the identity, for every string *)
Theorem C17_roundtrip : forall p, parse_text true (to_text p) = POk p.
Proof. exact (roundtrip true). Qed.
Print Assumptions C17_roundtrip.

(* the sparse notation: any sequence of dense letters and positioned letters (position = any non-empty ASCII digit
   string) expands to exactly those letters at those positions and identity elsewhere; a position that does not
   increase is rejected *)
Theorem C17_sparse : forall items, Forall wf_item items ->
  parse_text true (render items) = match expand [] items with Some p => POk p | None => PErr end.
Proof. exact sparse_no_size. Qed.
Print Assumptions C17_sparse.

Theorem C17_sparse_with_size : forall items sz, Forall wf_item items -> sz <> [] -> forallb is_digit sz = true ->
  parse_text true (render items ++ "s" :: sz) =
  match expand [] items, digits_val 0 sz with
  | Some p, Some n => if (Z.of_N n <? Z.of_nat (length p))%Z then PErr else POk (p ++ identity (Z.to_nat (Z.of_N n) - length p))
  | _, _ => PErr
  end.
Proof. exact sparse_with_size. Qed.
Print Assumptions C17_sparse_with_size.

(* every accepted text consists of characters of the notation's alphabet only (letters are I, X, Y, Z by typing) *)
Theorem C17_alphabet : forall t p, parse_text true t = POk p -> forallb in_alphabet t = true.
Proof. exact accepted_alphabet. Qed.
Print Assumptions C17_alphabet.
(* ... which the pinned snapshot violated: a space, a sign and an underscore inside the size were accepted *)
Theorem C17_alphabet_refuted_snapshot :
  parse_text false ["X"; "s"; " "; "5"] = POk [PX; PI; PI; PI; PI] /\
  parse_text false ["X"; "s"; "+"; "5"] = POk [PX; PI; PI; PI; PI] /\
  parse_text false ["X"; "s"; "1"; "_"; "0"] = POk (PX :: repeat PI 9) /\
  in_alphabet " " = false /\ in_alphabet "+" = false /\
  parse_text true ["X"; "s"; " "; "5"] = PErr /\ parse_text true ["X"; "s"; "1"; "_"; "0"] = PErr.
Proof. vm_compute. repeat split. Qed.
Print Assumptions C17_alphabet_refuted_snapshot.

Theorem C17_reject_missing_number : forall fixed f c g r acc, is_token g = true ->
  parse_ops fixed (S f) (c :: "_" :: g :: r) acc = PErr.
Proof. exact reject_missing_number. Qed.
Print Assumptions C17_reject_missing_number.
Theorem C17_reject_small_size : forall a b z p,
  find_s (a ++ "s" :: b) = Some (a, b) -> b <> [] -> to_int true b = Some z ->
  parse_ops true (length a) a [] = POk p -> (z < Z.of_nat (length p))%Z -> parse_text true (a ++ "s" :: b) = PErr.
Proof. exact reject_small_size. Qed.
Print Assumptions C17_reject_small_size.

(* parsing terminates: the model is a total function, and its answer does not depend on the fuel once the fuel
   covers the text (the loops consume at least one character per iteration) *)
Theorem C17_fuel_enough : forall fixed fuel l acc, (length l <= fuel)%nat ->
  parse_ops fixed fuel l acc = parse_ops fixed (length l) l acc.
Proof. exact fuel_enough. Qed.
Print Assumptions C17_fuel_enough.

(* k-local expansion: exactly the distinct translates of each right-padded generator, each once, all of length n *)
Theorem C17_klocal : forall n gens out, gens <> [] -> (maxlenL gens <= n)%nat -> k_local_generators n gens = Ok out ->
  NoDup out /\
  (forall t, In t out <-> exists g j, In g gens /\ (j <= n - maxlenL gens)%nat /\ t = translate n (padL (maxlenL gens) g) j) /\
  (forall t, In t out -> length t = n).
Proof. exact klocal_members. Qed.
Print Assumptions C17_klocal.
Theorem C17_klocal_order : forall n gens, gens <> [] -> (maxlenL gens <= n)%nat ->
  k_local_generators n gens =
  Ok (snd (fold_left add_new (flat_map (fun g => translates_of n (padL (maxlenL gens) g)) gens) ([], []))).
Proof. exact klocal_is_dedup_translates. Qed.
Print Assumptions C17_klocal_order.

Example C17_example :
  parse_text true ["Z"; "Y"; "X"; "_"; "4"; "s"; "1"; "0"] = POk [PZ; PY; PI; PX; PI; PI; PI; PI; PI; PI] /\
  render [Dense PZ; Dense PY; At ["4"] PX] = ["Z"; "Y"; "X"; "_"; "4"] /\
  k_local_generators 3 [[PX]; [PX; PY]] = Ok [[PX;PI;PI]; [PI;PX;PI]; [PX;PY;PI]; [PI;PX;PY]].
Proof. vm_compute. repeat split. Qed.
