From PauLie Require Import Parser.
Example C17_placeholder : True. Proof. exact I. Qed.
