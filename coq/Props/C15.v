(* C15 — averaged OTOC and graph complexity equal their orbit definitions.
   Model/Orbit.v: `bfs` is the deque/visited-set loop of average_otoc on fuel; the OTOC is 1 - 2a/s with
   s = |visited|, a = #{t in visited : t anticommutes with W}.  Fuel exhaustion returns None and is excluded by the
   statements.  Proved for every n.  The level-by-level BFS of graph complexity (`levels`) labels every vertex of the
   same orbit with its shortest-path distance from V, each vertex once (Theory/LevelsT.v). *)
From PauLie Require Import Pauli Sym ClT ClSym Orbit OrbitT LevelsT OtocLoopT.

(* the visited set IS the orbit of V under repeated commutation with members of G, each element once *)
Theorem C15_bfs_is_orbit : forall G v fuel vis, bfs G fuel [v] [] = Some vis ->
  (forall t, In t vis <-> OrbS (fun g => In g G) v t) /\ NoDup vis.
Proof. exact bfs_orbit. Qed.
Print Assumptions C15_bfs_is_orbit.

(* symmetry in V and W: |orb V| * a(V,W)-count = |orb W| * a(W,V)-count, i.e. a_V / s_V = a_W / s_W *)
Theorem C15_symmetric : forall G v w OV OW fv fw,
  bfs G fv [v] [] = Some OV -> bfs G fw [w] [] = Some OW ->
  (length OV * cntA v OW = length OW * cntA w OV)%nat.
Proof. exact otoc_symmetric_counts. Qed.
Print Assumptions C15_symmetric.

(* range: 0 <= a <= s, so 1 - 2a/s lies in [-1, 1] *)
Theorem C15_range : forall (a s : nat) vis w, a = cntA w vis -> s = length vis -> (a <= s)%nat.
Proof. exact otoc_range. Qed.
Print Assumptions C15_range.

(* V commuting with all of G: the orbit is {V}, so the OTOC is +1 or -1 *)
Theorem C15_fixed : forall G v vis fuel, (forall g, In g G -> anti v g = false) -> bfs G fuel [v] [] = Some vis -> vis = [v].
Proof. exact orbit_fixed. Qed.
Print Assumptions C15_fixed.

(* the OTOC is total: on every collection of strings of one length the visited-set loop terminates within the fuel the model
   gives it (the potential |queue| + (|G|+1)(4^n - |visited|) decreases at every iteration), the orbit has at least one element
   and 0 <= a <= s — so "1 - 2a/s" is defined for every input and the statements above that start from `bfs ... = Some vis`
   apply to every input *)
Theorem C15_otoc_total : forall n G v w, (forall g, In g G -> length g = n) -> length v = n -> length w = n ->
  exists a s, otoc_counts n G v w = Some (a, s) /\ (0 < s)%nat /\ (a <= s)%nat.
Proof. exact otoc_counts_total. Qed.
Print Assumptions C15_otoc_total.

(* the orbit (hence OTOC and the vertex set of graph complexity) depends only on the generated algebra *)
Theorem C15_generating_set_independent : forall (G H : list P) v t,
  (forall p, ClS (fun g => In g G) p <-> ClS (fun g => In g H) p) ->
  (OrbS (fun g => In g G) v t <-> OrbS (fun g => In g H) v t).
Proof. exact orbit_depends_on_closure. Qed.
Print Assumptions C15_generating_set_independent.

(* graph complexity: the returned (sum, size) are the sum of the shortest-path distances from V over its orbit and
   the size of the orbit; dist G v t k = a walk of k commutation steps from v to t exists and none is shorter *)
Theorem C15_complexity : forall n G v s z, complexity_counts n G v = Some (s, z) ->
  exists l, (forall t k, In (t, k) l <-> dist (map enc G) (enc v) t k) /\ NoDup (map fst l) /\
            (forall t, In t (map fst l) <-> OrbS (fun g => In g (map enc G)) (enc v) t) /\
            s = list_sum (map snd l) /\ z = length l.
Proof. exact complexity_spec. Qed.
Print Assumptions C15_complexity.

Example C15_example :
  otoc_counts 2 [[PX;PI]; [PZ;PI]; [PI;PX]] [PX;PI] [PZ;PI] = Some (2, 3)%nat /\
  complexity_counts 2 [[PX;PI]; [PZ;PI]; [PI;PX]] [PX;PI] = Some (3, 3)%nat.
Proof. vm_compute. split; reflexivity. Qed.
