(* C12 — linear combinations behave as the matrices they denote (Model/Linear.v, exact Gaussian-integer
   coefficients; floating-point tolerances and formatting are not modelled).  For every n and all term lists. *)
From PauLie Require Import Pauli Matrix MatrixT Linear LinearT LeqT.

Theorem C12_matmul : forall n a b r c, all_n n a -> all_n n b -> length r = n -> length c = n ->
  denote (lmatmul a b) r c = mmul n (denote a) (denote b) r c.
Proof. exact denote_matmul. Qed.
Print Assumptions C12_matmul.
Theorem C12_add : forall a b r c, denote (ladd a b) r c = gadd (denote a r c) (denote b r c).
Proof. exact denote_add. Qed.
Print Assumptions C12_add.
Theorem C12_scale : forall s a r c, denote (lscale s a) r c = gmul s (denote a r c).
Proof. exact denote_scale. Qed.
Print Assumptions C12_scale.
(* a.h denotes the conjugate transpose *)
Theorem C12_herm : forall a r c, denote (lherm a) r c = gconj (denote a c r).
Proof. exact denote_herm. Qed.
Print Assumptions C12_herm.
Theorem C12_simplify : forall a r c, denote (simplify a) r c = denote a r c.
Proof. exact denote_simplify. Qed.
Print Assumptions C12_simplify.
Theorem C12_trace : forall n a, a <> [] -> all_n n a -> ltrace a = mtrace n (denote a).
Proof. exact trace_spec. Qed.
Print Assumptions C12_trace.
(* zero-ness exactly when the matrix vanishes: uses the linear independence of the Pauli matrices over Z[i],
   proved from trace orthogonality *)
Theorem C12_zero_iff : forall n a, all_n n a -> (lis_zero a = true <-> meq n (denote a) mzero).
Proof. exact zero_iff. Qed.
Print Assumptions C12_zero_iff.
(* matrices equal exactly when the collected coefficients agree (what __eq__ compares after simplification) *)
Theorem C12_eq_matrices : forall n a b, all_n n a -> all_n n b ->
  (meq n (denote a) (denote b) <-> forall p, length p = n -> coef a p = coef b p).
Proof. exact denote_eq_iff_coef. Qed.
Print Assumptions C12_eq_matrices.
(* __eq__ itself (both sides simplified, every term looked up in the other side) decides equality of the matrices *)
Theorem C12_eq_iff : forall n a b, a <> [] -> b <> [] -> all_n n a -> all_n n b ->
  (leq a b = true <-> meq n (denote a) (denote b)).
Proof. exact leq_iff. Qed.
Print Assumptions C12_eq_iff.

(* the pinned snapshot, refuted on its own model *)
Theorem C12_refuted_snapshot :
  lmatmul_alias_old [((1,0), [PX]); ((1,0), [PZ])]%Z = [((1,0), [PI]); ((0,-1), [PY])]%Z /\
  lmatmul [((1,0), [PX]); ((1,0), [PZ])]%Z [((1,0), [PX]); ((1,0), [PZ])]%Z = [((2,0), [PI])]%Z /\
  ltrace_old [((1,0), [PI]); ((2,0), [PI])]%Z = (2,0)%Z /\ ltrace [((1,0), [PI]); ((2,0), [PI])]%Z = (6,0)%Z /\
  lis_zero_old [((1,0), [PX]); ((-1,0), [PX])]%Z = false /\ lis_zero [((1,0), [PX]); ((-1,0), [PX])]%Z = true.
Proof. vm_compute. repeat split. Qed.
Print Assumptions C12_refuted_snapshot.
