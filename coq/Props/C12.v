From PauLie Require Import Linear.
Example C12_placeholder : True. Proof. exact I. Qed.
