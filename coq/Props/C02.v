(* C02 — the canonical reduction preserves the generated algebra, loses no generator, ends in a star.
   The 1100-line exception-driven pipeline of classifier/morph_factory.py is not ported; its observable
   result (legs, dependents per canonical graph) is validated on every run by `reduction_ok`, and this
   file proves what a `true` of the validator means, for every n, plus the closure laws that justify
   the moves the pipeline makes (contraction, adding a product, transport through a commuting pair). *)
From PauLie Require Import Pauli Sym SymT ClT ClSym ClosureN ClosureT LieInv Validator ValidatorT.

Theorem C02_validator_sound : forall n G morphs,
  all_DN n G -> all_DN n (flat_map (fun m => concat (fst m)) morphs) -> all_DN n (flat_map snd morphs) ->
  reduction_ok n G morphs = true ->
  let verts := flat_map (fun m => concat (fst m)) morphs in
  let deps := flat_map snd morphs in
  (forall p, Cl P mul anti (fun g => In g G) p <-> Cl P mul anti (fun g => In g verts) p) /\
  (forall d, In d deps -> Cl P mul anti (fun g => In g verts) d) /\
  (length verts + length (dedup deps) <= length (dedup G) <= length verts + length deps)%nat /\
  NoDup verts /\
  length morphs = length (gen_components G) /\
  (forall m, In m morphs -> star_spec (fst m)).
Proof. exact reduction_ok_sound. Qed.
Print Assumptions C02_validator_sound.

(* replacing a generator by its product with an anticommuting generator keeps the closure *)
Theorem C02_contract : forall (G : P -> Prop) a b, G a -> G b -> anti a b = true ->
  forall p, Cl P mul anti G p <-> Cl P mul anti (fun g => (G g /\ g <> a) \/ g = mul a b) p.
Proof. exact s_contract. Qed.
Print Assumptions C02_contract.

Theorem C02_add_product : forall (G : P -> Prop) a b, G a -> G b -> anti a b = true ->
  forall p, Cl P mul anti G p <-> Cl P mul anti (fun g => G g \/ g = mul a b) p.
Proof. exact s_add_product. Qed.
Print Assumptions C02_add_product.

(* the step used when a vertex is multiplied by the product of two commuting neighbours *)
Theorem C02_transport : forall (G : P -> Prop) z u w,
  Cl P mul anti G (mul z u) -> Cl P mul anti G u -> Cl P mul anti G w ->
  anti u w = true -> anti z u = false -> anti z w = false -> Cl P mul anti G (mul z w).
Proof. exact s_transport. Qed.
Print Assumptions C02_transport.

(* necessary condition usable at any n: the closure stays inside the F2-span of the generators *)
Theorem C02_span_necessary : forall (G : P -> Prop) p, Cl P mul anti G p -> Span P mul G p.
Proof. exact s_span. Qed.
Print Assumptions C02_span_necessary.

(* non-vacuity: the path XI - ZI - ... reduced to centre ZI with legs; a real output of the library *)
Example C02_example :
  reduction_ok 3 (map enc [[PX;PX;PI]; [PI;PX;PX]; [PI;PI;PZ]; [PI;PI;PI]])
    [([[enc [PX;PX;PI]]], []); ([[enc [PI;PI;PZ]]; [enc [PI;PX;PX]]], []); ([[enc [PI;PI;PI]]], [])] = true.
Proof. vm_compute. reflexivity. Qed.
