(* C16 — quadratic symmetries span the commutant and the twirl projects onto it.  PARTIAL.
   Model/Quadratic.v: Q_{C,L} = sum_{S in C} phase(L,S) S (x) (L.S) for components C of the commutator graph and
   commutants L; the twirl with exact rational coefficients.  Proved for every n: symmetries built from different
   components or different linear symmetries have disjoint Pauli supports and are therefore orthogonal in the trace
   inner product; and every member of the model's full basis commutes with g(x)1 + 1(x)g for every member g
   (pairing S <-> g.S inside a component, letterwise phase identities).  Not proved: completeness (basis theorem of arXiv:2502.16404; validated per input by a rank computation, n <= 2), and the
   projector laws of the twirl (checked densely per input). *)
From PauLie Require Import Pauli Matrix Linear LinearT Graph Quadratic QuadraticT QuadInvT.

Theorem C16_disjoint_supports : forall n C C' L L',
  (forall s, In s C -> length s = n) -> (forall s, In s C' -> length s = n) -> length L = n -> length L' = n ->
  (L <> L' \/ forall s, In s C -> ~ In s C') ->
  forall t t', In t (quadratic C L) -> In t' (quadratic C' L') -> snd t <> snd t'.
Proof. exact disjoint_supports. Qed.
Print Assumptions C16_disjoint_supports.

Theorem C16_orthogonal_partial : forall n C C' L L',
  (forall s, In s C -> length s = n) -> (forall s, In s C' -> length s = n) -> length L = n -> length L' = n ->
  (L <> L' \/ forall s, In s C -> ~ In s C') ->
  mtrace (2 * n) (mmul (2 * n) (denote (lherm (quadratic C L))) (denote (quadratic C' L'))) = g0.
Proof. exact quadratic_orthogonal. Qed.
Print Assumptions C16_orthogonal_partial.

(* each quadratic symmetry commutes with g (x) 1 + 1 (x) g (gen2 n g, a combination on 2n qubits) for every member g *)
Theorem C16_invariant : forall n G q g, (forall h, In h G -> length h = n) -> In q (full_basis n G) -> In g G ->
  meq (2 * n) (mmul (2 * n) (denote (gen2 n g)) (denote q)) (mmul (2 * n) (denote q) (denote (gen2 n g))).
Proof. exact full_basis_invariant. Qed.
Print Assumptions C16_invariant.
(* the same for any duplicate-free set C closed under S |-> g.S (S anticommuting with g) and any L commuting with g *)
Theorem C16_invariant_general : forall n g L C, length g = n -> length L = n -> (forall s, In s C -> length s = n) ->
  NoDup C -> anti_l g L = false -> (forall s, In s C -> anti_l g s = true -> In (smul g s) C) ->
  meq (2 * n) (mmul (2 * n) (denote (gen2 n g)) (denote (quadratic C L))) (mmul (2 * n) (denote (quadratic C L)) (denote (gen2 n g))).
Proof. exact quadratic_invariant. Qed.
Print Assumptions C16_invariant_general.

Example C16_example :
  full_basis 1 [[PX]; [PZ]] = [[((1,0), [PI;PI])]; [((1,0), [PZ;PZ]); ((1,0), [PY;PY]); ((1,0), [PX;PX])]]%Z /\
  twirl 1 [[PX]] [((1,0), [PX;PX]); ((2,0), [PY;PZ])]%Z = [((-2,0), 2%nat, [PZ;PY]); ((2,0), 2%nat, [PY;PZ]); ((1,0), 1%nat, [PX;PX])]%Z.
Proof. vm_compute. split; reflexivity. Qed.
