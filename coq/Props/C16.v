(* C16 — quadratic symmetries span the commutant and the twirl projects onto it.  Proved for every n (exact
   Gaussian-integer / rational arithmetic; the source's float normalisation is not modelled).
   Model/Quadratic.v: Q_{C,L} = sum_{S in C} phase(L,S) S (x) (L.S) for components C of the commutator graph and
   commutants L; the twirl with exact rational coefficients.  Proved for every n: symmetries built from different
   components or different linear symmetries have disjoint Pauli supports and are therefore orthogonal in the trace
   inner product; and every member of the model's full basis commutes with g(x)1 + 1(x)g for every member g
   (pairing S <-> g.S inside a component, letterwise phase identities); any two members of the full basis (two
   positions of the list) are trace-orthogonal and each has squared norm |Q| 4^n; the twirl fixes every member
   exactly, satisfies <Q, twirl m> = <Q, m> for every member Q (so it is idempotent and its residual is orthogonal
   to every symmetry) and its output commutes with every g(x)1 + 1(x)g.  Rational coefficients are
   (numerator, denominator, string); `numer D` multiplies out the common denominator D.  Completeness: every combination that commutes with every g(x)1 + 1(x)g is
   fixed by the twirl, i.e. is a combination of the symmetries (Theory/CompleteT.v); with orthogonality the symmetries are
   a basis of the commutant, so their number is its dimension. *)
From PauLie Require Import Pauli Matrix Linear LinearT Graph Quadratic QuadraticT QuadInvT QuadOrthT TwirlT CompleteT.

Theorem C16_disjoint_supports : forall n C C' L L',
  (forall s, In s C -> length s = n) -> (forall s, In s C' -> length s = n) -> length L = n -> length L' = n ->
  (L <> L' \/ forall s, In s C -> ~ In s C') ->
  forall t t', In t (quadratic C L) -> In t' (quadratic C' L') -> snd t <> snd t'.
Proof. exact disjoint_supports. Qed.
Print Assumptions C16_disjoint_supports.

Theorem C16_orthogonal_partial : forall n C C' L L',
  (forall s, In s C -> length s = n) -> (forall s, In s C' -> length s = n) -> length L = n -> length L' = n ->
  (L <> L' \/ forall s, In s C -> ~ In s C') ->
  mtrace (2 * n) (mmul (2 * n) (denote (lherm (quadratic C L))) (denote (quadratic C' L'))) = g0.
Proof. exact quadratic_orthogonal. Qed.
Print Assumptions C16_orthogonal_partial.

(* each quadratic symmetry commutes with g (x) 1 + 1 (x) g (gen2 n g, a combination on 2n qubits) for every member g *)
Theorem C16_invariant : forall n G q g, (forall h, In h G -> length h = n) -> In q (full_basis n G) -> In g G ->
  meq (2 * n) (mmul (2 * n) (denote (gen2 n g)) (denote q)) (mmul (2 * n) (denote q) (denote (gen2 n g))).
Proof. exact full_basis_invariant. Qed.
Print Assumptions C16_invariant.
(* the same for any duplicate-free set C closed under S |-> g.S (S anticommuting with g) and any L commuting with g *)
Theorem C16_invariant_general : forall n g L C, length g = n -> length L = n -> (forall s, In s C -> length s = n) ->
  NoDup C -> anti_l g L = false -> (forall s, In s C -> anti_l g s = true -> In (smul g s) C) ->
  meq (2 * n) (mmul (2 * n) (denote (gen2 n g)) (denote (quadratic C L))) (mmul (2 * n) (denote (quadratic C L)) (denote (gen2 n g))).
Proof. exact quadratic_invariant. Qed.
Print Assumptions C16_invariant_general.

(* distinct symmetries (any two positions of the returned list) are orthogonal; each is non-zero with norm^2 |Q| 4^n *)
Theorem C16_pairwise_orthogonal : forall n G, (forall h, In h G -> length h = n) -> G <> [] ->
  ForallOrdPairs (fun q q' => mtrace (2 * n) (mmul (2 * n) (denote (lherm q)) (denote q')) = g0) (full_basis n G).
Proof. exact full_basis_orthogonal. Qed.
Print Assumptions C16_pairwise_orthogonal.
Theorem C16_norm : forall n G q, (forall h, In h G -> length h = n) -> In q (full_basis n G) ->
  mtrace (2 * n) (mmul (2 * n) (denote (lherm q)) (denote q)) = gmul (two_n (2 * n)) (Z.of_nat (length q), 0%Z) /\ q <> [].
Proof. exact full_basis_norm. Qed.
Print Assumptions C16_norm.

(* the twirl: proj_num Q m = tr(Q^dagger m) / 4^n *)
Theorem C16_proj_is_trace : forall N q m, all_n N q -> all_n N m ->
  mtrace N (mmul N (denote (lherm q)) (denote m)) = gmul (two_n N) (proj_num q m).
Proof. exact proj_num_trace. Qed.
Print Assumptions C16_proj_is_trace.
(* fixes every symmetry: every term c_t of Q comes back as (|Q| c_t) / |Q| *)
Theorem C16_twirl_fixes : forall n G, (forall h, In h G -> length h = n) -> G <> [] -> forall q, In q (full_basis n G) ->
  twirl n G q = map (fun t => (gmul (nat_gi (length q)) (fst t), length q, snd t)) q.
Proof. exact model_twirl_fixes. Qed.
Print Assumptions C16_twirl_fixes.
(* <Q, twirl m> = <Q, m> for every symmetry Q: the residual m - twirl m is orthogonal to every symmetry *)
Theorem C16_twirl_projects : forall n G, (forall h, In h G -> length h = n) -> G <> [] -> forall m q, In q (full_basis n G) ->
  proj_num q (numer (common_den (full_basis n G)) (twirl n G m)) = gmul (nat_gi (common_den (full_basis n G))) (proj_num q m).
Proof. exact model_twirl_projects. Qed.
Print Assumptions C16_twirl_projects.
(* idempotent: twirling the twirl returns the same rational coefficients (numerators scaled by the cleared denominator) *)
Theorem C16_twirl_idempotent : forall n G, (forall h, In h G -> length h = n) -> G <> [] -> forall m,
  twirl n G (numer (common_den (full_basis n G)) (twirl n G m)) =
  map (fun x => (gmul (nat_gi (common_den (full_basis n G))) (fst (fst x)), snd (fst x), snd x)) (twirl n G m).
Proof. exact model_twirl_idempotent. Qed.
Print Assumptions C16_twirl_idempotent.
(* the output has the commutation property *)
Theorem C16_twirl_invariant : forall n G, (forall h, In h G -> length h = n) -> forall m g, In g G ->
  Comm n (gen2 n g) (numer (common_den (full_basis n G)) (twirl n G m)).
Proof. exact model_twirl_invariant. Qed.
Print Assumptions C16_twirl_invariant.

(* completeness: whatever commutes with every g (x) 1 + 1 (x) g is reproduced by the twirl, coefficient by coefficient
   (D = the cleared denominator), so it lies in the span of the quadratic symmetries; and an invariant combination
   orthogonal to every symmetry is zero *)
Theorem C16_complete : forall n G m, (forall h, In h G -> length h = n) -> G <> [] -> all_n (2 * n) m ->
  (forall g, In g G -> Comm n (gen2 n g) m) ->
  forall T, length T = (2 * n)%nat ->
  coef (numer (common_den (full_basis n G)) (twirl n G m)) T = gmul (nat_gi (common_den (full_basis n G))) (coef m T).
Proof. exact twirl_fixes_invariants. Qed.
Print Assumptions C16_complete.
Theorem C16_complete_matrix : forall n G m, (forall h, In h G -> length h = n) -> G <> [] -> all_n (2 * n) m ->
  (forall g, In g G -> Comm n (gen2 n g) m) ->
  meq (2 * n) (denote (numer (common_den (full_basis n G)) (twirl n G m))) (mscale (nat_gi (common_den (full_basis n G))) (denote m)).
Proof. exact twirl_fixes_invariants_matrix. Qed.
Print Assumptions C16_complete_matrix.
Theorem C16_invariant_orthogonal_zero : forall n G r, (forall h, In h G -> length h = n) -> G <> [] -> all_n (2 * n) r ->
  (forall g, In g G -> Comm n (gen2 n g) r) -> (forall q, In q (full_basis n G) -> proj_num q r = g0) ->
  forall T, length T = (2 * n)%nat -> coef r T = g0.
Proof. exact invariant_orthogonal_zero. Qed.
Print Assumptions C16_invariant_orthogonal_zero.

Example C16_example :
  full_basis 1 [[PX]; [PZ]] = [[((1,0), [PI;PI])]; [((1,0), [PZ;PZ]); ((1,0), [PY;PY]); ((1,0), [PX;PX])]]%Z /\
  twirl 1 [[PX]] [((1,0), [PX;PX]); ((2,0), [PY;PZ])]%Z = [((-2,0), 2%nat, [PZ;PY]); ((2,0), 2%nat, [PY;PZ]); ((1,0), 1%nat, [PX;PX])]%Z.
Proof. vm_compute. split; reflexivity. Qed.
