(* C18 — in-place edits and views of a Pauli string stay mutually consistent, for every edit history.
   Model/PauliBits.v: object = (bits, bits[::2], bits[1::2]); set_substring is the source's index loop with
   Python index semantics (negative indices wrap, out of range = IndexError after the assignments already
   made); inc = binary increment + rebuilt views. *)
From PauLie Require Import Pauli PauliBits PauliBitsT.

(* after ANY sequence of edits on a string built from text, the three views are consistent ... *)
Theorem C18_views : forall edits p, InvO (fold_left apply_edit edits (fresh p)).
Proof. intros edits p. apply views_consistent. apply fresh_inv. Qed.
Print Assumptions C18_views.

(* ... hence the object IS the object freshly built from its text: every observation (any function of the
   object) equals that of a fresh string *)
Theorem C18_observations : forall (A : Type) (obs : obj -> A) edits p,
  let o := fold_left apply_edit edits (fresh p) in obs o = obs (fresh (text o)).
Proof. intros A obs edits p o. f_equal. apply inv_is_fresh. apply C18_views. Qed.
Print Assumptions C18_observations.

(* the effect of one letter assignment: exactly that letter changes, or IndexError and nothing changes *)
Theorem C18_set_letter : forall o j x z, InvO o ->
  match py_index (length (text o)) j with
  | Some k => set_letter o j x z = (fresh (set_pl (text o) k (ofb x z)), true)
  | None => set_letter o j x z = (o, false)
  end.
Proof. exact set_letter_text. Qed.
Print Assumptions C18_set_letter.

Theorem C18_index_inc : forall b, all_ones b = false -> ba2int (inc_bits b) = (ba2int b + 1)%Z.
Proof. exact index_inc. Qed.
Print Assumptions C18_index_inc.

(* enumerating all strings of length n yields indices 0, 1, ..., 4^n - 1 in order: each string exactly once *)
Theorem C18_gen_all : forall n,
  map ba2int (gen_loop (Nat.pow 4 n) (repeat false (2 * n))) = zseq 0%Z (Nat.pow 4 n).
Proof. exact gen_all_indices. Qed.
Print Assumptions C18_gen_all.

Example C18_example :
  text (fold_left apply_edit [SetSub (-1)%Z [PY]; Inc; SetSub 1%Z [PX; PX; PX]] (fresh [PX; PI; PZ])) = [PX; PX; PX] /\
  snd (set_substring (fresh [PX; PI; PZ]) 1%Z [PX; PX; PX]) = false /\
  gen_all 1 = [[PI]; [PZ]; [PX]; [PY]].
Proof. vm_compute. repeat split. Qed.
