(* C09 — reported dimension = dimension of the reported name (proved here for every
   list of canonical graphs); = |commutator closure| is PROVED for every canonical graph with a single leg and at most
   10 vertices, for every independent list of generators with that anticommutation graph on any number of qubits
   (C09_census_is_closure_size: standard realisation enumerated in the kernel + Theory/GraphDetT.v), and validated per
   input against the verified closure oracle beyond that. *)
From PauLie Require Import Pauli Sym ClSym Star StarT GraphDetT CensusT.
Open Scope Z_scope.

(* repaired get_dla_dim: for every list of leg-length vectors whose single-leg counts are >= 1
   (the builder always produces one), 2 * dim = sum of 2*multiplicity * dim over the name's terms *)
Theorem C09_name : forall morphs terms d,
  Forall nc_ok morphs -> algebra_terms morphs = COk terms -> dla_dim morphs = COk d ->
  2 * d = name_dim2 terms.
Proof. exact dla_dim_is_name_dim. Qed.
Print Assumptions C09_name.

(* the census dimension IS the number of strings of the commutator closure: for each of the 56 canonical stars with a
   single leg and at most 10 vertices (legs listed as in canon_stars 10; vertex 0 the centre, then leg after leg from
   the centre outwards), and EVERY independent generator list with that anticommutation graph *)
Theorem C09_census_is_closure_size : forall ls, In ls (canon_stars 10) ->
  forall gs : list P, length gs = S (list_sum ls) ->
  (forall i j, (i < length gs)%nat -> (j < length gs)%nat -> anti (nth i gs pid) (nth j gs pid) = star_adj ls i j) ->
  independent gs ->
  exists LP d, census_dim ls = COk d /\ NoDup LP /\ (forall p, In p LP <-> ClS (fun g => In g gs) p) /\ Z.of_nat (length LP) = d.
Proof. exact census_is_closure_size. Qed.
Print Assumptions C09_census_is_closure_size.
Example C09_census_example : In [1; 2; 3]%nat (canon_stars 10) /\ census_dim [1; 2; 3]%nat = COk 63 /\ length (canon_stars 10) = 56%nat.
Proof. vm_compute. repeat split. right; right; right; right; right; right; right; right. left. reflexivity. Qed.

(* the pinned snapshot's get_dla_dim refuted on the model of that code: 2*so(3) reported 3, u(1) reported 0 *)
Theorem C09_refuted_snapshot :
  dla_dim_old [[1;1;1]%nat] = COk 3 /\ algebra_terms [[1;1;1]%nat] = COk [(ASO, 3, 4)] /\ name_dim2 [(ASO, 3, 4)] = 2 * 6
  /\ dla_dim_old [[1]%nat] = COk 0 /\ algebra_terms [[1]%nat] = COk [(AU, 1, 2)].
Proof. repeat split. Qed.
Print Assumptions C09_refuted_snapshot.

(* non-vacuity: su(8) + 2*so(3) + u(1) *)
Example C09_example :
  Forall nc_ok [[1;1;2;3]; [1;1;1]; [1]]%nat /\
  algebra_terms [[1;1;2;3]; [1;1;1]; [1]]%nat = COk [(ASU, 8, 2); (ASO, 3, 4); (AU, 1, 2)] /\
  dla_dim [[1;1;2;3]; [1;1;1]; [1]]%nat = COk 70.
Proof. split; [repeat constructor; unfold nc_ok; cbn; discriminate|split; reflexivity]. Qed.
