(* C09 — reported dimension = dimension of the reported name (proved here for every
   list of canonical graphs); = |commutator closure| is validated per input against the
   verified closure oracle (it rests on C01). *)
From PauLie Require Import Star StarT.
Open Scope Z_scope.

(* repaired get_dla_dim: for every list of leg-length vectors whose single-leg counts are >= 1
   (the builder always produces one), 2 * dim = sum of 2*multiplicity * dim over the name's terms *)
Theorem C09_name : forall morphs terms d,
  Forall nc_ok morphs -> algebra_terms morphs = COk terms -> dla_dim morphs = COk d ->
  2 * d = name_dim2 terms.
Proof. exact dla_dim_is_name_dim. Qed.
Print Assumptions C09_name.

(* the pinned snapshot's get_dla_dim refuted on the model of that code: 2*so(3) reported 3, u(1) reported 0 *)
Theorem C09_refuted_snapshot :
  dla_dim_old [[1;1;1]%nat] = COk 3 /\ algebra_terms [[1;1;1]%nat] = COk [(ASO, 3, 4)] /\ name_dim2 [(ASO, 3, 4)] = 2 * 6
  /\ dla_dim_old [[1]%nat] = COk 0 /\ algebra_terms [[1]%nat] = COk [(AU, 1, 2)].
Proof. repeat split. Qed.
Print Assumptions C09_refuted_snapshot.

(* non-vacuity: su(8) + 2*so(3) + u(1) *)
Example C09_example :
  Forall nc_ok [[1;1;2;3]; [1;1;1]; [1]]%nat /\
  algebra_terms [[1;1;2;3]; [1;1;1]; [1]]%nat = COk [(ASU, 8, 2); (ASO, 3, 4); (AU, 1, 2)] /\
  dla_dim [[1;1;2;3]; [1;1;1]; [1]]%nat = COk 70.
Proof. split; [repeat constructor; unfold nc_ok; cbn; discriminate|split; reflexivity]. Qed.
