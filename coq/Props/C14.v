(* C14 — commutants, anticommutation and commutator graphs are exact (Model/Graph.v), for every n. *)
From PauLie Require Import Pauli PauliBits Graph GraphT GenAllT.
From Coq Require Import Permutation.

(* the commutant is exactly the set of the 4^n strings commuting with every member, each listed once *)
Theorem C14_commutants : forall n G, G <> [] ->
  (forall p, In p (commutants n G) <-> length p = n /\ forall g, In g G -> anti_l g p = false) /\ NoDup (commutants n G).
Proof. exact commutants_spec. Qed.
Print Assumptions C14_commutants.

(* edges of get_graph: between the i-th and j-th member (i < j) exactly when they anticommute (and, with a non-empty
   filter, when the product is in the filter); the label is the product *)
Theorem C14_edges : forall gens filt a b c,
  In (a, b, c) (graph_edges gens filt) <->
  In (a, b) (pairs_of gens) /\ anti_l a b = true /\ c = smul a b /\ (filt = [] \/ In (smul a b) filt).
Proof. exact graph_edges_spec. Qed.
Print Assumptions C14_edges.
Theorem C14_pairs : forall l a b, In (a, b) (pairs_of l) <->
  exists i j, (i < j)%nat /\ nth_error l i = Some a /\ nth_error l j = Some b.
Proof. exact pairs_of_spec. Qed.
Print Assumptions C14_pairs.

(* commutator graph: the filter "product in G" is the property's "some member g anticommutes with P and P.g = Q" *)
Theorem C14_commutator_edge : forall n G P Q, length P = n -> length Q = n -> (forall g, In g G -> length g = n) ->
  (anti_l P Q = true /\ In (smul P Q) G) <-> (exists g, In g G /\ anti_l g P = true /\ smul P g = Q).
Proof. exact commutator_edge_meaning. Qed.
Print Assumptions C14_commutator_edge.
Theorem C14_all_vertices : forall n, (forall p, In p (all_strs n) <-> length p = n) /\ NoDup (all_strs n).
Proof. intros n. split; [apply all_strs_In|apply all_strs_NoDup]. Qed.
Print Assumptions C14_all_vertices.

(* connected components (of either graph): a partition of the vertices into internally connected classes with no
   edge from an earlier class into a later one *)
Theorem C14_components : forall (A : Type) (adj : A -> A -> bool) (V : A -> Prop) l, (forall x, In x l -> V x) ->
  Permutation (concat (comps A adj l)) l /\
  Forall (fun c => exists seed, In seed c /\ forall x, In x c -> conn A adj V seed x) (comps A adj l) /\
  separated A adj (comps A adj l).
Proof. intros A adj V l HV. apply (components_spec A adj V (length l) l (le_n _) HV). Qed.
Print Assumptions C14_components.

Theorem C14_pair_counts : forall G, anticommutation_pair G = length (graph_edges G []) /\ pair_count G = (length G * (length G - 1) / 2)%nat.
Proof. exact pair_counts. Qed.
Print Assumptions C14_pair_counts.

(* the enumeration the source uses for "all strings of length n" (repeated inc() from the identity, Model/PauliBits.gen_all)
   is the index-ordered list the commutant and the commutator graph of the model range over, for every n *)
Theorem C14_enumeration : forall n, gen_all n = all_strs n.
Proof. exact gen_all_is_all_strs. Qed.
Print Assumptions C14_enumeration.

Example C14_example :
  commutants 1 [[PX]] = [[PI]; [PX]] /\ graph_edges [[PX;PI]; [PZ;PI]; [PI;PX]] [] = [([PX;PI], [PZ;PI], [PY;PI])] /\
  anti_components [[PX;PI]; [PZ;PI]; [PI;PX]] = [[[PX;PI]; [PZ;PI]]; [[PI;PX]]].
Proof. vm_compute. repeat split. Qed.
