(* C06 — every non-identity target can be compiled for every admissible block size.
   Proved: (possible) every member of the commutator closure of a generating set IS the nested commutator of some
   non-empty sequence of generators, so a correct compiler can be total exactly on the closure; for every even k and
   every N that closure is everything (C07_even_k), so EVERY non-identity target has a sequence the validator accepts
   (C06_compilable_even_k: the failures of the library for even k are failures of its search); (impossible) for odd k
   the target X_0 X_1 is outside the closure of the universal set for EVERY N, so no sequence can ever pass the
   validator: raising is forced by the generating set, not by the search. *)
From PauLie Require Import Pauli Sym ClSym Compiler CompilerT CompilableT.

Theorem C06_nested_exists : forall n (G : list pstr) (t : pstr),
  (forall g, In g G -> length g = n) -> length t = n ->
  ClS (fun a => In a (map enc G)) (enc t) ->
  exists s, s <> [] /\ (forall a, In a s -> In a G) /\ nested_eval s = Some t.
Proof. exact nested_exists. Qed.
Print Assumptions C06_nested_exists.

Theorem C06_compilable_even_k : forall N k U target, Nat.even k = true -> (2 <= k)%nat -> universal N k = Ok U ->
  length target = N -> target <> identity N -> exists s, compile_ok N k target s = true.
Proof. exact compilable_even_k. Qed.
Print Assumptions C06_compilable_even_k.

Theorem C06_refuted_odd_k : forall N k, Nat.odd k = true -> (3 <= k < N)%nat ->
  x0x1 N <> identity N /\ forall s, compile_ok N k (x0x1 N) s = false.
Proof. exact c06_refuted_odd_k. Qed.
Print Assumptions C06_refuted_odd_k.

Example C06_example : Nat.odd 3 = true /\ x0x1 4 = [PX;PX;PI;PI].
Proof. split; reflexivity. Qed.
