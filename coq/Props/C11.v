(* C11 — recording the reduction does not change its result.
   There is no recorder in the model: the specification of a reduction (reduction_ok, C02) is the same whether or
   not frames are captured.  Proved: two reductions of the same input that both pass the validator generate the same
   commutator closure (hence the same algebra); the frame store's get_graph returns the closest earlier graph frame.
   That plain and recorded runs report the same dependents is NOT implied by validity and is checked differentially.
   The proof technique contributes the judge; the comparison of the two implementations is exploration. *)
From PauLie Require Import Pauli Sym ClSym Validator ValidatorT Frames FramesT.

Theorem C11_two_valid_reductions_same_closure : forall n G m1 m2,
  all_DN n G ->
  all_DN n (flat_map (fun m => concat (fst m)) m1) -> all_DN n (flat_map snd m1) ->
  all_DN n (flat_map (fun m => concat (fst m)) m2) -> all_DN n (flat_map snd m2) ->
  reduction_ok n G m1 = true -> reduction_ok n G m2 = true ->
  forall p, ClS (fun g => In g (flat_map (fun m => concat (fst m)) m1)) p <->
            ClS (fun g => In g (flat_map (fun m => concat (fst m)) m2)) p.
Proof. exact two_reductions_same_closure. Qed.
Print Assumptions C11_two_valid_reductions_same_closure.

Theorem C11_get_graph : forall (A : Type) (frames : list (option A)) i g,
  get_graph A frames i = Some g <->
  exists j, (j <= i)%nat /\ nth_error frames j = Some (Some g) /\
            forall k, (j < k <= i)%nat -> forall h, nth_error frames k <> Some (Some h).
Proof. exact get_graph_spec. Qed.
Print Assumptions C11_get_graph.

Example C11_example : get_graph nat [Some 1; None; Some 3; None; None]%nat 4 = Some 3%nat /\ get_graph nat [None; None] 1 = None.
Proof. split; reflexivity. Qed.
