(* C01 — the reported algebra is isomorphic to the true dynamical Lie algebra.  PARTIAL:
   proved = (a) the oracle used as judge computes the commutator closure exactly, for every n;
   (b) the name arithmetic of the classifier's census; (c) the snapshot's census is refuted.
   Not proved (trusted mathematics): that every canonical star graph of type B1/B2/B3 generates
   sp/so/su of the stated size, and that equal invariants imply isomorphism (arXiv:2408.00081).
   The implementation's answer is compared with the invariants of the verified closure per input. *)
From PauLie Require Import Pauli Sym ClT ClSym PathT StarClosureT ClosureN ClosureT Star StarT GraphDetT.

Theorem C01_closure_oracle_exact : forall n G L, closure_strs n G = Some L ->
  forall p, length p = n -> (In p L <-> Cl P mul anti (fun a => In a (map enc G)) (enc p)).
Proof. exact closure_strs_spec. Qed.
Print Assumptions C01_closure_oracle_exact.

Theorem C01_closure_oracle_total : forall n G, (forall g, In g G -> length g = n) -> closure_strs n G <> None.
Proof. exact closure_strs_total. Qed.
Print Assumptions C01_closure_oracle_total.

(* the census of the pinned snapshot: a star of k >= 3 single legs is named k'*so(2) ... *)
Theorem C01_refuted_snapshot_census : forall k, (3 <= k)%nat ->
  algprops_old (1%nat :: repeat 1%nat k) = COk (ASO, Z.of_nat k, 2%Z).
Proof. exact star_of_single_legs_old. Qed.
Print Assumptions C01_refuted_snapshot_census.
(* ... although e.g. [XII, ZII, ZXI, ZIX] (centre XII, three single legs) has a closure of 12 strings = 4*so(3) *)
Theorem C01_refuted_snapshot_witness :
  closure_card 3 [[PX;PI;PI]; [PZ;PI;PI]; [PZ;PX;PI]; [PZ;PI;PX]] = Some 12%nat /\
  algprops_old [1;1;1;1]%nat = COk (ASO, 3%Z, 2%Z) /\ (copies 3 * dim_of ASO 2 = 4)%Z.
Proof. vm_compute. repeat split. Qed.
Print Assumptions C01_refuted_snapshot_witness.
(* the repaired census names it 2^(k-1) copies of so(3), for every k *)
Theorem C01_star_of_single_legs : forall k, (1 <= k)%nat ->
  algprops (1%nat :: repeat 1%nat k) = COk (ASO, Z.of_nat k, 3%Z).
Proof. exact star_of_single_legs. Qed.
Print Assumptions C01_star_of_single_legs.

(* type A with one leg, for EVERY length: if the anticommutation graph of g_0 .. g_{m-1} is a path, the closure is
   exactly the set of products of contiguous segments g_i g_{i+1} ... g_{i+d} (the E_ij of so(m+1)) *)
Theorem C01_path_closure : forall (m : nat) (g : nat -> P),
  (forall i j, (i < m)%nat -> (j < m)%nat -> anti (g i) (g j) = adj i j) ->
  forall p, ClS (PathT.G P m g) p <-> IsSeg P mul m g p.
Proof. exact s_path_closure. Qed.
Print Assumptions C01_path_closure.

(* the canonical graph "k single legs", for EVERY k: the closure of a centre c with pairwise commuting legs l_1..l_k, each
   anticommuting with c, is exactly { l_U : |U| odd } union { c.l_S : S any }.  With independent legs that is
   2^(k-1) + 2^k = 3 * 2^(k-1) strings, the dimension of the 2^(k-1) copies of so(3) which the repaired census reports
   (C01_star_of_single_legs); the pinned snapshot reported k'*so(2) for k >= 3. *)
Theorem C01_star_closure : forall (c : P) (ls : list P),
  (forall a b, In a ls -> In b ls -> anti a b = false) -> (forall a, In a ls -> anti c a = true) ->
  forall p, ClS (StarClosureT.G P c ls) p <-> InStar P mul pid c ls p.
Proof. exact s_star_closure. Qed.
Print Assumptions C01_star_closure.

(* the principle behind classifying by canonical graphs: the closure of a generating list is the set of products of
   selections, and which selections occur depends only on the anticommutation pattern of the list — for ANY two lists
   with the same pattern (on any numbers of qubits) the same selections give closure members; with independent
   generators on both sides the two algebras have the same dimension *)
Theorem C01_closure_by_selections : forall gs hs p, same_pattern gs hs -> ClS (fun g => In g gs) p ->
  exists s, length s = length gs /\ p = sprod s gs /\ ClS (fun h => In h hs) (sprod s hs).
Proof. exact closure_by_selections. Qed.
Print Assumptions C01_closure_by_selections.
Theorem C01_graph_determines_size : forall gs hs, same_pattern gs hs -> independent gs -> independent hs ->
  forall LQ, NoDup LQ -> (forall q, In q LQ <-> ClS (fun h => In h hs) q) ->
  exists LP, NoDup LP /\ (forall p, In p LP <-> ClS (fun g => In g gs) p) /\ length LP = length LQ.
Proof. exact graph_determines_size. Qed.
Print Assumptions C01_graph_determines_size.
(* non-vacuity: X, Z on one qubit and XI, ZI... the pair (X_0, Z_0 Z_1) on two qubits have the same pattern *)
Example C01_same_pattern_example : same_pattern [(1, 0); (0, 1)]%N [(1, 0); (0, 3)]%N.
Proof.
  split; [reflexivity|]. intros [|[|i]] [|[|j]] Hi Hj; cbn in *; try reflexivity;
    repeat match goal with H : (S _ < _)%nat |- _ => apply PeanoNat.Nat.succ_lt_mono in H end;
    match goal with H : (_ < 0)%nat |- _ => inversion H end.
Qed.
