(* C19 — the two-local reference table names the true algebra for every n >= 3.  PARTIAL.
   The table is data read from the implementation at run time and judged by enumeration (verified closure) for
   3 <= n <= 8; classifier-vs-table up to n = 16.  Proved here: the three table entries that are wrong at n = 3
   (refutation by computation), and for every n the families over {I, X} (a0, b0, b1) generate exactly their own
   translates.  "For every n" for the other families is the two-local classification (Wiersema et al.): not proved. *)
From PauLie Require Import Pauli InvarT Parser ParserT ClosureN Star TwoLocalT.

Definition translates3 (gens : list pstr) : list pstr := match k_local_generators 3 gens with Ok l => l | ValueError => [] end.
Theorem C19_refuted_n3 :
  closure_card 3 (translates3 [[PX;PY]; [PY;PX]; [PY;PZ]]) = Some 21%nat /\ dim_of ASO 8 = 28%Z /\   (* a11: table so(8) *)
  closure_card 3 (translates3 [[PX;PX]; [PX;PY]; [PY;PZ]]) = Some 36%nat /\ dim_of ASU 8 = 63%Z /\   (* a12: table su(8) *)
  closure_card 3 (translates3 [[PX;PX]; [PX;PY]; [PZ;PX]]) = Some 36%nat.                            (* a17: table su(8) *)
Proof. vm_compute. repeat split. Qed.
Print Assumptions C19_refuted_n3.

Theorem C19_IX_families : forall n gens out, (forall g, In g gens -> forallb isIX g = true) ->
  gens <> [] -> (maxlenL gens <= n)%nat -> k_local_generators n gens = Ok out ->
  forall p, ClL (fun g => In g out) p <-> In p out.
Proof. exact IX_family_closure. Qed.
Print Assumptions C19_IX_families.

Example C19_example : translates3 [[PX;PX]] = [[PX;PX;PI]; [PI;PX;PX]] /\ closure_card 3 (translates3 [[PX;PX]]) = Some 2%nat.
Proof. vm_compute. split; reflexivity. Qed.
