(* C19 — the two-local reference table names the true algebra for every n >= 3.  PARTIAL.
   The table is data read from the implementation at run time and judged by enumeration (verified closure) for
   3 <= n <= 8; classifier-vs-table up to n = 16.  Proved here: the three table entries that are wrong at n = 3
   (refutation by computation), and for every n the families over {I, X} (a0, b0, b1) generate exactly their own
   translates; and for every n >= 4 (a12, a17) resp. n >= 3 (a18, a19, a21, a22) the families the table lists as
   su(2^n) generate exactly the 4^n - 1 non-identity strings, i.e. su(2^n) itself (one more qubit at a time from a
   computed base case, Theory/TwoLocalFullT.v).  "For every n" for the remaining families is the two-local
   classification (Wiersema et al.): not proved. *)
From PauLie Require Import Pauli InvarT Parser ParserT ClosureN Star TwoLocalT ExtendT Families TwoLocalFullT.

Definition translates3 (gens : list pstr) : list pstr := match k_local_generators 3 gens with Ok l => l | ValueError => [] end.
Theorem C19_refuted_n3 :
  closure_card 3 (translates3 [[PX;PY]; [PY;PX]; [PY;PZ]]) = Some 21%nat /\ dim_of ASO 8 = 28%Z /\   (* a11: table so(8) *)
  closure_card 3 (translates3 [[PX;PX]; [PX;PY]; [PY;PZ]]) = Some 36%nat /\ dim_of ASU 8 = 63%Z /\   (* a12: table su(8) *)
  closure_card 3 (translates3 [[PX;PX]; [PX;PY]; [PZ;PX]]) = Some 36%nat.                            (* a17: table su(8) *)
Proof. vm_compute. repeat split. Qed.
Print Assumptions C19_refuted_n3.

Theorem C19_IX_families : forall n gens out, (forall g, In g gens -> forallb isIX g = true) ->
  gens <> [] -> (maxlenL gens <= n)%nat -> k_local_generators n gens = Ok out ->
  forall p, ClL (fun g => In g out) p <-> In p out.
Proof. exact IX_family_closure. Qed.
Print Assumptions C19_IX_families.

(* the six families the table lists as su(2^n): for EVERY n from the stated bound on, the commutator closure of the
   translates is exactly the set of non-identity strings of length n (a12 and a17 are NOT su(8) at n = 3, see above) *)
Theorem C19_su_families :
  (forall n out, (4 <= n)%nat -> k_local_generators n fam_a12 = Ok out -> forall p, ClL (fun g => In g out) p <-> (length p = n /\ p <> identity n)) /\
  (forall n out, (4 <= n)%nat -> k_local_generators n fam_a17 = Ok out -> forall p, ClL (fun g => In g out) p <-> (length p = n /\ p <> identity n)) /\
  (forall n out, (3 <= n)%nat -> k_local_generators n fam_a18 = Ok out -> forall p, ClL (fun g => In g out) p <-> (length p = n /\ p <> identity n)) /\
  (forall n out, (3 <= n)%nat -> k_local_generators n fam_a19 = Ok out -> forall p, ClL (fun g => In g out) p <-> (length p = n /\ p <> identity n)) /\
  (forall n out, (3 <= n)%nat -> k_local_generators n fam_a21 = Ok out -> forall p, ClL (fun g => In g out) p <-> (length p = n /\ p <> identity n)) /\
  (forall n out, (3 <= n)%nat -> k_local_generators n fam_a22 = Ok out -> forall p, ClL (fun g => In g out) p <-> (length p = n /\ p <> identity n)).
Proof. exact (conj a12_su (conj a17_su (conj a18_su (conj a19_su (conj a21_su a22_su))))). Qed.
Print Assumptions C19_su_families.
(* the general step: any family of two-letter generators containing [a1;l1], [a2;l2] with a1, a2, l1, l2 non-identity
   and l1 <> l2 that generates everything at some n0 >= 2 generates everything at every n >= n0 *)
Theorem C19_full_from : forall gens a1 l1 a2 l2 n0, (forall g, In g gens -> length g = 2%nat /\ g <> identity 2) ->
  In [a1; l1] gens -> In [a2; l2] gens -> a1 <> PI -> a2 <> PI -> l1 <> PI -> l2 <> PI -> l1 <> l2 ->
  (2 <= n0)%nat -> full_check n0 gens = true ->
  forall n out, (n0 <= n)%nat -> k_local_generators n gens = Ok out ->
  forall p, ClL (fun g => In g out) p <-> (length p = n /\ p <> identity n).
Proof. exact family_su. Qed.
Print Assumptions C19_full_from.

Example C19_example : translates3 [[PX;PX]] = [[PX;PX;PI]; [PI;PX;PX]] /\ closure_card 3 (translates3 [[PX;PX]]) = Some 2%nat.
Proof. vm_compute. split; reflexivity. Qed.
