(* C05 — a returned compiled sequence really produces the target by nested commutators.
   The compiler's search is not modelled; every returned sequence is validated by compile_ok, and this
   file proves what the string-level validator means at the level of matrices, for every N. *)
From PauLie Require Import Pauli Matrix MatrixT Compiler CompilerT.

(* the nested matrix commutator ad_{M s_0}( ... ad_{M s_{m-1}}(M s_m)) is a NON-ZERO multiple of M(r) when the
   string-level evaluation returns r, and the zero matrix when it returns None *)
Theorem C05_nested_eval_matrix : forall n s, s <> [] -> all_len n s ->
  match nested_eval s with
  | Some r => exists c, gnorm c <> 0%Z /\ meq n (nested_comm n s) (mscale c (M r))
  | None => meq n (nested_comm n s) mzero
  end.
Proof. exact nested_eval_matrix. Qed.
Print Assumptions C05_nested_eval_matrix.

(* hence: compile_ok N k target s = true  ==>  s is non-empty, over the universal set, and its nested commutator is a
   non-zero multiple of M(target) *)
Theorem C05_validator_sound : forall N k target s, compile_ok N k target s = true ->
  exists U, universal N k = Ok U /\ s <> [] /\ (forall a, In a s -> In a U) /\
            exists c, gnorm c <> 0%Z /\ meq N (nested_comm N s) (mscale c (M target)).
Proof. exact c05_validator_sound. Qed.
Print Assumptions C05_validator_sound.

(* the pinned snapshot's output for target IIIX, k=2 (quoted as data) is rejected by the validator: it evaluates to zero *)
Theorem C05_refuted_snapshot :
  nested_eval [[PX;PI;PI;PZ]; [PY;PI;PI;PI]; [PX;PI;PI;PZ]; [PZ;PI;PI;PI]; [PX;PI;PI;PZ]] = None /\
  compile_ok 4 2 [PI;PI;PI;PX] [[PX;PI;PI;PZ]; [PY;PI;PI;PI]; [PX;PI;PI;PZ]; [PZ;PI;PI;PI]; [PX;PI;PI;PZ]] = false.
Proof. vm_compute. split; reflexivity. Qed.
Print Assumptions C05_refuted_snapshot.

Example C05_example : compile_ok 3 2 [PY;PI;PI] [[PZ;PI;PI]; [PX;PI;PI]] = true /\ nested_eval [[PZ;PI;PI]; [PX;PI;PI]] = Some [PY;PI;PI].
Proof. vm_compute. split; reflexivity. Qed.
