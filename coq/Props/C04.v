(* C04 — Pauli product, phase, commutation, adjoint map and conjugation sign
   agree with the 2^n x 2^n matrices, for every n and every pair of strings.
   sign_code / commutes_code / multiply_code / adjoint_code / conj_code are the
   bit-level formulas of common/pauli_string_bitarray.py (Model/Pauli.v);
   M is the Kronecker-product matrix over Z[i] (Model/Matrix.v). *)
From PauLie Require Import Pauli Matrix MatrixT C04T.

Theorem C04_product : forall n p q, length p = n -> length q = n ->
  exists s R, sign_code p q = Ok s /\ multiply_code p q = Ok R /\ length R = n /\
              meq n (mmul n (M p) (M q)) (mscale s (M R)).
Proof. exact c04_product. Qed.
Print Assumptions C04_product.

Theorem C04_commute : forall n p q, length p = n -> length q = n ->
  exists b, commutes_code p q = Ok b /\ (b = true <-> meq n (mmul n (M p) (M q)) (mmul n (M q) (M p))).
Proof. exact c04_commute. Qed.
Print Assumptions C04_commute.

Theorem C04_adjoint : forall p q, length p = length q ->
  exists b R, commutes_code p q = Ok b /\ multiply_code p q = Ok R /\
              adjoint_code p q = Ok (if b then None else Some R).
Proof. exact c04_adjoint. Qed.
Print Assumptions C04_adjoint.

Theorem C04_conj : forall p, (conj_code p = 1 \/ conj_code p = -1)%Z /\
  forall r c, gconj (M p r c) = gmul (conj_code p, 0%Z) (M p r c).
Proof. exact c04_conj. Qed.
Print Assumptions C04_conj.

Theorem C04_reject : forall p q, length p <> length q ->
  sign_code p q = ValueError /\ commutes_code p q = ValueError /\
  multiply_code p q = ValueError /\ adjoint_code p q = ValueError.
Proof. exact reject_unequal. Qed.
Print Assumptions C04_reject.

Theorem C04_phase_is_unit : forall p q s, sign_code p q = Ok s ->
  s = (1,0)%Z \/ s = (0,-1)%Z \/ s = (-1,0)%Z \/ s = (0,1)%Z.
Proof. exact c04_sign_values. Qed.
Print Assumptions C04_phase_is_unit.

(* non-vacuity: a concrete anticommuting pair with a non-trivial phase *)
Example C04_example :
  sign_code [PX; PY; PZ] [PY; PY; PX] = Ok (-1, 0)%Z /\
  multiply_code [PX; PY; PZ] [PY; PY; PX] = Ok [PZ; PI; PY] /\
  commutes_code [PX; PY; PZ] [PY; PY; PX] = Ok true /\
  adjoint_code [PX; PI] [PZ; PI] = Ok (Some [PY; PI]).
Proof. repeat split. Qed.
