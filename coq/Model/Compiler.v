(* Model/Compiler.v — application/pauli_compiler.py: the universal generating set, the documented
   orientation of a returned sequence, its nested-commutator evaluation, and the validator compile_ok.
   The search itself is not modelled; its outputs are validated. *)
From PauLie Require Export Pauli.
From Coq Require Import Lia.

Definition get_single (n i : nat) (a : pl) : pstr := identity i ++ [a] ++ identity (n - i - 1).
(* left_a_minimal k = [X_0, Z_0, X_1, Z_1, ..., Z^k] *)
Definition left_a_minimal (k : nat) : list pstr :=
  flat_map (fun i => [get_single k i PX; get_single k i PZ]) (seq 0 k) ++ [repeat PZ k].
Definition choose_u (k : nat) : pstr := get_single k 0 PX.
Definition universal (N k : nat) : res (list pstr) :=
  if (Nat.leb 1 k && Nat.ltb k N)%bool then
    let nr := (N - k)%nat in
    Ok (map (fun a => a ++ identity nr) (left_a_minimal k)
        ++ map (fun j => choose_u k ++ get_single nr j PX) (seq 0 nr)
        ++ map (fun j => choose_u k ++ get_single nr j PZ) (seq 0 nr))
  else ValueError.
(* documented orientation: the last element is the base, the others are applied right to left:
   ad_{s_0} ( ad_{s_1} ( ... ad_{s_{m-1}} (s_m) ) ) *)
Fixpoint nested_eval (s : list pstr) : option pstr :=
  match s with
  | [] => None
  | [b] => Some b
  | a :: rest => match nested_eval rest with
                 | Some r => if anti_l a r then Some (smul a r) else None
                 | None => None
                 end
  end.
Definition memU (p : pstr) (l : list pstr) : bool := existsb (pstr_eqb p) l.
Definition compile_ok (N k : nat) (target : pstr) (s : list pstr) : bool :=
  match universal N k, s with
  | Ok U, _ :: _ => forallb (fun a => memU a U) s &&
                    match nested_eval s with Some r => pstr_eqb r target | None => false end
  | _, _ => false
  end.
