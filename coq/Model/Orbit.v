(* Model/Orbit.v — application/otoc.py (BFS over the orbit of V under commutation with the generators),
   graph_complexity.py (distances from V in that orbit), fourpoint.py. *)
From PauLie Require Export Sym.
Open Scope N_scope.
Definition memO (a : P) (l : list P) : bool := existsb (P_eqb a) l.
Section O.
Variable G : list P.
(* neighbours of t: t.g for the generators g anticommuting with t (the adjoint map t ^ g) *)
Definition nbrs (t : P) : list P := map (mul t) (filter (anti t) G).
(* the BFS of average_otoc: pop; skip if visited; else visit and push the neighbours not yet visited *)
Fixpoint bfs (fuel : nat) (queue visited : list P) : option (list P) :=
  match fuel with
  | O => None
  | S f =>
    match queue with
    | [] => Some visited
    | t :: q => if memO t visited then bfs f q visited
                else bfs f (q ++ filter (fun c => negb (memO c (t :: visited))) (nbrs t)) (t :: visited)
    end
  end.
(* level-by-level BFS: (vertex, distance) pairs *)
Fixpoint levels (fuel : nat) (frontier : list P) (seen : list P) (d : nat) (acc : list (P * nat)) : option (list (P * nat)) :=
  match fuel with
  | O => None
  | S f =>
    match frontier with
    | [] => Some acc
    | _ =>
      let next := fold_left (fun nx c => if memO c seen || memO c nx then nx else nx ++ [c]) (flat_map nbrs frontier) [] in
      levels f next (seen ++ next) (S d) (acc ++ map (fun c => (c, S d)) next)
    end
  end.
End O.
Definition fuel_for (n : nat) (G : list P) : nat := (S (length G)) * Nat.pow 4 n + 2.
(* average_otoc = 1 - 2 a / s : returns (a, s) *)
Definition otoc_counts (n : nat) (G : list pstr) (v w : pstr) : option (nat * nat) :=
  match bfs (map enc G) (fuel_for n (map enc G)) [enc v] [] with
  | Some vis => Some (length (filter (fun t => anti (enc w) t) vis), length vis)
  | None => None
  end.
(* average graph complexity = (sum of distances from v over its orbit) / (orbit size) : returns (sum, size) *)
Definition complexity_counts (n : nat) (G : list pstr) (v : pstr) : option (nat * nat) :=
  match levels (map enc G) (Nat.pow 4 n + 2) [enc v] [enc v] 0 [(enc v, 0%nat)] with
  | Some l => Some (fold_left (fun s x => (s + snd x)%nat) l 0%nat, length l)
  | None => None
  end.
