(* Model/Optimise.v — the contraction moves of PauliStringCollection.find_generators_with_connection.
   Every step of that loop (greedy or random) replaces one generator x by x.y for an entry (x, y) of
   list_connections, i.e. an anticommuting pair of current generators.  The choice of the pair (greedy score,
   randint) is abstracted as an explicit list of choices. *)
From PauLie Require Export Sym.
Open Scope N_scope.
Fixpoint findP (p : P) (l : list P) : option nat :=
  match l with [] => None | a :: t => if P_eqb p a then Some 0%nat else option_map S (findP p t) end.
Fixpoint set_nthP (i : nat) (x : P) (l : list P) : list P :=
  match l, i with [], _ => [] | _ :: t, O => x :: t | a :: t, S i' => a :: set_nthP i' x t end.
Definition memPl (a : P) (l : list P) : bool := existsb (P_eqb a) l.
(* contract(x, y): the first occurrence of x becomes x.y — performed only for an anticommuting pair of members *)
Definition contract1 (l : list P) (xy : P * P) : list P :=
  let (x, y) := xy in
  if memPl x l && memPl y l && anti x y then
    match findP x l with Some k => set_nthP k (mul x y) l | None => l end
  else l.
Definition run_contractions (l : list P) (choices : list (P * P)) : list P := fold_left contract1 choices l.
(* list_connections: the anticommuting pairs of the current generators *)
Fixpoint pairs {A} (l : list A) : list (A * A) := match l with [] => [] | a :: t => map (fun b => (a, b)) t ++ pairs t end.
Definition list_connections (l : list P) : list (P * P) := filter (fun xy => anti (fst xy) (snd xy)) (pairs l).
Definition anticommutation_pair (l : list P) : nat := length (list_connections l).
