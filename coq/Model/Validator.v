(* Model/Validator.v — validator of the observable result of the canonical reduction (C02, C11):
   star shape, accounting, dependents in the closure, closure equality, one graph per component. *)
From PauLie Require Export Sym ClosureN LieInv.
From PauLie Require Import ClosureGen.
Open Scope N_scope.

(* coordinates: centre = (0,0); j-th vertex of i-th leg (i >= 1) = (i, j) *)
Fixpoint coords_leg (i : nat) (j : nat) (leg : list P) : list (nat * nat * P) :=
  match leg with [] => [] | v :: t => (i, j, v) :: coords_leg i (S j) t end.
Fixpoint coords_legs (i : nat) (legs : list (list P)) : list (nat * nat * P) :=
  match legs with [] => [] | l :: t => coords_leg i 0 l ++ coords_legs (S i) t end.
Definition adjacent (a b : nat * nat) : bool :=
  let '(i, j) := a in let '(i', j') := b in
  match i, i' with
  | O, O => false
  | O, S _ => Nat.eqb j' 0
  | S _, O => Nat.eqb j 0
  | S _, S _ => Nat.eqb i i' && (Nat.eqb j (S j') || Nat.eqb j' (S j))
  end.
Fixpoint nodupP (l : list P) : bool := match l with [] => true | a :: t => negb (memP a t) && nodupP t end.
Definition star_ok (legs : list (list P)) : bool :=
  match legs with
  | [c] :: rest =>
      let cs := coords_legs 0 legs in
      nodupP (map snd cs) &&
      forallb (fun l => match l with [] => false | _ => true end) rest &&
      Nat.leb (count (fun l => Nat.ltb 2 (length l)) rest) 1 &&
      forallb (fun u => forallb (fun v =>
         P_eqb (snd u) (snd v) || Bool.eqb (anti (snd u) (snd v)) (adjacent (fst u) (fst v))) cs) cs
  | _ => false
  end.

Definition closure_eq (n : N) (A B : list P) : bool :=
  match closureN n A, closureN n B with Some s, Some t => PS.equal s t | _, _ => false end.
Definition all_in_closure (n : N) (G X : list P) : bool :=
  match closureN n G with Some s => forallb (fun x => PS.mem (codeN n x) s) X | None => false end.
Definition subsetP (A B : list P) : bool := forallb (fun a => memP a B) A.

Record verdict := { v_shape : bool; v_acct : bool; v_deps : bool; v_closure : bool; v_comps : bool }.
(* morphs: list of (legs, dependents) *)
Definition reduction_check (n : N) (G : list P) (morphs : list (list (list P) * list P)) : verdict :=
  let verts := flat_map (fun m => concat (fst m)) morphs in
  let deps := flat_map snd morphs in
  let comps := gen_components G in
  {| v_shape := forallb (fun m => star_ok (fst m)) morphs;
     v_acct := Nat.leb (length verts + length (dedup deps)) (length (dedup G)) && Nat.leb (length (dedup G)) (length verts + length deps) && nodupP verts;
     v_deps := all_in_closure n verts deps;
     v_closure := closure_eq n G verts;
     v_comps := Nat.eqb (length morphs) (length comps) &&
                forallb (fun K => existsb (fun m => closure_eq n K (concat (fst m))) morphs) comps |}.
Definition reduction_ok n G morphs : bool :=
  let v := reduction_check n G morphs in v_shape v && v_acct v && v_deps v && v_closure v && v_comps v.
(* same, letters in *)
Definition reduction_check_strs (n : nat) (G : list pstr) (morphs : list (list (list pstr) * list pstr)) : verdict :=
  reduction_check (N.of_nat n) (map enc G) (map (fun m => (map (map enc) (fst m), map enc (snd m))) morphs).
(* the part that needs no closure enumeration (any n) *)
Definition shape_acct_strs (G : list pstr) (morphs : list (list (list pstr) * list pstr)) : bool * bool :=
  let G' := map enc G in
  let ms := map (fun m => (map (map enc) (fst m), map enc (snd m))) morphs in
  let verts := flat_map (fun m => concat (fst m)) ms in
  let deps := flat_map snd ms in
  (forallb (fun m => star_ok (fst m)) ms && Nat.eqb (length ms) (length (gen_components G')),
   Nat.leb (length verts + length (dedup deps)) (length (dedup G')) && Nat.leb (length (dedup G')) (length verts + length deps) && nodupP verts).
