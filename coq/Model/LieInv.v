(* Model/LieInv.v — invariants of the Lie algebra spanned by the commutator
   closure, computed from the verified closure (DESIGN 3.1):
   number of central generators, and per connected generator component C the
   triple (|Cl C|, |Z_C|, degree). *)
From PauLie Require Export Sym ClosureN.
From PauLie Require Import ClosureGen.
Open Scope N_scope.
Definition memP (a : P) (l : list P) : bool := existsb (P_eqb a) l.
Fixpoint dedup (l : list P) : list P :=
  match l with [] => [] | a :: t => if memP a t then dedup t else a :: dedup t end.
Fixpoint grow (fuel : nat) (comp rest : list P) : list P * list P :=
  match fuel with
  | O => (comp, rest)
  | S f =>
    let (adj, far) := partition (fun r => existsb (fun c => anti c r) comp) rest in
    match adj with [] => (comp, rest) | _ => grow f (comp ++ adj) far end
  end.
Fixpoint components (fuel : nat) (l : list P) : list (list P) :=
  match fuel with
  | O => []
  | S f => match l with
           | [] => []
           | a :: t => let (c, rest) := grow (length t) [a] t in c :: components f rest
           end
  end.
Definition gen_components (G : list P) : list (list P) := let g := dedup G in components (length g) g.

Definition count {A} (f : A -> bool) (l : list A) : nat := length (filter f l).
(* invariants of one connected component with at least two generators *)
Definition comp_inv (n : N) (comp : list P) : option (nat * nat * nat) :=
  match comp, closureN n comp with
  | c0 :: _, Some s =>
      let els := map (decodeN n) (PS.elements s) in
      let isz := fun c => let z := mul c0 c in
                   forallb (fun g => negb (anti z g)) comp && forallb (fun g => PS.mem (codeN n (mul z g)) s) comp in
      Some (length els, count isz els, count (fun b => anti c0 b) els)
  | _, _ => None
  end.
Definition lie_inv (n : nat) (G : list pstr) : option (nat * list (nat * nat * nat)) :=
  if forallb (fun g => Nat.eqb (length g) n) G then
    let comps := gen_components (map enc G) in
    let singles := count (fun c => Nat.eqb (length c) 1) comps in
    let big := filter (fun c => negb (Nat.eqb (length c) 1)) comps in
    let invs := map (comp_inv (N.of_nat n)) big in
    if forallb (fun o => match o with Some _ => true | None => false end) invs
    then Some (singles, flat_map (fun o => match o with Some t => [t] | None => [] end) invs)
    else None
  else None.
(* components of the generators as strings, for C02/C14 *)
Definition gen_components_strs (n : nat) (G : list pstr) : list (list pstr) :=
  map (map (dec n)) (gen_components (map enc G)).
