(* Model/Parser.v — common/pauli_string_parser.py, step for step, over lists of ASCII characters.
   `fixed = true`: digits are the ten ASCII digits and numbers are non-empty digit strings (repaired code);
   `fixed = false`: Python's int() on ASCII text (optional surrounding whitespace, optional sign, digit groups
   separated by single underscores), as the pinned snapshot uses it.  Non-ASCII input is outside the model. *)
From PauLie Require Export Pauli.
From Coq Require Export Ascii NArith.
Open Scope char_scope.

Definition is_gate (c : ascii) : bool := (c =? "I") || (c =? "X") || (c =? "Y") || (c =? "Z").
Definition is_token (c : ascii) : bool := is_gate c || (c =? "_") || (c =? "s").
Definition gate_of (c : ascii) : pl := if c =? "X" then PX else if c =? "Y" then PY else if c =? "Z" then PZ else PI.
Definition char_of (a : pl) : ascii := match a with PI => "I" | PX => "X" | PY => "Y" | PZ => "Z" end.
Definition to_text (p : pstr) : list ascii := map char_of p.
Definition digit_val (c : ascii) : option N :=
  let n := N_of_ascii c in if (48 <=? n)%N && (n <=? 57)%N then Some (n - 48)%N else None.
Definition is_digit (c : ascii) : bool := match digit_val c with Some _ => true | None => false end.

(* ---- numbers ---- *)
Fixpoint digits_val (acc : N) (l : list ascii) : option N :=
  match l with
  | [] => Some acc
  | c :: t => match digit_val c with Some d => digits_val (10 * acc + d)%N t | None => None end
  end.
(* repaired _to_int: non-empty, ASCII digits only *)
Definition to_int_fixed (l : list ascii) : option Z :=
  match l with [] => None | _ => option_map Z.of_N (digits_val 0 l) end.
(* Python int() on ASCII: strip whitespace, optional sign, digits with single inner underscores *)
Definition is_space (c : ascii) : bool := let n := N_of_ascii c in (n =? 32)%N || ((9 <=? n)%N && (n <=? 13)%N) || ((28 <=? n)%N && (n <=? 31)%N).
Fixpoint lstrip (l : list ascii) : list ascii := match l with c :: t => if is_space c then lstrip t else l | [] => [] end.
Definition strip (l : list ascii) : list ascii := rev (lstrip (rev (lstrip l))).
(* digits with underscores: a digit, then (optional '_' followed by a digit)* *)
Fixpoint und_digits (acc : N) (l : list ascii) (need_digit : bool) : option N :=
  match l with
  | [] => if need_digit then None else Some acc
  | c :: t =>
    match digit_val c with
    | Some d => und_digits (10 * acc + d)%N t false
    | None => if (c =? "_") && negb need_digit then und_digits acc t true else None
    end
  end.
Definition py_int (l : list ascii) : option Z :=
  match strip l with
  | "+" :: t => option_map Z.of_N (und_digits 0 t true)
  | "-" :: t => option_map (fun n => Z.opp (Z.of_N n)) (und_digits 0 t true)
  | t => option_map Z.of_N (und_digits 0 t true)
  end.
Definition to_int (fixed : bool) (l : list ascii) : option Z := if fixed then to_int_fixed l else py_int l.
(* _is_number on one character: Some true = digit, Some false = token, None = ValueError *)
Definition is_number (fixed : bool) (c : ascii) : option bool :=
  if (if fixed then is_digit c else match py_int [c] with Some _ => true | None => false end) then Some true
  else if is_token c then Some false else None.

Inductive pres := POk (p : pstr) | PErr.

(* split at the first 's' *)
Fixpoint find_s (l : list ascii) : option (list ascii * list ascii) :=
  match l with
  | [] => None
  | c :: t => if c =? "s" then Some ([], t)
              else match find_s t with Some (a, b) => Some (c :: a, b) | None => None end
  end.
(* the inner while loop: collect number characters until a token; None = ValueError *)
Fixpoint read_number (fixed : bool) (l : list ascii) : option (list ascii * list ascii) :=
  match l with
  | [] => Some ([], [])
  | c :: t => if is_token c then Some ([], l)
              else match is_number fixed c with
                   | Some true => match read_number fixed t with Some (ds, r) => Some (c :: ds, r) | None => None end
                   | _ => None
                   end
  end.
(* the outer while loop, on fuel (each iteration consumes at least one character) *)
Fixpoint parse_ops (fixed : bool) (fuel : nat) (l : list ascii) (acc : pstr) : pres :=
  match fuel with
  | O => match l with [] => POk acc | _ => PErr end
  | S f =>
    match l with
    | [] => POk acc
    | c :: rest =>
      if negb (is_gate c) then PErr else
      match rest with
      | u :: (_ :: _) as r2 =>
        if u =? "_" then
          match read_number fixed r2 with
          | None => PErr
          | Some (ds, r3) =>
            match to_int fixed ds with
            | None => PErr
            | Some pos =>
              if (pos - Z.of_nat (length acc) - 1 <? 0)%Z then PErr
              else parse_ops fixed f r3 (acc ++ identity (Z.to_nat (pos - Z.of_nat (length acc) - 1)) ++ [gate_of c])
            end
          end
        else parse_ops fixed f rest (acc ++ [gate_of c])
      | _ => parse_ops fixed f rest (acc ++ [gate_of c])
      end
    end
  end.
Definition parse_text (fixed : bool) (text : list ascii) : pres :=
  let (body, size) :=
    match find_s text with
    | None => (Some text, Some None)
    | Some (a, []) => (None, None)                       (* 's' is the last character *)
    | Some (a, b) => match to_int fixed b with Some z => (Some a, Some (Some z)) | None => (None, None) end
    end in
  match body, size with
  | Some a, Some sz =>
    match parse_ops fixed (length a) a [] with
    | PErr => PErr
    | POk p =>
      match sz with
      | None => POk p
      | Some z => if (z <? Z.of_nat (length p))%Z then PErr else POk (p ++ identity (Z.to_nat z - length p))
      end
    end
  | _, _ => PErr
  end.

(* ---- k-local expansion (common/pauli_string_factory.py) ---- *)
Definition memL (p : pstr) (l : list pstr) : bool := existsb (pstr_eqb p) l.
(* gen_k_local: translates of p along n qubits, skipping those already produced *)
Fixpoint k_local (n : nat) (p : pstr) (k : nat) (cnt : nat) (used out : list pstr) : list pstr * list pstr :=
  match cnt with
  | O => (used, out)
  | S c => let t := identity k ++ p ++ identity (n - length p - k) in
           if memL t used then k_local n p (S k) c used out
           else k_local n p (S k) c (t :: used) (out ++ [t])
  end.
Definition maxlenL (l : list pstr) : nat := fold_right (fun g m => Nat.max (length g) m) 0%nat l.
(* get_pauli_string(list, n): strings padded to the longest, then every generator's translates in order *)
Definition k_local_generators (n : nat) (gens : list pstr) : res (list pstr) :=
  let m := maxlenL gens in
  match gens with [] => ValueError | _ =>
  if Nat.ltb n m then ValueError else
  Ok (snd (fold_left (fun st g => let g' := g ++ identity (m - length g) in
                                   k_local n g' 0 (n - m + 1) (fst st) (snd st)) gens ([], [])))
  end.
