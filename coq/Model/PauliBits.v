(* Model/PauliBits.v — the three-view object of common/pauli_string_bitarray.py: bits, bits_even = bits[::2],
   bits_odd = bits[1::2], with the in-place edits set_substring / __setitem__ / inc and Python index semantics. *)
From PauLie Require Export Pauli.
From Coq Require Import Lia.

Record obj := { obits : list bool; oeven : list bool; oodd : list bool }.
Definition fresh_bits (b : list bool) : obj := {| obits := b; oeven := evens b; oodd := odds b |}.
Definition fresh (p : pstr) : obj := fresh_bits (bits p).
Definition text (o : obj) : pstr := of_bits (obits o).

(* l[j] = v with Python's negative indices; None = IndexError *)
Fixpoint set_nat (l : list bool) (j : nat) (v : bool) : list bool :=
  match l, j with [], _ => [] | _ :: t, O => v :: t | a :: t, S j' => a :: set_nat t j' v end.
Definition py_index (len : nat) (j : Z) : option nat :=
  let k := if (j <? 0)%Z then (j + Z.of_nat len)%Z else j in
  if ((0 <=? k) && (k <? Z.of_nat len))%Z then Some (Z.to_nat k) else None.
Definition set_idx (l : list bool) (j : Z) (v : bool) : option (list bool) :=
  match py_index (length l) j with Some k => Some (set_nat l k v) | None => None end.

(* one iteration of the loop of set_substring: four assignments, any of which may raise *)
Definition set_letter (o : obj) (j : Z) (x z : bool) : obj * bool :=
  match set_idx (obits o) (2 * j) x with
  | None => (o, false)
  | Some b1 =>
    match set_idx b1 (2 * j + 1) z with
    | None => ({| obits := b1; oeven := oeven o; oodd := oodd o |}, false)
    | Some b2 =>
      match set_idx (oeven o) j x with
      | None => ({| obits := b2; oeven := oeven o; oodd := oodd o |}, false)
      | Some e =>
        match set_idx (oodd o) j z with
        | None => ({| obits := b2; oeven := e; oodd := oodd o |}, false)
        | Some d => ({| obits := b2; oeven := e; oodd := d |}, true)
        end
      end
    end
  end.
(* set_substring start sub: letters of sub one after another; stops at the first IndexError *)
Fixpoint set_substring (o : obj) (start : Z) (sub : pstr) : obj * bool :=
  match sub with
  | [] => (o, true)
  | a :: t => let (o', ok) := set_letter o start (xb a) (zb a) in
              if ok then set_substring o' (start + 1) t else (o', false)
  end.
(* inc: binary increment from the right with wrap-around, then both views rebuilt *)
Fixpoint inc_rev (l : list bool) : list bool :=
  match l with [] => [] | false :: t => true :: t | true :: t => false :: inc_rev t end.
Definition inc_bits (b : list bool) : list bool := rev (inc_rev (rev b)).
Definition inc (o : obj) : obj := fresh_bits (inc_bits (obits o)).

Inductive edit := SetSub (start : Z) (sub : pstr) | Inc.
Definition apply_edit (o : obj) (e : edit) : obj :=
  match e with SetSub s sub => fst (set_substring o s sub) | Inc => inc o end.

(* observations *)
Definition ba2int (l : list bool) : Z := fold_left (fun acc (b : bool) => (2 * acc + (if b then 1 else 0))%Z) l 0%Z.
Definition get_index (o : obj) : Z := ba2int (obits o).
Definition get_diagonal_index (o : obj) : Z := if (ba2int (oeven o) =? 0)%Z then ba2int (oodd o) else (-1)%Z.
(* Python slice l[a:b] for 0 <= a *)
Definition slice (l : list bool) (a b : nat) : list bool := firstn (b - a) (skipn a l).
(* enumeration of all strings: while p != last: yield p; inc; finally yield last *)
Fixpoint all_ones (l : list bool) : bool := match l with [] => true | b :: t => b && all_ones t end.
Fixpoint gen_loop (fuel : nat) (b : list bool) : list (list bool) :=
  match fuel with
  | O => []
  | S f => if all_ones b then [b] else b :: gen_loop f (inc_bits b)
  end.
Definition gen_all (n : nat) : list pstr :=
  map of_bits (gen_loop (Nat.pow 4 n) (repeat false (2 * n))).
