(* Model/Member.v — specification of the membership API (C08) over the verified closure. *)
From PauLie Require Export Sym ClosureN.
From PauLie Require Import ClosureGen.
Open Scope N_scope.
Definition in_closure (n : N) (G : list P) (x : P) : bool :=
  match closureN n G with Some s => PS.mem (codeN n x) s | None => false end.
(* select_dependents: the members of X that lie in the closure, in order *)
Definition select_dep (n : N) (G X : list P) : list P :=
  match closureN n G with Some s => filter (fun x => PS.mem (codeN n x) s) X | None => [] end.
(* is_in: false on an empty collection, else every query string is in the closure *)
Definition is_in (n : N) (G X : list P) : bool :=
  match G with [] => false | _ =>
    match closureN n G with Some s => forallb (fun x => PS.mem (codeN n x) s) X | None => false end end.
Definition is_eq (n : N) (G H : list P) : bool := is_in n G H && is_in n H G.
(* get_space: the closure without the identity string *)
Definition space (n : N) (G : list P) : list P :=
  match closureN n G with
  | Some s => filter (fun a => negb (P_eqb a pid)) (map (decodeN n) (PS.elements s))
  | None => [] end.
Record member_ans := { m_sel : list pstr; m_in : bool; m_eq : bool }.
Definition member_strs (n : nat) (G X : list pstr) : member_ans :=
  let N' := N.of_nat n in let g := map enc G in let x := map enc X in
  {| m_sel := map (dec n) (select_dep N' g x); m_in := is_in N' g x; m_eq := is_eq N' g x |}.
Definition space_strs (n : nat) (G : list pstr) : list pstr := map (dec n) (space (N.of_nat n) (map enc G)).
