(* Model/Pauli.v — letters, strings, the bit-level object of
   common/pauli_string_bitarray.py, Gaussian integers.  Definitions only. *)
From Coq Require Export ZArith List Bool.
Export ListNotations.
Open Scope Z_scope.

(* ---------- Gaussian integers ---------- *)
Definition gi := (Z * Z)%type.
Definition g0 : gi := (0,0).
Definition g1 : gi := (1,0).
Definition gI : gi := (0,1).
Definition gadd (a b: gi) : gi := (fst a + fst b, snd a + snd b).
Definition gneg (a : gi) : gi := (- fst a, - snd a).
Definition gsub (a b : gi) : gi := gadd a (gneg b).
Definition gmul (a b: gi) : gi := (fst a * fst b - snd a * snd b, fst a * snd b + snd a * fst b).
Definition gconj (a : gi) : gi := (fst a, - snd a).
Definition gi_eqb (a b : gi) : bool := (fst a =? fst b) && (snd a =? snd b).
Definition gsum {A} (l: list A) (f: A -> gi) : gi := fold_right (fun x acc => gadd (f x) acc) g0 l.

(* ---------- letters; CODEC of the source: I=00 X=10 Y=11 Z=01 (x bit, z bit) ---------- *)
Inductive pl := PI | PX | PY | PZ.
Definition xb p := match p with PX | PY => true | _ => false end.
Definition zb p := match p with PY | PZ => true | _ => false end.
Definition ofb (x z: bool) := match x, z with false,false => PI | true,false => PX | true,true => PY | false,true => PZ end.
Definition pm a b := ofb (xorb (xb a) (xb b)) (xorb (zb a) (zb b)).
Definition pl_eqb (a b : pl) : bool := Bool.eqb (xb a) (xb b) && Bool.eqb (zb a) (zb b).
Definition pstr := list pl.
Fixpoint pstr_eqb (p q : pstr) : bool :=
  match p, q with
  | [], [] => true
  | a :: p', b :: q' => pl_eqb a b && pstr_eqb p' q'
  | _, _ => false
  end.

(* truncating letter-wise product (used under an equal-length guard) *)
Fixpoint smul (p q: pstr) : pstr := match p, q with a::p', b::q' => pm a b :: smul p' q' | _, _ => [] end.
(* letter-level symplectic form *)
Definition anti1 (a b : pl) : bool := xorb (xb a && zb b) (zb a && xb b).
Fixpoint anti_l (p q : pstr) : bool := match p, q with a::p', b::q' => xorb (anti1 a b) (anti_l p' q') | _, _ => false end.
Definition is_id1 (a : pl) := match a with PI => true | _ => false end.
Definition is_identity (p : pstr) : bool := forallb is_id1 p.
Definition wt (p : pstr) : nat := length (filter (fun a => negb (is_id1 a)) p).
Definition ycount (p : pstr) : nat := length (filter (fun a => xb a && zb a) p).
Definition identity (n : nat) : pstr := repeat PI n.

(* ---------- bit-level object: bits, bits[::2], bits[1::2] ---------- *)
Definition bits (p : pstr) : list bool := flat_map (fun a => [xb a; zb a]) p.
Fixpoint evens (l : list bool) : list bool :=
  match l with a :: _ :: t => a :: evens t | [a] => [a] | [] => [] end.
Fixpoint odds (l : list bool) : list bool :=
  match l with _ :: b :: t => b :: odds t | _ => [] end.
Fixpoint of_bits (l : list bool) : pstr :=
  match l with x :: z :: t => ofb x z :: of_bits t | _ => [] end.
Fixpoint count_and (a b : list bool) : Z :=
  match a, b with x::a', y::b' => (if x && y then 1 else 0) + count_and a' b' | _, _ => 0 end.
Fixpoint count_or (a b : list bool) : Z :=
  match a, b with x::a', y::b' => (if x || y then 1 else 0) + count_or a' b' | _, _ => 0 end.
Fixpoint bxor (a b : list bool) : list bool :=
  match a, b with x::a', y::b' => xorb x y :: bxor a' b' | _, _ => [] end.

(* (-1j) ** (f % 4) *)
Definition mi_pow (f : Z) : gi :=
  match f mod 4 with 0 => (1,0) | 1 => (0,-1) | 2 => (-1,0) | _ => (0,1) end.

(* PauliString.sign: the exponent f, as written in the source *)
Definition sign_exp (p q : pstr) : Z :=
  let se := evens (bits p) in let so := odds (bits p) in
  let oe := evens (bits q) in let oo := odds (bits q) in
  2 * count_and se oo + count_and so se + count_and oo oe - count_and (bxor se oe) (bxor so oo).

Inductive res (A : Type) := Ok (a : A) | ValueError.
Arguments Ok {A} a. Arguments ValueError {A}.

Definition sign_code (p q : pstr) : res gi :=
  if Nat.eqb (length p) (length q) then Ok (mi_pow (sign_exp p q)) else ValueError.
Definition commutes_code (p q : pstr) : res bool :=
  if Nat.eqb (length p) (length q) then
    Ok (Z.eqb (count_and (evens (bits p)) (odds (bits q)) mod 2)
              (count_and (evens (bits q)) (odds (bits p)) mod 2))
  else ValueError.
Definition multiply_code (p q : pstr) : res pstr :=
  if Nat.eqb (length (bits p)) (length (bits q)) then Ok (of_bits (bxor (bits p) (bits q))) else ValueError.
(* adjoint_map: commutes_with first (raises on unequal length), then xor *)
Definition adjoint_code (p q : pstr) : res (option pstr) :=
  match commutes_code p q with
  | ValueError => ValueError
  | Ok true => Ok None
  | Ok false => match multiply_code p q with Ok r => Ok (Some r) | ValueError => ValueError end
  end.
(* complex_conj: (-1) ** count_and(bits_odd, bits_even) *)
Definition conj_code (p : pstr) : Z :=
  if Z.even (count_and (odds (bits p)) (evens (bits p))) then 1 else -1.
(* get_count_non_trivially *)
Definition weight_code (p : pstr) : Z := count_or (evens (bits p)) (odds (bits p)).
