(* Model/Graph.v — commutants, anticommutation graph, commutator graph, connected components, pair counts
   (common/pauli_string_collection.py, common/get_graph.py, application/charges.py). *)
From PauLie Require Export Pauli.
From Coq Require Import Lia.

(* all strings of length n in index order (I < Z < X < Y per letter, first letter most significant) *)
Fixpoint all_strs (n : nat) : list pstr :=
  match n with O => [[]] | S m => flat_map (fun a => map (cons a) (all_strs m)) [PI; PZ; PX; PY] end.
Definition memG (p : pstr) (l : list pstr) : bool := existsb (pstr_eqb p) l.
(* get_commutants: successive filters, one per member; an empty collection has no commutants *)
Definition commutants (n : nat) (G : list pstr) : list pstr :=
  match G with [] => @nil pstr | _ => fold_left (fun (cand : list pstr) (g : pstr) => filter (fun p => negb (anti_l g p)) cand) G (all_strs n) end.
(* get_graph: combinations(generators, 2) in order; edge when the adjoint map is non-empty and, if a non-empty
   filter is given, the product is in the filter; label = product *)
Fixpoint pairs_of (l : list pstr) : list (pstr * pstr) :=
  match l with [] => [] | a :: t => map (fun b => (a, b)) t ++ pairs_of t end.
Definition graph_edges (gens filt : list pstr) : list (pstr * pstr * pstr) :=
  flat_map (fun ab : pstr * pstr => let (a, b) := ab in
                      if anti_l a b && (match filt with [] => true | _ => memG (smul a b) filt end)
                      then [(a, b, smul a b)] else []) (pairs_of gens).
Definition anticommutation_graph (G : list pstr) : list pstr * list (pstr * pstr * pstr) := (G, graph_edges G []).
Definition commutator_graph (n : nat) (G : list pstr) : list pstr * list (pstr * pstr * pstr) :=
  (all_strs n, graph_edges (all_strs n) G).
Definition pair_count (G : list pstr) : nat := (length G * (length G - 1)) / 2.
Definition anticommutation_pair (G : list pstr) : nat := length (graph_edges G []).

(* connected components of (vertices, adjacency): grow a component from a seed until nothing adjacent is left *)
Section Comp.
Variable A : Type.
Variable adj : A -> A -> bool.
Fixpoint grow (fuel : nat) (comp rest : list A) : list A * list A :=
  match fuel with
  | O => (comp, rest)
  | S f =>
    let (near, far) := partition (fun r => existsb (fun c => adj c r) comp) rest in
    match near with [] => (comp, rest) | _ => grow f (comp ++ near) far end
  end.
Fixpoint components (fuel : nat) (l : list A) : list (list A) :=
  match fuel with
  | O => []
  | S f => match l with
           | [] => []
           | a :: t => let (c, rest) := grow (length t) [a] t in c :: components f rest
           end
  end.
Definition comps (l : list A) : list (list A) := components (length l) l.
End Comp.
Fixpoint dedupS (l : list pstr) : list pstr := match l with [] => [] | a :: t => if memG a t then dedupS t else a :: dedupS t end.
(* get_subgraphs: components of the anticommutation graph on the distinct members *)
Definition anti_components (G : list pstr) : list (list pstr) := comps pstr anti_l (dedupS G).
(* components of the commutator graph *)
Definition commutator_components (n : nat) (G : list pstr) : list (list pstr) :=
  comps pstr (fun p q => anti_l p q && memG (smul p q) G) (all_strs n).
(* non_commuting_charges: commutants that anticommute with some other commutant, in order of first appearance
   in combinations(commutants, 2) *)
Definition charges (n : nat) (G : list pstr) : list pstr :=
  fold_left (fun (acc : list pstr) (cq : pstr * pstr) => let (c, q) := cq in
                           if anti_l c q then
                             let acc1 := if memG c acc then acc else acc ++ [c] in
                             if memG q acc1 then acc1 else acc1 ++ [q]
                           else acc) (pairs_of (commutants n G)) [].
