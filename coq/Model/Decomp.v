(* Model/Decomp.v — application/matrix_decomposition.py and average_pauli_weight.py over exact Gaussian integers.
   The source divides by 2 at every level; the model keeps the integer numerators: every function here returns
   2^n times the source's weight vector (the harness multiplies the implementation's floats by 2^n, exactly). *)
From PauLie Require Export Pauli Matrix.
From Coq Require Import Lia.

Definition gvec := list gi.
Definition vadd (x y : gvec) : gvec := map (fun p => gadd (fst p) (snd p)) (combine x y).
Definition vsub (x y : gvec) : gvec := map (fun p => gsub (fst p) (snd p)) (combine x y).
Definition vimul (x : gvec) : gvec := map (gmul gI) x.
(* sub-block of a matrix: first row bit b, first column bit c *)
Definition blk (A : mat) (b c : bool) : mat := fun r k => A (b :: r) (c :: k).
(* _mat_to_vec: vec(M) = vec(A00) ++ vec(A11) ++ vec(A01) ++ vec(A10), first qubit outermost *)
Fixpoint vec (n : nat) (A : mat) : gvec :=
  match n with
  | O => [A [] []]
  | S m => vec m (blk A false false) ++ vec m (blk A true true) ++ vec m (blk A false true) ++ vec m (blk A true false)
  end.
(* the butterfly in block-recursive form (same arithmetic as the source's strided loop, see bfly_iter) *)
Fixpoint bfly (n : nat) (v : gvec) : gvec :=
  match n with
  | O => v
  | S m =>
    let q := Nat.pow 4 m in
    let u0 := bfly m (firstn q v) in
    let u1 := bfly m (firstn q (skipn q v)) in
    let u2 := bfly m (firstn q (skipn (2 * q) v)) in
    let u3 := bfly m (firstn q (skipn (3 * q) v)) in
    vadd u0 u1 ++ vsub u0 u1 ++ vadd u2 u3 ++ vimul (vsub u2 u3)
  end.
Definition decompose (n : nat) (A : mat) : gvec := bfly n (vec n A).

(* the source's iterative loop: for h = 1, 4, 16, ...: for every block of 4h entries: (x+y, x-y, z+w, i(z-w)) *)
Fixpoint pass (fuel h : nat) (b : gvec) : gvec :=
  match fuel with
  | O => b
  | S f =>
    match b with
    | [] => []
    | _ => let x := firstn h b in let y := firstn h (skipn h b) in
           let z := firstn h (skipn (2 * h) b) in let w := firstn h (skipn (3 * h) b) in
           vadd x y ++ vsub x y ++ vadd z w ++ vimul (vsub z w) ++ pass f h (skipn (4 * h) b)
    end
  end.
Fixpoint passes (levels h : nat) (b : gvec) : gvec :=
  match levels with O => b | S l => passes l (4 * h) (pass (length b) h b) end.
Definition bfly_iter (n : nat) (v : gvec) : gvec := passes n 1 v.
Definition decompose_iter (n : nat) (A : mat) : gvec := bfly_iter n (vec n A).

(* diagonal variant: two-way butterfly on the diagonal *)
Fixpoint dvec (n : nat) (d : list bool -> gi) : gvec :=
  match n with O => [d []] | S m => dvec m (fun r => d (false :: r)) ++ dvec m (fun r => d (true :: r)) end.
Fixpoint dbfly (n : nat) (v : gvec) : gvec :=
  match n with
  | O => v
  | S m => let q := Nat.pow 2 m in
           let u0 := dbfly m (firstn q v) in let u1 := dbfly m (firstn q (skipn q v)) in
           vadd u0 u1 ++ vsub u0 u1
  end.
Definition decompose_diag (n : nat) (d : list bool -> gi) : gvec := dbfly n (dvec n d).
(* the source's iterative loop of the diagonal variant: for h = 1, 2, 4, ...: every block of 2h entries -> (x+y, x-y) *)
Fixpoint dpass (fuel h : nat) (b : gvec) : gvec :=
  match fuel with
  | O => b
  | S f =>
    match b with
    | [] => []
    | _ => let x := firstn h b in let y := firstn h (skipn h b) in
           vadd x y ++ vsub x y ++ dpass f h (skipn (2 * h) b)
    end
  end.
Fixpoint dpasses (levels h : nat) (b : gvec) : gvec :=
  match levels with O => b | S l => dpasses l (2 * h) (dpass (length b) h b) end.
Definition dbfly_iter (n : nat) (v : gvec) : gvec := dpasses n 1 v.
Definition decompose_diag_iter (n : nat) (d : list bool -> gi) : gvec := dbfly_iter n (dvec n d).

(* index conventions of PauliString: get_index = ba2int(bits); get_diagonal_index = ba2int(z-bits) if no x-bit else -1 *)
Definition digit (a : pl) : nat := match a with PI => 0 | PZ => 1 | PX => 2 | PY => 3 end.
Fixpoint index (p : pstr) : nat := match p with [] => 0 | a :: t => digit a * Nat.pow 4 (length t) + index t end.
Fixpoint dindex (p : pstr) : option nat :=
  match p with
  | [] => Some 0%nat
  | a :: t => if xb a then None else match dindex t with Some k => Some ((if zb a then 1 else 0) * Nat.pow 2 (length t) + k)%nat | None => None end
  end.
(* get_weight_in_matrix: dispatch on the vector length *)
Definition weight_in (p : pstr) (b : gvec) : res gi :=
  let n := length p in
  if Nat.eqb (length b) (Nat.pow 2 n) then Ok (match dindex p with Some k => nth k b g0 | None => g0 end)
  else if Nat.eqb (length b) (Nat.pow 4 n) then Ok (nth (index p) b g0)
  else ValueError.
(* get_pauli_weights(n, identity_pos): number of base-4 digits (n of them) different from identity_pos *)
Fixpoint digits_ne (n i pos : nat) : nat :=
  match n with O => 0%nat | S m => (if Nat.eqb (i mod 4) pos then 0 else 1) + digits_ne m (i / 4) pos end.
Definition pauli_weights (n pos : nat) : list nat := map (fun i => digits_ne n i pos) (seq 0 (Nat.pow 4 n)).
(* shape validation of matrix_decomposition: (ndim, rows, cols) *)
Definition is_pow2 (k : nat) : bool := existsb (fun e => Nat.eqb k (Nat.pow 2 e)) (seq 0 (S k)).
Definition shape_ok (ndim rows cols : nat) : bool :=
  Nat.eqb ndim 2 && Nat.eqb rows cols && negb (Nat.eqb rows 1) && is_pow2 rows.
Definition diag_shape_ok (ndim len : nat) : bool := Nat.eqb ndim 1 && negb (Nat.eqb len 1) && is_pow2 len.
