(* Model/Families.v — the generator lists of the two-local families (common/two_local_generators.py: G_LIE) for
   which Theory/TwoLocalFullT.v proves "su(2^n) for every n from the bound on"; compared with G_LIE on every run. *)
From PauLie Require Export Pauli.
Definition fam_a12 := [[PX;PX]; [PX;PY]; [PY;PZ]].
Definition fam_a17 := [[PX;PX]; [PX;PY]; [PZ;PX]].
Definition fam_a18 := [[PX;PX]; [PX;PZ]; [PY;PY]; [PZ;PY]].
Definition fam_a19 := [[PX;PX]; [PX;PY]; [PZ;PX]; [PY;PZ]].
Definition fam_a21 := [[PX;PX]; [PY;PY]; [PX;PY]; [PZ;PX]].
Definition fam_a22 := [[PX;PX]; [PX;PY]; [PX;PZ]; [PY;PX]].

(* (family number, bound n0, generators) *)
Definition su_family_table : list (nat * nat * list pstr) :=
  [(12, 4, fam_a12); (17, 4, fam_a17); (18, 3, fam_a18); (19, 3, fam_a19); (21, 3, fam_a21); (22, 3, fam_a22)]%nat.
