(* Model/Sym.v — the algebraic core: Pauli strings modulo phase as pairs of
   bit masks (x-mask, z-mask) in N, product = xor, symplectic form by parity. *)
From PauLie Require Export Pauli.
From Coq Require Export NArith PArith.
Open Scope N_scope.
Fixpoint ppar (p : positive) : bool :=
  match p with xH => true | xO q => ppar q | xI q => negb (ppar q) end.
Definition npar (n : N) : bool := match n with N0 => false | Npos p => ppar p end.
Definition P := (N * N)%type.
Definition mul (a b : P) : P := (N.lxor (fst a) (fst b), N.lxor (snd a) (snd b)).
Definition anti (a b : P) : bool := xorb (npar (N.land (fst a) (snd b))) (npar (N.land (snd a) (fst b))).
Definition P_eqb (a b : P) : bool := N.eqb (fst a) (fst b) && N.eqb (snd a) (snd b).
Definition pid : P := (0, 0).
(* letters <-> masks; the first letter is the least significant bit *)
Fixpoint encx (p : pstr) : N := match p with [] => 0 | a :: p' => (if xb a then N.succ_double else N.double) (encx p') end.
Fixpoint encz (p : pstr) : N := match p with [] => 0 | a :: p' => (if zb a then N.succ_double else N.double) (encz p') end.
Definition enc (p : pstr) : P := (encx p, encz p).
Fixpoint dec (n : nat) (a : P) : pstr :=
  match n with O => [] | S n' => ofb (N.odd (fst a)) (N.odd (snd a)) :: dec n' (N.div2 (fst a), N.div2 (snd a)) end.
