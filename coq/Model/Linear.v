(* Model/Linear.v — common/pauli_string_linear.py over exact Gaussian-integer coefficients: a linear combination
   is a list of (coefficient, string) terms.  Floating point (1e-12, isclose, :.8g) is not modelled. *)
From PauLie Require Export Pauli Matrix.

Definition lin := list (gi * pstr).
Definition gzero (c : gi) : bool := gi_eqb c g0.
Definition size_of (a : lin) : nat := match a with [] => 0%nat | (_, p) :: _ => length p end.
(* the matrix a combination denotes *)
Definition denote (a : lin) : mat := fun r c => gsum a (fun t => gmul (fst t) (M (snd t) r c)).

(* defaultdict(complex) keyed by the string, insertion order kept *)
Fixpoint dict_add (d : list (pstr * gi)) (p : pstr) (c : gi) : list (pstr * gi) :=
  match d with
  | [] => [(p, c)]
  | (q, e) :: t => if pstr_eqb p q then (q, gadd e c) :: t else (q, e) :: dict_add t p c
  end.
Definition dict_of (a : lin) (d0 : list (pstr * gi)) : list (pstr * gi) :=
  fold_left (fun d t => dict_add d (snd t) (fst t)) a d0.
Definition nonzero_terms (d : list (pstr * gi)) : lin :=
  map (fun x => (snd x, fst x)) (filter (fun x => negb (gzero (snd x))) d).
(* simplify: sum per string, drop zeros; nothing left -> the single term 0 * I..I; the empty combination is returned as is *)
Definition simplify (a : lin) : lin :=
  match a with
  | [] => []
  | _ => match nonzero_terms (dict_of a []) with [] => [(g0, identity (size_of a))] | l => l end
  end.
(* __add__: one dictionary over both operands; a fully cancelling sum -> 0 * I..I (repaired; the snapshot returned
   the empty combination, which has no qubit count and no matrix) *)
Definition ladd (a b : lin) : lin :=
  match nonzero_terms (dict_of b (dict_of a [])) with
  | [] => [(g0, identity (if Nat.ltb 0 (size_of a) then size_of a else size_of b))]
  | l => l
  end.
Definition lscale (s : gi) (a : lin) : lin := map (fun t => (gmul (fst t) s, snd t)) a.
Definition lherm (a : lin) : lin := map (fun t => (gconj (fst t), snd t)) a.
(* product terms: every term of a with every term of b: (ca * cb * phase, product string) *)
Definition prod_terms (a b : lin) : lin :=
  flat_map (fun ta => map (fun tb => (gmul (gmul (fst ta) (fst tb)) (phase (snd ta) (snd tb)), smul (snd ta) (snd tb))) b) a.
Definition finish_matmul (a b terms : lin) : lin :=
  match terms with
  | [] => [(g0, identity (if Nat.ltb 0 (size_of a) then size_of a else size_of b))]
  | _ => simplify terms
  end.
(* repaired __matmul__ *)
Definition lmatmul (a b : lin) : lin := finish_matmul a b (prod_terms a b).
(* the pinned snapshot on an aliased operand (a @ a on one object): the inner loop exhausts the shared iterator,
   so only the first outer term is used *)
Definition lmatmul_alias_old (a : lin) : lin := finish_matmul a a (prod_terms (firstn 1 a) a).
(* trace: repaired = (sum of the identity terms' coefficients) * 2^n; snapshot = first identity term only *)
Definition ltrace (a : lin) : gi :=
  let c := fold_left (fun s t => if is_identity (snd t) then gadd s (fst t) else s) a g0 in
  gmul c (Z.pow 2 (Z.of_nat (size_of a)), 0%Z).
Definition ltrace_old (a : lin) : gi :=
  match find (fun t => is_identity (snd t)) a with
  | Some t => gmul (fst t) (Z.pow 2 (Z.of_nat (size_of a)), 0%Z)
  | None => g0
  end.
(* is_zero: repaired = every summed coefficient vanishes; snapshot = every coefficient vanishes *)
Definition lis_zero (a : lin) : bool := forallb (fun x => gzero (snd x)) (dict_of a []).
Definition lis_zero_old (a : lin) : bool := forallb (fun t => gzero (fst t)) a.
(* __eq__: both simplified, same strings, same coefficients *)
Definition lookup (p : pstr) (a : lin) : option gi :=
  match find (fun t => pstr_eqb p (snd t)) a with Some t => Some (fst t) | None => None end.
Definition leq (a b : lin) : bool :=
  let a' := simplify a in let b' := simplify b in
  forallb (fun t => match lookup (snd t) b' with Some c => gi_eqb c (fst t) | None => false end) a' &&
  forallb (fun t => match lookup (snd t) a' with Some _ => true | None => false end) b'.
