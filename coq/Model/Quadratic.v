(* Model/Quadratic.v — quadratic symmetries (PauliStringLinear.quadratic, get_full_quadratic_basis) and the
   second-moment twirl (application/second_moment.py), exact: the twirl's coefficients are returned as
   (Gaussian-integer numerator, positive denominator). *)
From PauLie Require Export Pauli Matrix Linear Graph.

(* Q_{C,L} = sum over S in C of phase(L,S) * (S (x) L.S) : a combination on 2n qubits *)
Definition quadratic (C : list pstr) (L : pstr) : lin := map (fun s => (phase L s, s ++ smul L s)) C.
(* all Q_{C,L}: components of the commutator graph x commutants, zero vectors dropped *)
Definition full_basis (n : nat) (G : list pstr) : list lin :=
  filter (fun q => negb (lis_zero q))
         (flat_map (fun C => map (quadratic C) (commutants n G)) (commutator_components n G)).
(* collected coefficient of a string in a combination *)
Definition coefl (a : lin) (p : pstr) : gi :=
  fold_left (fun s t => if pstr_eqb p (snd t) then gadd s (fst t) else s) a g0.
(* numerator of the projection coefficient tr(Q^dagger m) / tr(Q^dagger Q); the denominator is the number of terms of Q *)
Definition proj_num (q m : lin) : gi := fold_left (fun s t => gadd s (gmul (gconj (fst t)) (coefl m (snd t)))) q g0.
(* twirl(m) = sum_Q (proj_num / |Q|) * Q : terms (numerator, denominator, string), zero projections skipped *)
Definition twirl (n : nat) (G : list pstr) (m : lin) : list (gi * nat * pstr) :=
  flat_map (fun q => let c := proj_num q m in
                     if gi_eqb c g0 then [] else map (fun t => (gmul c (fst t), length q, snd t)) q) (full_basis n G).
