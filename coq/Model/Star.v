(* Model/Star.v — classifier/classification.py: leg census -> graph type -> algebra
   -> name terms -> dimension, as total functions on leg-length vectors (centre first).
   `counts` is the repaired census (fix: commit in /repo); `counts_old` is the census of
   the pinned snapshot, kept for the refutation theorem. *)
From Coq Require Export ZArith List Bool.
Export ListNotations.
Open Scope Z_scope.

Inductive tgraph := TA | TB1 | TB2 | TB3 | TNONE.
Inductive talg := AU | ASU | ASP | ASO.
Inductive cres (A : Type) := COk (a : A) | ClassErr.
Arguments COk {A} a. Arguments ClassErr {A}.

(* the loop of Morph.counts over legs[1:]: (one, two, long) or the exception *)
Fixpoint census (legs : list nat) (one two long : Z) : cres (Z * Z * Z) :=
  match legs with
  | [] => COk (one, two, long)
  | l :: t =>
    if Nat.eqb l 1 then census t (one + 1) two long
    else if Nat.eqb l 2 then census t one (two + 1) long
    else if Nat.ltb 2 l then (if 0 <? long then ClassErr else census t one two (long + Z.of_nat l))
    else census t one two long   (* an empty leg counts nowhere *)
  end.
Definition adjust (fixed : bool) (c : Z * Z * Z) : Z * Z * Z :=
  let '(one, two, long) := c in
  let '(two, long) := if (long =? 0) && (two =? 1) then (0, 2) else (two, long) in
  let long := if (0 <? long) && (two =? 0) then long + 1 else long in
  let long := if (long =? 0) && (two =? 0) && (one =? 1) then 1 else long in
  let long := if (long =? 0) && (two =? 0) && (if fixed then 2 <=? one else one =? 2) then 1 else long in
  (one, two, long).
Definition counts_gen (fixed : bool) (legs : list nat) : cres (Z * Z * Z) :=
  match census (tl legs) 0 0 0 with COk c => COk (adjust fixed c) | ClassErr => ClassErr end.
Definition counts := counts_gen true.
Definition counts_old := counts_gen false.

Definition get_properties_gen (fixed : bool) (legs : list nat) : cres (tgraph * Z * Z * Z) :=
  match legs with
  | [] => ClassErr
  | [_] => COk (TNONE, 0, 0, 0)
  | _ =>
    match counts_gen fixed legs with
    | ClassErr => ClassErr
    | COk (one, two, long) =>
      if two =? 0 then COk (TA, one, two, long)
      else if long =? 0 then COk (TB1, one, two, long)
      else if long =? 3 then COk (TB3, one, two, long)
      else if long =? 4 then COk (TB2, one, two, long)
      else ClassErr
    end
  end.
(* (type, nc, size) *)
Definition algprops_gen (fixed : bool) (legs : list nat) : cres (talg * Z * Z) :=
  match get_properties_gen fixed legs with
  | ClassErr => ClassErr
  | COk (TNONE, _, _, _) => COk (AU, 1, 1)
  | COk (TA, one, _, long) => COk (ASO, one, long + 2)
  | COk (TB1, one, two, _) => COk (ASP, one, 2 ^ two)
  | COk (TB2, one, two, _) => COk (ASO, one, 2 ^ (two + 3))
  | COk (TB3, one, two, _) => COk (ASU, one, 2 ^ (two + 2))
  end.
Definition algprops := algprops_gen true.
Definition algprops_old := algprops_gen false.

(* Classification.get_algebra: per morph the term ((type,size), 2*multiplicity) where the
   multiplicity is nc if nc == 1 else 2**(nc-1); doubled so that nc = 0 (printed 0.5) stays integral *)
Definition mult2 (nc : Z) : Z := 2 ^ nc.
Definition algebra_terms (morphs : list (list nat)) : cres (list (talg * Z * Z)) :=
  fold_right (fun legs acc =>
     match acc, algprops legs with
     | COk l, COk (t, nc, size) => COk ((t, size, mult2 nc) :: l)
     | _, _ => ClassErr end) (COk []) morphs.

Definition dim_su (n : Z) := n * n - 1.
Definition dim_so (n : Z) := n * (n - 1) / 2.
Definition dim_sp (n : Z) := n * (2 * n + 1).
Definition dim_of (t : talg) (n : Z) : Z :=
  match t with AU => 1 | ASU => dim_su n | ASP => dim_sp n | ASO => dim_so n end.
(* Classification.get_dla_dim of the pinned snapshot: one copy per graph, u(1) skipped *)
Definition dla_dim_old (morphs : list (list nat)) : cres Z :=
  fold_right (fun legs acc =>
     match acc, algprops_old legs with
     | COk d, COk (t, _, size) => COk (d + match t with AU => 0 | _ => dim_of t size end)
     | _, _ => ClassErr end) (COk 0) morphs.
(* repaired: copies * dim, u(1) included; copies = nc if nc == 1 else 2**(nc-1) (nc >= 1) *)
Definition copies (nc : Z) : Z := if nc =? 1 then 1 else 2 ^ (nc - 1).
Definition dla_dim (morphs : list (list nat)) : cres Z :=
  fold_right (fun legs acc =>
     match acc, algprops legs with
     | COk d, COk (t, nc, size) => COk (d + copies nc * dim_of t size)
     | _, _ => ClassErr end) (COk 0) morphs.
(* dimension of the printed name: sum over terms of multiplicity * dim (2*mult stored) *)
Definition name_dim2 (terms : list (talg * Z * Z)) : Z :=
  fold_right (fun '(t, size, m2) acc => m2 * dim_of t size + acc) 0 terms.
