(* Model/ClosureN.v — executable commutator closure on n qubits (instance of
   the generic saturation of Theory/ClosureGen.v at the symplectic core). *)
From PauLie Require Export Sym.
From PauLie Require Import ClosureGen.
Open Scope N_scope.
Definition codeN (n : N) (a : P) : positive := N.succ_pos (N.shiftl (fst a) n + snd a).
Definition decodeN (n : N) (c : positive) : P :=
  let k := Pos.pred_N c in (N.shiftr k n, N.land k (N.ones n)).
Fixpoint range (k : nat) (acc : list positive) (c : positive) : list positive :=
  match k with O => acc | S k' => range k' (c :: acc) (Pos.succ c) end.
Definition universeN (n : N) : list positive := range (N.to_nat (N.shiftl 1 (2*n))) [] 1%positive.
Definition closureN (n : N) (G : list P) : option PS.t :=
  closure P mul anti (codeN n) (decodeN n) (universeN n) G.
(* letters in, letters out; None = operands of unequal length or fuel exhausted *)
Definition closure_strs (n : nat) (G : list pstr) : option (list pstr) :=
  if forallb (fun g => Nat.eqb (length g) n) G then
    match closureN (N.of_nat n) (map enc G) with
    | Some s => Some (map (fun c => dec n (decodeN (N.of_nat n) c)) (PS.elements s))
    | None => None
    end
  else None.
Definition closure_card (n : nat) (G : list pstr) : option nat :=
  match closure_strs n G with Some l => Some (length l) | None => None end.
