(* Model/Collection.v — the editing state machine of common/pauli_string_collection.py.
   State: the generator list and the cached classification, represented by the generator list it was
   computed from.  `fixed = false` reproduces the pinned snapshot (expand drops every string; replace
   and contract keep a stale cache), `fixed = true` the repaired code. *)
From PauLie Require Export Pauli.
From Coq Require Import Lia.

Record coll := { gens : list pstr; cache : option (list pstr) }.
Definition maxlen (l : list pstr) : nat := fold_right (fun g m => Nat.max (length g) m) 0%nat l.
Definition pad (n : nat) (p : pstr) : pstr := p ++ identity (n - length p).
(* PauliStringCollection(strings): shorter strings padded to the longest *)
Definition mk (l : list pstr) : coll := {| gens := map (pad (maxlen l)) l; cache := None |}.
Definition memS (p : pstr) (l : list pstr) : bool := existsb (pstr_eqb p) l.
Fixpoint remove1 (p : pstr) (l : list pstr) : list pstr :=
  match l with [] => [] | a :: t => if pstr_eqb p a then t else a :: remove1 p t end.
Fixpoint find (p : pstr) (l : list pstr) : option nat :=
  match l with [] => None | a :: t => if pstr_eqb p a then Some 0%nat else option_map S (find p t) end.
Fixpoint set_nth (i : nat) (x : pstr) (l : list pstr) : list pstr :=
  match l, i with [] , _ => [] | _ :: t, O => x :: t | a :: t, S i' => a :: set_nth i' x t end.
Fixpoint insert_at (i : nat) (x : pstr) (l : list pstr) : list pstr :=
  match i, l with O, _ => x :: l | S i', a :: t => a :: insert_at i' x t | S _, [] => [x] end.
Fixpoint delete_at (i : nat) (l : list pstr) : list pstr :=
  match l, i with [], _ => [] | _ :: t, O => t | a :: t, S i' => a :: delete_at i' t end.
(* Python index normalisation *)
Definition norm_insert (len : nat) (i : Z) : nat :=
  if (i <? 0)%Z then Z.to_nat (Z.max 0 (i + Z.of_nat len)) else Nat.min (Z.to_nat i) len.
Definition norm_index (len : nat) (i : Z) : option nat :=
  let j := if (i <? 0)%Z then (i + Z.of_nat len)%Z else i in
  if ((0 <=? j) && (j <? Z.of_nat len))%Z then Some (Z.to_nat j) else None.
(* bitarray comparison: lexicographic on bits, I=00 < Z=01 < X=10 < Y=11, a proper prefix is smaller *)
Definition rank (a : pl) : nat := match a with PI => 0 | PZ => 1 | PX => 2 | PY => 3 end.
Fixpoint pstr_ltb (p q : pstr) : bool :=
  match p, q with
  | [], [] => false | [], _ :: _ => true | _ :: _, [] => false
  | a :: p', b :: q' => if Nat.ltb (rank a) (rank b) then true else if Nat.ltb (rank b) (rank a) then false else pstr_ltb p' q'
  end.
Fixpoint insert_sorted (x : pstr) (l : list pstr) : list pstr :=
  match l with [] => [x] | a :: t => if pstr_ltb x a then x :: l else a :: insert_sorted x t end.
(* list.sort is stable; insertion from the right keeps equal elements in order *)
Definition sort_strs (l : list pstr) : list pstr := fold_right insert_sorted [] l.

Inductive op :=
| Append (p : pstr) | Insert (i : Z) (p : pstr) | Remove (p : pstr) | DelItem (i : Z)
| Replace (p q : pstr) | Contract (p q : pstr) | Expand (n : nat) | Sort | Query.
Inductive out := Done | IndexError | ValueErr | Answer (from : list pstr).

Section Step.
Variable fixed : bool.
Definition expand_to (n : nat) (l : list pstr) : option (list pstr) :=
  if forallb (fun g => Nat.leb (length g) n) l then Some (if fixed then map (pad n) l else []) else None.
(* _processing: pad the argument, or expand the collection to the argument's length *)
Definition processing (l : list pstr) (p : pstr) : list pstr * pstr :=
  match l with
  | [] => (l, p)
  | _ => let m := maxlen l in
         if Nat.ltb (length p) m then (l, pad m p)
         else if Nat.ltb m (length p) then (match expand_to (length p) l with Some l' => l' | None => l end, p)
         else (l, p)
  end.
Definition step (s : coll) (o : op) : coll * out :=
  match o with
  | Append p => let (l, p') := processing (gens s) p in
                ({| gens := if memS p' l then l else l ++ [p']; cache := None |}, Done)
  | Insert i p => let (l, p') := processing (gens s) p in
                ({| gens := if memS p' l then l else insert_at (norm_insert (length l) i) p' l; cache := None |}, Done)
  | Remove p => ({| gens := remove1 p (gens s); cache := None |}, Done)
  | DelItem i => match norm_index (length (gens s)) i with
                 | Some k => ({| gens := delete_at k (gens s); cache := None |}, Done)
                 | None => ({| gens := gens s; cache := None |}, IndexError)
                 end
  | Replace p q => match find p (gens s) with
                   | Some k => if fixed
                               then let (l, q') := processing (gens s) q in ({| gens := set_nth k q' l; cache := None |}, Done)
                               else ({| gens := set_nth k q (gens s); cache := cache s |}, Done)
                   | None => (s, Done)
                   end
  | Contract p q => if Nat.eqb (length p) (length q)
                    then match find p (gens s) with
                         | Some k => if fixed
                                     then let (l, r') := processing (gens s) (smul p q) in ({| gens := set_nth k r' l; cache := None |}, Done)
                                     else ({| gens := set_nth k (smul p q) (gens s); cache := cache s |}, Done)
                         | None => (s, Done)
                         end
                    else (s, ValueErr)   (* contract = replace by the product: the repaired replace pads / expands as append does *)
  | Expand n => match expand_to n (gens s) with
                | Some l => ({| gens := l; cache := None |}, Done)
                | None => ({| gens := gens s; cache := None |}, ValueErr)
                end
  | Sort => ({| gens := sort_strs (gens s); cache := cache s |}, Done)
  | Query => match cache s with
             | Some c => (s, Answer c)
             | None => ({| gens := gens s; cache := Some (gens s) |}, Answer (gens s))
             end
  end.
Definition run (s : coll) (ops : list op) : coll * list out :=
  fold_left (fun acc o => let (s', r) := step (fst acc) o in (s', snd acc ++ [r])) ops (s, []).
End Step.
