(* Model/Frames.v — helpers/recording.py: RecordGraph.get_graph(index) walks back from `index` to the closest
   frame that carries a graph. *)
From Coq Require Export List Arith.
Export ListNotations.
Section F.
Variable A : Type.
(* frames.(i) = Some g when frame i carries a graph *)
Fixpoint walk_back (fuel : nat) (frames : list (option A)) (i : nat) : option A :=
  match nth_error frames i with
  | Some (Some g) => Some g
  | _ => match fuel, i with
         | S f, S j => walk_back f frames j
         | _, _ => None
         end
  end.
Definition get_graph (frames : list (option A)) (i : nat) : option A := walk_back i frames i.
End F.
