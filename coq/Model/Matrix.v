(* Model/Matrix.v — specification: the 2^n x 2^n matrix of a Pauli string over Z[i]. *)
From PauLie Require Export Pauli.
Definition sig (p: pl) (r c: bool) : gi :=
  match p, r, c with
  | PI, false, false | PI, true, true => g1
  | PX, false, true | PX, true, false => g1
  | PY, false, true => (0,-1) | PY, true, false => (0,1)
  | PZ, false, false => g1 | PZ, true, true => (-1,0)
  | _, _, _ => g0 end.
(* entry (r,c) of M(p); row/column indices are bit lists, first qubit first (np.kron order) *)
Fixpoint M (p: pstr) (r c: list bool) : gi :=
  match p, r, c with
  | [], [], [] => g1
  | a::p', b::r', d::c' => gmul (sig a b d) (M p' r' c')
  | _, _, _ => g0 end.
Fixpoint bv (n: nat) : list (list bool) :=
  match n with O => [[]] | S n' => map (cons false) (bv n') ++ map (cons true) (bv n') end.
Definition mat := list bool -> list bool -> gi.
Definition mmul n (A B: mat) : mat := fun r c => gsum (bv n) (fun k => gmul (A r k) (B k c)).
Definition madd (A B : mat) : mat := fun r c => gadd (A r c) (B r c).
Definition mscale (s : gi) (A : mat) : mat := fun r c => gmul s (A r c).
Definition mconj (A : mat) : mat := fun r c => gconj (A r c).
Definition mtrans (A : mat) : mat := fun r c => A c r.
Definition mtrace n (A : mat) : gi := gsum (bv n) (fun k => A k k).
Definition mzero : mat := fun _ _ => g0.
(* equality of matrices on the n-bit index range *)
Definition meq n (A B : mat) : Prop := forall r c, length r = n -> length c = n -> A r c = B r c.
(* phase of the product, letter by letter *)
Definition ph1 (a b: pl) : gi :=
  match a, b with
  | PX, PY | PY, PZ | PZ, PX => (0,1)
  | PY, PX | PZ, PY | PX, PZ => (0,-1)
  | _, _ => g1 end.
Fixpoint phase (p q: pstr) : gi := match p, q with a::p', b::q' => gmul (ph1 a b) (phase p' q') | _, _ => g1 end.
(* dense matrix as a list of rows, for the correspondence run *)
Definition dense n (A : mat) : list (list gi) := map (fun r => map (fun c => A r c) (bv n)) (bv n).
