(* Theory/TwirlT.v — the second-moment twirl of the model is the orthogonal projection on the span of the full
   quadratic basis: it fixes every basis member exactly, and <q, twirl m> = <q, m> for every basis member q (hence
   idempotent, residual orthogonal to every symmetry); every term of the output is a scaled term of an invariant
   basis member (C16).  Rational coefficients are (numerator, denominator); `numer D` clears denominators. *)
From PauLie Require Import Pauli Matrix MatrixT ParserT InvarT CompilerT Linear LinearT Graph GraphT Quadratic QuadraticT QuadInvT QuadOrthT.
From Coq Require Import Lia Permutation.

(* fold_left forms of the model = gsum forms *)
Lemma coefl_coef a p : coefl a p = coef a p.
Proof.
  unfold coefl, coef. assert (G : forall s0, fold_left (fun s t => if pstr_eqb p (snd t) then gadd s (fst t) else s) a s0 =
    gadd s0 (gsum a (fun t => if pstr_eqb p (snd t) then fst t else g0))).
  { induction a as [|t a IH]; intros s0; [cbn; gring|]. cbn [fold_left]. rewrite IH, gsum_cons. destruct (pstr_eqb p (snd t)); gring. }
  rewrite G. gring.
Qed.
Lemma proj_num_sum q m : proj_num q m = gsum q (fun t => gmul (gconj (fst t)) (coef m (snd t))).
Proof.
  unfold proj_num. assert (G : forall s0, fold_left (fun s t => gadd s (gmul (gconj (fst t)) (coefl m (snd t)))) q s0 =
    gadd s0 (gsum q (fun t => gmul (gconj (fst t)) (coef m (snd t))))).
  { induction q as [|t q IH]; intros s0; [cbn; gring|]. cbn [fold_left]. rewrite IH, gsum_cons, coefl_coef. gring. }
  rewrite G. gring.
Qed.

Definition disjoint (q q' : lin) : Prop := forall t t', In t q -> In t' q' -> snd t <> snd t'.
Lemma disjoint_sym q q' : disjoint q q' -> disjoint q' q.
Proof. intros H t t' Ht Ht' E. apply (H t' t Ht' Ht). symmetry. exact E. Qed.
Lemma proj_disjoint q m : disjoint q m -> proj_num q m = g0.
Proof.
  intros H. rewrite proj_num_sum. rewrite (gsum_ext _ _ (fun _ => g0)); [apply gsum_zero|]. intros t Ht.
  rewrite coef_absent; [gring|]. intros t' Ht' E. apply (H t t' Ht Ht'). symmetry. exact E.
Qed.

(* the members of the full basis: pairwise disjoint supports (any two positions) *)
Theorem full_basis_disjoint n G : (forall h, In h G -> length h = n) -> G <> [] -> ForallOrdPairs disjoint (full_basis n G).
Proof.
  intros HG Hne. unfold full_basis. apply FOP_filter. destruct (commutants_spec n G Hne) as [Lspec Lnd].
  unfold commutator_components, comps. set (adj := fun p q => anti_l p q && memG (smul p q) G).
  destruct (components_spec pstr adj (fun x => length x = n) (length (all_strs n)) (all_strs n) (le_n _)) as [P _].
  { intros x Hx. apply all_strs_In. exact Hx. }
  set (cs := components pstr adj (length (all_strs n)) (all_strs n)) in *.
  assert (Hlen : forall C, In C cs -> forall s, In s C -> length s = n).
  { intros C HC s Hs. apply all_strs_In. apply (Permutation_in s P). apply in_concat. exists C. split; assumption. }
  assert (Hnd : NoDup (concat cs)) by (apply (Permutation_NoDup (Permutation_sym P)); apply all_strs_NoDup).
  apply FOP_flat_map.
  - intros C HC. apply FOP_map. apply (FOP_weaken (fun L L' => L <> L')); [|apply FOP_NoDup; exact Lnd].
    intros L L' HL HL' Hd. unfold disjoint. apply (disjoint_supports n C C L L'); try (apply Hlen; exact HC); try (apply Lspec; assumption). left. exact Hd.
  - apply (FOP_weaken (fun c c' => forall s, In s c -> ~ In s c')); [|apply concat_disjoint; exact Hnd].
    intros C C' HC HC' Hdis a b Ha Hb. apply in_map_iff in Ha, Hb. destruct Ha as [L [<- HL]], Hb as [L' [<- HL']].
    unfold disjoint. apply (disjoint_supports n C C' L L'); try (apply Hlen; assumption); try (apply Lspec; assumption). right. exact Hdis.
Qed.
Lemma FOP_split {A} (R : A -> A -> Prop) l1 x l2 : ForallOrdPairs R (l1 ++ x :: l2) ->
  (forall y, In y l1 -> R y x) /\ (forall z, In z l2 -> R x z).
Proof.
  induction l1 as [|a l1 IH]; cbn [app]; intros H; inversion H as [|? ? Ha Hr]; subst.
  - split; [intros y []|]. intros z Hz. rewrite Forall_forall in Ha. apply Ha. exact Hz.
  - destruct (IH Hr) as [I1 I2]. split; [|exact I2]. intros y [<-|Hy]; [|apply I1; exact Hy].
    rewrite Forall_forall in Ha. apply Ha. apply in_or_app. right. left. reflexivity.
Qed.

(* a member of the basis: unit-modulus coefficients on distinct strings *)
Definition unitary_terms (q : lin) : Prop :=
  (forall t, In t q -> gmul (gconj (fst t)) (fst t) = g1) /\ (forall t, In t q -> coef q (snd t) = fst t).
Lemma quadratic_unitary n C L : (forall s, In s C -> length s = n) -> NoDup C -> unitary_terms (quadratic C L).
Proof.
  intros HC Hnd. split; intros t Ht; apply quadratic_support in Ht; destruct Ht as [S [HS ->]]; cbn [fst snd].
  - rewrite gconj_norm, phase_unit. reflexivity.
  - unfold quadratic. rewrite coef_map. cbn [fst snd].
    apply (gsum_single C (fun y => pstr_eqb (S ++ smul L S) (y ++ smul L y)) (fun y => phase L y) S Hnd HS).
    intros y Hy. rewrite pstr_eqb_eq. split; [|intros ->; reflexivity]. intros E. apply app_inj_len in E; [symmetry; apply E|rewrite (HC S HS), (HC y Hy); reflexivity].
Qed.
Lemma full_basis_unitary n G q : (forall h, In h G -> length h = n) -> In q (full_basis n G) -> unitary_terms q /\ q <> [].
Proof.
  intros HG Hq. destruct (full_basis_norm n G q HG Hq) as [_ Hne]. split; [|exact Hne].
  unfold full_basis in Hq. apply filter_In in Hq. destruct Hq as [Hq _].
  apply in_flat_map in Hq. destruct Hq as [C [HC Hq]]. apply in_map_iff in Hq. destruct Hq as [L [<- HL]].
  destruct (component_props n G C HG HC) as [Hlen [Hnd _]]. apply (quadratic_unitary n); assumption.
Qed.
Lemma proj_scaled_self q k : unitary_terms q -> proj_num q (lscale k q) = gmul k (Z.of_nat (length q), 0%Z).
Proof.
  intros [U1 U2]. rewrite proj_num_sum. rewrite (gsum_ext _ _ (fun _ => k)).
  - rewrite gsum_const. gring.
  - intros t Ht. rewrite coef_scale, (U2 t Ht). transitivity (gmul k (gmul (gconj (fst t)) (fst t))); [gring|]. rewrite (U1 t Ht). gring.
Qed.
Lemma lscale_1 q : lscale g1 q = q.
Proof. unfold lscale. rewrite <- (map_id q) at 2. apply map_ext. intros [c p]. cbn [fst snd]. f_equal. gring. Qed.
Lemma proj_self q : unitary_terms q -> proj_num q q = (Z.of_nat (length q), 0%Z).
Proof. intros U. rewrite <- (lscale_1 q) at 2. rewrite (proj_scaled_self q g1 U). gring. Qed.

(* ---------- the twirl over an orthogonal family ---------- *)
Definition twirlB (B : list lin) (m : lin) : list (gi * nat * pstr) :=
  flat_map (fun q => let c := proj_num q m in
                     if gi_eqb c g0 then [] else map (fun t => (gmul c (fst t), length q, snd t)) q) B.
Lemma twirl_is_twirlB n G m : twirl n G m = twirlB (full_basis n G) m.
Proof. reflexivity. Qed.
(* denominators cleared with a common multiple D *)
Definition numer (D : nat) (r : list (gi * nat * pstr)) : lin :=
  map (fun x => (gmul (fst (fst x)) (Z.of_nat (D / snd (fst x)), 0%Z), snd x)) r.
Definition nat_gi (k : nat) : gi := (Z.of_nat k, 0%Z).

Lemma flat_map_nil {A B} (f : A -> list B) l : (forall x, In x l -> f x = []) -> flat_map f l = [].
Proof. induction l as [|a l IH]; intros H; [reflexivity|]. cbn [flat_map]. rewrite (H a (or_introl eq_refl)), IH; [reflexivity|]. intros x Hx. apply H. right. exact Hx. Qed.
Lemma gi_eqb_refl x : gi_eqb x x = true.
Proof. unfold gi_eqb. rewrite !Z.eqb_refl. reflexivity. Qed.
Lemma gi_eqb_true x y : gi_eqb x y = true -> x = y.
Proof. unfold gi_eqb. destruct x, y. cbn [fst snd]. intros H. apply andb_true_iff in H. destruct H as [H1 H2]. apply Z.eqb_eq in H1, H2. congruence. Qed.
Lemma proj_app q a b : proj_num q (a ++ b) = gadd (proj_num q a) (proj_num q b).
Proof. rewrite !proj_num_sum, <- gsum_add. apply gsum_ext. intros t _. rewrite coef_app. gring. Qed.
Lemma proj_nil q : proj_num q [] = g0.
Proof. rewrite proj_num_sum. rewrite (gsum_ext _ _ (fun _ => g0)); [apply gsum_zero|]. intros t _. rewrite coef_nil. gring. Qed.

Section Family.
Variable B : list lin.
Hypothesis HB1 : ForallOrdPairs disjoint B.
Hypothesis HB2 : forall q, In q B -> unitary_terms q /\ q <> [].

Lemma len_pos q : In q B -> (0 < length q)%nat.
Proof. intros Hq. destruct (HB2 q Hq) as [_ Hne]. destruct q; [congruence|cbn; lia]. Qed.

(* the twirl fixes every member of the family exactly: coefficient (|q| c_t) / |q| on every term *)
Theorem twirl_fixes q : In q B -> twirlB B q = map (fun t => (gmul (nat_gi (length q)) (fst t), length q, snd t)) q.
Proof.
  intros Hq. destruct (in_split q B Hq) as [B1 [B2 E]]. assert (F := HB1). rewrite E in F. destruct (FOP_split disjoint B1 q B2 F) as [F1 F2].
  unfold twirlB. rewrite E, flat_map_app. cbn [flat_map].
  rewrite (flat_map_nil _ B1), (flat_map_nil _ B2).
  - cbn [app]. rewrite app_nil_r. destruct (HB2 q Hq) as [U Hne]. rewrite (proj_self q U). fold (nat_gi (length q)).
    destruct (gi_eqb (nat_gi (length q)) g0) eqn:Ez; [|reflexivity]. apply gi_eqb_true in Ez. assert (P := len_pos q Hq).
    unfold nat_gi, g0 in Ez. injection Ez as Ez. lia.
  - intros x Hx. cbn zeta. rewrite (proj_disjoint x q); [rewrite gi_eqb_refl; reflexivity|]. apply disjoint_sym. apply F2. exact Hx.
  - intros x Hx. cbn zeta. rewrite (proj_disjoint x q); [rewrite gi_eqb_refl; reflexivity|]. apply F1. exact Hx.
Qed.

Variable D : nat.
Hypothesis HD : forall q, In q B -> (D / length q * length q = D)%nat.

(* numerators of the twirl, as a combination: a sum of scaled members of the family *)
Definition hterm (m : lin) (q : lin) : lin :=
  if gi_eqb (proj_num q m) g0 then [] else lscale (gmul (proj_num q m) (nat_gi (D / length q))) q.
Lemma numer_twirl m : numer D (twirlB B m) = flat_map (hterm m) B.
Proof.
  unfold numer, twirlB. generalize B as l. induction l as [|q l IH]; [reflexivity|]. cbn [flat_map]. rewrite map_app, IH. f_equal.
  unfold hterm. cbn zeta. destruct (gi_eqb (proj_num q m) g0); [reflexivity|].
  unfold lscale. rewrite map_map. apply map_ext. intros [c p]. cbn [fst snd]. f_equal. unfold nat_gi. gring.
Qed.
Lemma hterm_disjoint m q q' : disjoint q q' -> disjoint q (hterm m q').
Proof.
  intros H t t' Ht Ht'. unfold hterm in Ht'. destruct (gi_eqb (proj_num q' m) g0); [destruct Ht'|].
  unfold lscale in Ht'. apply in_map_iff in Ht'. destruct Ht' as [x [<- Hx]]. cbn [snd]. apply (H t x Ht Hx).
Qed.
Lemma flat_hterm_disjoint m q l : (forall q', In q' l -> disjoint q q') -> disjoint q (flat_map (hterm m) l).
Proof. intros H t t' Ht Ht'. apply in_flat_map in Ht'. destruct Ht' as [q' [Hq' Ht']]. apply (hterm_disjoint m q q' (H q' Hq') t t' Ht Ht'). Qed.

(* <q, twirl m> = <q, m> (times the common denominator) for every member q *)
Theorem twirl_projects m q : In q B -> proj_num q (numer D (twirlB B m)) = gmul (nat_gi D) (proj_num q m).
Proof.
  intros Hq. rewrite numer_twirl. destruct (in_split q B Hq) as [B1 [B2 E]]. assert (F := HB1). rewrite E in F. destruct (FOP_split disjoint B1 q B2 F) as [F1 F2].
  rewrite E at 1. rewrite flat_map_app. cbn [flat_map]. rewrite !proj_app.
  rewrite (proj_disjoint q (flat_map (hterm m) B1)), (proj_disjoint q (flat_map (hterm m) B2)).
  - destruct (HB2 q Hq) as [U _]. unfold hterm. destruct (gi_eqb (proj_num q m) g0) eqn:Ez.
    + apply gi_eqb_true in Ez. rewrite Ez, proj_nil. gring.
    + rewrite (proj_scaled_self q _ U). specialize (HD q Hq). unfold nat_gi.
      transitivity (gmul (proj_num q m) (Z.of_nat (D / length q * length q), 0%Z)); [rewrite Nat2Z.inj_mul; gring|]. rewrite HD. gring.
  - apply flat_hterm_disjoint. intros q' Hq'. apply F2. exact Hq'.
  - apply flat_hterm_disjoint. intros q' Hq'. apply disjoint_sym. apply F1. exact Hq'.
Qed.
(* idempotent, exactly: twirling the (denominator-cleared) twirl multiplies every numerator by D *)
Theorem twirl_idempotent m : (0 < D)%nat ->
  twirlB B (numer D (twirlB B m)) = map (fun x => (gmul (nat_gi D) (fst (fst x)), snd (fst x), snd x)) (twirlB B m).
Proof.
  intros HDpos.
  assert (M : forall (f : lin -> list (gi * nat * pstr)) (F : gi * nat * pstr -> gi * nat * pstr) l, map F (flat_map f l) = flat_map (fun q => map F (f q)) l).
  { intros f F l. induction l as [|q l IH]; [reflexivity|]. cbn [flat_map]. rewrite map_app, IH. reflexivity. }
  unfold twirlB. rewrite M. cbv zeta.
  assert (G : forall l, (forall q, In q l -> In q B) ->
    flat_map (fun q => if gi_eqb (proj_num q (numer D (twirlB B m))) g0 then [] else map (fun t => (gmul (proj_num q (numer D (twirlB B m))) (fst t), length q, snd t)) q) l =
    flat_map (fun q => map (fun x => (gmul (nat_gi D) (fst (fst x)), snd (fst x), snd x))
                        (if gi_eqb (proj_num q m) g0 then [] else map (fun t => (gmul (proj_num q m) (fst t), length q, snd t)) q)) l).
  { induction l as [|q l IH]; intros Hl; [reflexivity|]. cbn [flat_map]. rewrite IH by (intros x Hx; apply Hl; right; exact Hx). f_equal.
    rewrite (twirl_projects m q (Hl q (or_introl eq_refl))).
    destruct (gi_eqb (proj_num q m) g0) eqn:Ez.
    - apply gi_eqb_true in Ez. rewrite Ez. replace (gmul (nat_gi D) g0) with g0 by gring. reflexivity.
    - assert (Enz : gi_eqb (gmul (nat_gi D) (proj_num q m)) g0 = false).
      { destruct (gi_eqb (gmul (nat_gi D) (proj_num q m)) g0) eqn:E2; [|reflexivity]. apply gi_eqb_true in E2. exfalso.
        assert (proj_num q m = g0); [|rewrite H in Ez; rewrite gi_eqb_refl in Ez; discriminate].
        destruct (proj_num q m) as [a b]. unfold gmul, nat_gi, g0 in E2. cbn [fst snd] in E2. injection E2 as E2a E2b. assert (HDz : (0 < Z.of_nat D)%Z) by lia. unfold g0. f_equal; nia. }
      rewrite Enz, map_map. apply map_ext. intros [c p]. cbn [fst snd]. f_equal. f_equal. gring. }
  apply G. intros q Hq. exact Hq.
Qed.
End Family.

(* ---------- instantiation at the model's full basis ---------- *)
Definition common_den (B : list lin) : nat := fold_right (fun q acc => (length q * acc)%nat) 1%nat B.
Lemma common_den_pos B : (forall q, In q B -> (0 < length q)%nat) -> (0 < common_den B)%nat.
Proof. induction B as [|q B IH]; intros H; cbn [common_den fold_right]; [lia|]. fold (common_den B). specialize (H q (or_introl eq_refl)) as Hq. assert (0 < common_den B)%nat by (apply IH; intros x Hx; apply H; right; exact Hx). nia. Qed.
Lemma common_den_div B q : (forall q, In q B -> (0 < length q)%nat) -> In q B -> (common_den B / length q * length q = common_den B)%nat.
Proof.
  intros Hpos Hq. assert (Hd : exists k, common_den B = (k * length q)%nat).
  { induction B as [|a B IH]; [destruct Hq|]. cbn [common_den fold_right]. fold (common_den B). destruct Hq as [->|Hq].
    - exists (common_den B). lia.
    - destruct IH as [k Hk]; [intros x Hx; apply Hpos; right; exact Hx|exact Hq|]. exists (length a * k)%nat. rewrite Hk. lia. }
  destruct Hd as [k Hk]. rewrite Hk. rewrite Nat.div_mul; [reflexivity|]. specialize (Hpos q Hq). lia.
Qed.

Section Model.
Variables (n : nat) (G : list pstr).
Hypothesis HG : forall h, In h G -> length h = n.
Hypothesis Hne : G <> [].
Let B := full_basis n G.
Let D := common_den B.
Lemma B_unitary q : In q B -> unitary_terms q /\ q <> [].
Proof. apply full_basis_unitary. exact HG. Qed.
Lemma B_pos q : In q B -> (0 < length q)%nat.
Proof. intros Hq. destruct (B_unitary q Hq) as [_ H]. destruct q; [congruence|cbn; lia]. Qed.

Theorem model_twirl_fixes q : In q B -> twirl n G q = map (fun t => (gmul (nat_gi (length q)) (fst t), length q, snd t)) q.
Proof. intros Hq. rewrite twirl_is_twirlB. apply (twirl_fixes B (full_basis_disjoint n G HG Hne) B_unitary q Hq). Qed.
Theorem model_twirl_projects m q : In q B -> proj_num q (numer D (twirl n G m)) = gmul (nat_gi D) (proj_num q m).
Proof.
  intros Hq. rewrite twirl_is_twirlB.
  apply (twirl_projects B (full_basis_disjoint n G HG Hne) B_unitary D (fun x Hx => common_den_div B x B_pos Hx) m q Hq).
Qed.
Theorem model_twirl_idempotent m :
  twirl n G (numer D (twirl n G m)) = map (fun x => (gmul (nat_gi D) (fst (fst x)), snd (fst x), snd x)) (twirl n G m).
Proof.
  rewrite !twirl_is_twirlB.
  apply (twirl_idempotent B (full_basis_disjoint n G HG Hne) B_unitary D (fun x Hx => common_den_div B x B_pos Hx) m (common_den_pos B B_pos)).
Qed.

(* the output commutes with g (x) 1 + 1 (x) g for every member g *)
Definition Comm (X a : lin) : Prop := meq (2 * n) (mmul (2 * n) (denote X) (denote a)) (mmul (2 * n) (denote a) (denote X)).
Lemma Comm_nil X : Comm X [].
Proof.
  intros r c Hr Hc.
  rewrite (mmul_congr (2 * n) (denote X) (denote X) (denote []) mzero r c Hr Hc (fun _ _ _ _ => eq_refl) (fun _ _ _ _ => eq_refl)), mmul_zero_r.
  rewrite (mmul_congr (2 * n) (denote []) mzero (denote X) (denote X) r c Hr Hc (fun _ _ _ _ => eq_refl) (fun _ _ _ _ => eq_refl)), mmul_zero_l. reflexivity.
Qed.
Lemma Comm_app X a b : Comm X a -> Comm X b -> Comm X (a ++ b).
Proof.
  intros Ha Hb r c Hr Hc.
  assert (E : meq (2 * n) (denote (a ++ b)) (madd (denote a) (denote b))) by (intros r' c' _ _; apply denote_app).
  rewrite (mmul_congr (2 * n) (denote X) (denote X) _ _ r c Hr Hc (fun _ _ _ _ => eq_refl) E), mmul_add_r.
  rewrite (mmul_congr (2 * n) _ _ (denote X) (denote X) r c Hr Hc E (fun _ _ _ _ => eq_refl)), mmul_add_l.
  rewrite (Ha r c Hr Hc), (Hb r c Hr Hc). reflexivity.
Qed.
Lemma Comm_scale X s a : Comm X a -> Comm X (lscale s a).
Proof.
  intros Ha r c Hr Hc.
  assert (E : meq (2 * n) (denote (lscale s a)) (mscale s (denote a))) by (intros r' c' _ _; apply denote_scale).
  rewrite (mmul_congr (2 * n) (denote X) (denote X) _ _ r c Hr Hc (fun _ _ _ _ => eq_refl) E), mmul_scale_r.
  rewrite (mmul_congr (2 * n) _ _ (denote X) (denote X) r c Hr Hc E (fun _ _ _ _ => eq_refl)), mmul_scale_l.
  rewrite (Ha r c Hr Hc). reflexivity.
Qed.
Theorem model_twirl_invariant m g : In g G -> Comm (gen2 n g) (numer D (twirl n G m)).
Proof.
  intros Hg. rewrite twirl_is_twirlB, numer_twirl.
  assert (H : forall l, (forall q, In q l -> In q B) -> Comm (gen2 n g) (flat_map (hterm D m) l)).
  { induction l as [|q l IH]; intros Hl; [apply Comm_nil|]. cbn [flat_map]. apply Comm_app; [|apply IH; intros x Hx; apply Hl; right; exact Hx].
    unfold hterm. destruct (gi_eqb (proj_num q m) g0); [apply Comm_nil|]. apply Comm_scale.
    apply (full_basis_invariant n G q g HG (Hl q (or_introl eq_refl)) Hg). }
  apply H. intros q Hq. exact Hq.
Qed.
End Model.

(* proj_num is the trace inner product: tr(Q^dagger m) = 4^n' * proj_num Q m *)
Theorem proj_num_trace N q m : all_n N q -> all_n N m ->
  mtrace N (mmul N (denote (lherm q)) (denote m)) = gmul (two_n N) (proj_num q m).
Proof.
  intros Hq Hm. rewrite (trace_pair N _ _ (all_n_herm _ _ Hq) Hm), proj_num_sum. f_equal.
  unfold lherm. rewrite gsum_map. reflexivity.
Qed.
