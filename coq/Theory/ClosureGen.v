From Coq Require Import List Bool Lia NArith PArith Arith FSets.FSetPositive FSets.FSetProperties FSets.FSetFacts.
Import ListNotations.
Module PS := PositiveSet.
Module PSP := FSetProperties.Properties(PositiveSet).
Module PSF := FSetFacts.Facts(PositiveSet).

Section S.
Variable P : Type.
Variable mul : P -> P -> P.
Variable anti : P -> P -> bool.
Variable code : P -> positive.
Variable decode : positive -> P.
Variable D : P -> Prop.
Hypothesis D_mul : forall a b, D a -> D b -> D (mul a b).
Hypothesis dec_code : forall a, D a -> decode (code a) = a.
Variable universe : list positive.
Hypothesis universe_all : forall a, D a -> In (code a) universe.

Definition step1 (gs : list P) (c : positive) (acc : PS.t) : PS.t :=
  fold_left (fun acc g => if anti (decode c) g then PS.add (code (mul (decode c) g)) acc else acc) gs acc.

Lemma step1_spec gs c acc x :
  PS.In x (step1 gs c acc) <->
  PS.In x acc \/ exists g, In g gs /\ anti (decode c) g = true /\ x = code (mul (decode c) g).
Proof.
  unfold step1. revert acc. induction gs as [|g gs IH]; intros acc; cbn [fold_left].
  - split; [auto| intros [H|[g [[] _]]]; assumption].
  - rewrite IH. destruct (anti (decode c) g) eqn:E.
    + rewrite PSF.add_iff. split.
      * intros [[<-|H]|[g' [Hg' [Ha ->]]]]; [right; exists g; simpl; auto|auto|right; exists g'; simpl; auto].
      * intros [H|[g' [[<-|Hg'] [Ha ->]]]]; [left; auto|left; left; reflexivity|right; exists g'; auto].
    + split.
      * intros [H|[g' [Hg' [Ha ->]]]]; [auto|right; exists g'; simpl; auto].
      * intros [H|[g' [[<-|Hg'] [Ha ->]]]]; [auto|congruence|right; exists g'; auto].
Qed.

Definition expand (gs : list P) (S : PS.t) : PS.t := PS.fold (step1 gs) S S.

Lemma fold_left_spec gs (l : list positive) acc x :
  PS.In x (fold_left (fun a e => step1 gs e a) l acc) <->
  PS.In x acc \/ exists c g, In c l /\ In g gs /\ anti (decode c) g = true /\ x = code (mul (decode c) g).
Proof.
  revert acc; induction l as [|c l IH]; intros acc; cbn [fold_left].
  - split; [auto|intros [H|[c [g [[] _]]]]; assumption].
  - rewrite IH, step1_spec. split.
    + intros [[H|[g [Hg [Ha ->]]]]|[c' [g [Hc [Hg [Ha ->]]]]]]; [auto| |].
      * right; exists c, g; simpl; auto.
      * right; exists c', g; simpl; auto.
    + intros [H|[c' [g [[<-|Hc] [Hg [Ha ->]]]]]]; [auto| |].
      * left; right; exists g; auto.
      * right; exists c', g; auto.
Qed.

Lemma expand_spec gs S x :
  PS.In x (expand gs S) <->
  PS.In x S \/ exists c g, PS.In c S /\ In g gs /\ anti (decode c) g = true /\ x = code (mul (decode c) g).
Proof.
  unfold expand. rewrite PS.fold_1, fold_left_spec.
  split; (intros [H|[c [g [Hc R]]]]; [auto|right; exists c, g; split; [|exact R]]).
  - apply PSF.elements_iff. apply SetoidList.InA_alt. exists c; auto.
  - apply PSF.elements_iff in Hc. apply SetoidList.InA_alt in Hc. destruct Hc as [y [<- Hy]]. exact Hy.
Qed.

Variable G : list P.
Hypothesis G_D : forall g, In g G -> D g.

Inductive Reach : P -> Prop :=
| r_gen g : In g G -> Reach g
| r_step t g : Reach t -> In g G -> anti t g = true -> Reach (mul t g).
Lemma Reach_D t : Reach t -> D t.
Proof. induction 1; auto. Qed.

Definition Sound (S : PS.t) := forall c, PS.In c S -> exists a, Reach a /\ c = code a.
Definition init : PS.t := fold_left (fun acc g => PS.add (code g) acc) G PS.empty.

Lemma init_spec_gen gs acc x : PS.In x (fold_left (fun acc g => PS.add (code g) acc) gs acc) <-> PS.In x acc \/ exists g, In g gs /\ x = code g.
Proof.
  revert acc; induction gs as [|g gs IH]; intros acc; cbn [fold_left].
  - split; [auto|intros [H|[g [[] _]]]; auto].
  - rewrite IH, PSF.add_iff. split.
    + intros [[<-|H]|[g' [Hg ->]]]; [right; exists g; simpl; auto|auto|right; exists g'; simpl; auto].
    + intros [H|[g' [[<-|Hg] ->]]]; [auto|left; left; reflexivity|right; exists g'; auto].
Qed.
Lemma init_spec x : PS.In x init <-> exists g, In g G /\ x = code g.
Proof. unfold init. rewrite init_spec_gen. split; [intros [H|H]; [apply PSF.empty_iff in H; contradiction|auto]|auto]. Qed.

Lemma init_sound : Sound init.
Proof. intros c Hc. apply init_spec in Hc. destruct Hc as [g [Hg ->]]. exists g; split; [constructor; auto|reflexivity]. Qed.
Lemma expand_sound S : Sound S -> Sound (expand G S).
Proof.
  intros HS x Hx. apply expand_spec in Hx. destruct Hx as [H|[c [g [Hc [Hg [Ha Hx]]]]]].
  - apply HS; assumption.
  - destruct (HS c Hc) as [a [Ra Hca]]. subst c x. rewrite (dec_code a (Reach_D a Ra)) in *.
    exists (mul a g). split; [|reflexivity]. apply r_step; assumption.
Qed.

Fixpoint iter (fuel : nat) (S : PS.t) : option PS.t :=
  match fuel with
  | O => None
  | S f => let S' := expand G S in
           if Nat.eqb (PS.cardinal S') (PS.cardinal S) then Some S else iter f S'
  end.
Definition closure : option PS.t := iter (S (length universe)) init.

Lemma expand_incl S : PS.Subset S (expand G S).
Proof. intros x Hx. apply expand_spec; auto. Qed.

Lemma iter_sound fuel S R : Sound S -> iter fuel S = Some R -> Sound R /\ PS.Equal (expand G R) R /\ PS.Subset S R.
Proof.
  revert S; induction fuel as [|f IH]; intros S HS; cbn [iter]; [discriminate|].
  destruct (Nat.eqb _ _) eqn:E.
  - intros [= <-]. split; [assumption|]. split; [|intros x; auto].
    apply Nat.eqb_eq in E. intros x; split; [|apply expand_incl].
    intros Hx. destruct (PS.mem x S) eqn:Mx; [apply PSF.mem_iff; assumption|]. apply PSF.not_mem_iff in Mx. rename Mx into Hn.
    pose proof (PSP.subset_cardinal_lt (expand_incl S) Hx Hn). lia.
  - intros H. destruct (IH _ (expand_sound _ HS) H) as [A [B C]]. split; [assumption|]. split; [assumption|].
    intros x Hx. apply C, expand_incl, Hx.
Qed.

Theorem closure_spec R : closure = Some R -> forall a, D a -> (PS.In (code a) R <-> Reach a).
Proof.
  intros H a Da. destruct (iter_sound _ _ _ init_sound H) as [HS [Hfix Hsub]]. split.
  - intros Hin. destruct (HS _ Hin) as [b [Rb Hc]].
    assert (a = b) as -> by (rewrite <- (dec_code a Da), Hc, dec_code; [reflexivity|apply Reach_D; assumption]). assumption.
  - induction 1 as [g Hg|t g Rt IH Hg Ha].
    + apply Hsub, init_spec. eauto.
    + apply Hfix, expand_spec. right. exists (code t), g. rewrite (dec_code t (Reach_D t Rt)).
      repeat split; auto. apply IH, Reach_D; assumption.
Qed.

(* fuel is enough: a sound set lives inside the universe *)
Lemma NoDupA_eq_NoDup (l : list positive) : SetoidList.NoDupA (@eq positive) l -> NoDup l.
Proof.
  induction 1 as [|x l Hx Hl IH]; constructor; [|assumption].
  intros Hin. apply Hx. apply SetoidList.InA_alt. exists x; auto.
Qed.
Lemma sound_card S : Sound S -> PS.cardinal S <= length universe.
Proof.
  intros HS. rewrite PS.cardinal_1. apply NoDup_incl_length.
  - apply NoDupA_eq_NoDup, PS.elements_3w.
  - intros x Hx. assert (PS.In x S) as Hin.
    { apply PSF.elements_iff, SetoidList.InA_alt. exists x; auto. }
    destruct (HS _ Hin) as [a [Ra ->]]. apply universe_all, Reach_D, Ra.
Qed.

Lemma iter_enough fuel S : Sound S -> length universe < fuel + PS.cardinal S -> iter fuel S <> None.
Proof.
  revert S; induction fuel as [|f IH]; intros S HS Hlt; cbn [iter].
  - pose proof (sound_card S HS). lia.
  - destruct (Nat.eqb _ _) eqn:E; [discriminate|]. apply IH; [apply expand_sound; assumption|].
    apply Nat.eqb_neq in E. pose proof (PSP.subset_cardinal (expand_incl S)). lia.
Qed.
Theorem closure_total : closure <> None.
Proof. apply iter_enough; [apply init_sound|]. lia. Qed.
End S.
