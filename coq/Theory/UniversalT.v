(* Theory/UniversalT.v — the 2N+1 strings of the universal set are pairwise distinct, for every N and every k >= 2
   (C07; the bounded computation in CompilerT covers N <= 12 only). *)
From PauLie Require Import Pauli Compiler CompilerT QuadraticT GraphT.
From Coq Require Import Lia.

Lemma nth_identity n i : nth i (identity n) PI = PI.
Proof. unfold identity. revert i; induction n as [|n IH]; intros [|i]; cbn; auto. Qed.
Lemma nth_rep {A} (a d : A) : forall m j, (j < m)%nat -> nth j (repeat a m) d = a.
Proof. induction m as [|m IH]; intros [|j] H; cbn; try lia; [reflexivity|apply IH; lia]. Qed.
Lemma nth_single n i j a : (i < n)%nat -> nth j (get_single n i a) PI = if Nat.eqb j i then a else PI.
Proof.
  intros Hi. unfold get_single. assert (Li : length (identity i) = i) by apply repeat_length.
  destruct (Nat.eqb_spec j i) as [->|Hne].
  - rewrite app_nth2 by lia. rewrite Li, Nat.sub_diag. reflexivity.
  - destruct (lt_dec j i) as [Hlt|Hge].
    + rewrite app_nth1 by lia. apply nth_identity.
    + rewrite app_nth2 by lia. rewrite Li. destruct (j - i)%nat as [|m] eqn:E; [lia|]. cbn [app nth]. apply nth_identity.
Qed.
Lemma single_inj n i j a b : (i < n)%nat -> (j < n)%nat -> a <> PI -> b <> PI -> get_single n i a = get_single n j b -> i = j /\ a = b.
Proof.
  intros Hi Hj Ha Hb E. assert (E1 := f_equal (fun s => nth i s PI) E). cbn beta in E1.
  rewrite (nth_single n i i a Hi), (nth_single n j i b Hj), Nat.eqb_refl in E1.
  destruct (Nat.eqb_spec i j) as [->|Hne]; [split; [reflexivity|exact E1]|contradiction].
Qed.
Lemma single_not_identity n i a : (i < n)%nat -> a <> PI -> get_single n i a <> identity n.
Proof. intros Hi Ha E. assert (E1 := f_equal (fun s => nth i s PI) E). cbn beta in E1. rewrite (nth_single n i i a Hi), Nat.eqb_refl, nth_identity in E1. contradiction. Qed.
Lemma single_not_allZ k i a : (2 <= k)%nat -> (i < k)%nat -> get_single k i a <> repeat PZ k.
Proof.
  intros Hk Hi E. set (j := if Nat.eqb i 0 then 1%nat else 0%nat). assert (Hj : (j < k)%nat /\ j <> i) by (unfold j; destruct (Nat.eqb_spec i 0); lia).
  assert (E1 := f_equal (fun s => nth j s PI) E). cbn beta in E1. rewrite (nth_single k i j a Hi) in E1.
  destruct (Nat.eqb_spec j i) as [|_]; [lia|]. rewrite (nth_rep PZ PI) in E1 by lia. discriminate.
Qed.

Lemma NoDup_map_inj_on {A B} (f : A -> B) l : (forall x y, In x l -> In y l -> f x = f y -> x = y) -> NoDup l -> NoDup (map f l).
Proof.
  induction l as [|a l IH]; intros Hinj Hnd; [constructor|]. inversion Hnd as [|? ? Hna Hnd']; subst. cbn [map]. constructor.
  - intros Hin. apply in_map_iff in Hin. destruct Hin as [x [E Hx]]. apply Hna. rewrite <- (Hinj x a (or_intror Hx) (or_introl eq_refl) E). exact Hx.
  - apply IH; [|exact Hnd']. intros x y Hx Hy. apply Hinj; right; assumption.
Qed.
Lemma singles_nodup k : NoDup (flat_map (fun i => [get_single k i PX; get_single k i PZ]) (seq 0 k)).
Proof.
  assert (G : forall l, NoDup l -> (forall i, In i l -> (i < k)%nat) -> NoDup (flat_map (fun i => [get_single k i PX; get_single k i PZ]) l)).
  { induction l as [|i l IH]; intros Hnd Hlt; [constructor|]. inversion Hnd as [|? ? Hni Hnd']; subst. cbn [flat_map app].
    assert (Hi : (i < k)%nat) by (apply Hlt; left; reflexivity).
    assert (Hout : forall a, a <> PI -> ~ In (get_single k i a) (flat_map (fun i => [get_single k i PX; get_single k i PZ]) l)).
    { intros a Ha Hin. apply in_flat_map in Hin. destruct Hin as [j [Hj Hin]]. assert (Hjk : (j < k)%nat) by (apply Hlt; right; exact Hj).
      destruct Hin as [E|[E|[]]]; apply single_inj in E; try assumption; try discriminate; destruct E as [E _]; subst j; exact (Hni Hj). }
    constructor; [|constructor; [|apply IH; [exact Hnd'|intros j Hj; apply Hlt; right; exact Hj]]].
    - intros [E|Hin]; [apply single_inj in E; try discriminate; try exact Hi; destruct E as [_ E]; discriminate|]. apply (Hout PX); [discriminate|exact Hin].
    - apply (Hout PZ). discriminate. }
  apply G; [apply seq_NoDup|]. intros i Hi. apply in_seq in Hi. lia.
Qed.
Lemma left_nodup k : (2 <= k)%nat -> NoDup (left_a_minimal k).
Proof.
  intros Hk. unfold left_a_minimal. apply NoDup_app_intro; [apply singles_nodup|constructor; [intros []|constructor]|].
  intros x Hx [<-|[]]. apply in_flat_map in Hx. destruct Hx as [i [Hi [E|[E|[]]]]]; apply in_seq in Hi; apply (single_not_allZ k i _ Hk) in E; try lia; exact E.
Qed.
Lemma left_lengths k a : In a (left_a_minimal k) -> length a = k.
Proof.
  unfold left_a_minimal. intros H. apply in_app_or in H. destruct H as [H|[<-|[]]]; [|apply repeat_length].
  apply in_flat_map in H. destruct H as [i [Hi [<-|[<-|[]]]]]; apply in_seq in Hi; apply get_single_length; lia.
Qed.

Theorem universal_nodup N k U : (2 <= k)%nat -> universal N k = Ok U -> NoDup U.
Proof.
  intros Hk2 HU. unfold universal in HU. destruct (Nat.leb 1 k && Nat.ltb k N)%bool eqn:E; [|discriminate].
  apply andb_true_iff in E. destruct E as [_ E2]. apply Nat.ltb_lt in E2.
  assert (EU : U = map (fun a => a ++ identity (N - k)) (left_a_minimal k) ++ map (fun j => choose_u k ++ get_single (N - k) j PX) (seq 0 (N - k))
                   ++ map (fun j => choose_u k ++ get_single (N - k) j PZ) (seq 0 (N - k))) by congruence.
  subst U. clear HU. set (nr := (N - k)%nat).
  assert (Lu : length (choose_u k) = k) by (apply get_single_length; lia).
  set (u := choose_u k) in *. clearbody u.
  assert (RX : forall a, a <> PI -> NoDup (map (fun j => u ++ get_single nr j a) (seq 0 nr))).
  { intros a Ha. apply NoDup_map_inj_on; [|apply seq_NoDup]. intros x y Hx Hy Exy. apply in_seq in Hx, Hy.
    apply app_inv_head in Exy. apply single_inj in Exy; [apply Exy|lia|lia|exact Ha|exact Ha]. }
  apply NoDup_app_intro; [|apply NoDup_app_intro|].
  - apply NoDup_map_inj_on; [|apply left_nodup; exact Hk2]. intros x y _ _ Exy. apply app_inv_tail in Exy. exact Exy.
  - apply RX. discriminate.
  - apply RX. discriminate.
  - intros x Hx Hz. apply in_map_iff in Hx, Hz. destruct Hx as [i [<- Hi]], Hz as [j [Ez Hj]]. apply in_seq in Hi, Hj.
    apply app_inv_head in Ez. apply single_inj in Ez; try lia; try discriminate. destruct Ez as [_ Ez]. discriminate.
  - intros x Hx Hr. apply in_map_iff in Hx. destruct Hx as [a [<- Ha]]. assert (La := left_lengths k a Ha).
    apply in_app_or in Hr. destruct Hr as [Hr|Hr]; apply in_map_iff in Hr; destruct Hr as [j [Ej Hj]]; apply in_seq in Hj;
      apply app_inj_len in Ej; try congruence; destruct Ej as [_ Ej]; apply (single_not_identity nr j) in Ej; try lia; try discriminate; exact Ej.
Qed.
