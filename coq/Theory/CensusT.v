(* Theory/CensusT.v — the census dimension of the classifier IS the size of the commutator closure, for every canonical
   graph with at most 10 vertices that has a single leg, for EVERY independent list of generators with that
   anticommutation graph, on any number of qubits (C01, C09).  The standard realisation of each graph is built and its
   closure enumerated with the verified closure inside the kernel; Theory/GraphDetT.v carries the count to every other
   realisation. *)
From Coq Require Import List Bool Lia NArith ZArith Arith.
Import ListNotations.
From PauLie Require Import Pauli Sym SymT ClT ClSym ClosureGen ClosureN ClosureT Star GraphDetT.
Open Scope nat_scope.

(* ---------- enumeration of the verified closure ---------- *)
Section Enum.
Variable n : N.
Variable G : list P.
Hypothesis G_D : forall g, In g G -> DN n g.
Theorem closureN_enum R : closureN n G = Some R ->
  let L := map (decodeN n) (PS.elements R) in
  NoDup L /\ (forall a, In a L <-> ClS (fun g => In g G) a) /\ length L = PS.cardinal R.
Proof.
  intros H L. unfold closureN, closure in H.
  destruct (iter_sound P mul anti (codeN n) (decodeN n) (DN n) (DN_mul n) (decode_code n) G G_D _ _ R (init_sound P mul anti (codeN n) G) H) as [Snd _].
  assert (El : forall c, In c (PS.elements R) <-> PS.In c R).
  { intros c. rewrite PSF.elements_iff, SetoidList.InA_alt. split; [intros Hc; exists c; split; [reflexivity|exact Hc]|intros [y [<- Hy]]; exact Hy]. }
  assert (Dec : forall c, PS.In c R -> exists a, Reach P mul anti G a /\ c = codeN n a /\ decodeN n c = a).
  { intros c Hc. destruct (Snd c Hc) as [a [Ra ->]]. exists a. split; [exact Ra|]. split; [reflexivity|].
    apply decode_code. apply (Reach_D P mul anti (DN n) (DN_mul n) G G_D a Ra). }
  split; [|split].
  - unfold L. assert (ND : NoDup (PS.elements R)) by (apply NoDupA_eq_NoDup, PS.elements_3w).
    assert (Inj : forall c c', In c (PS.elements R) -> In c' (PS.elements R) -> decodeN n c = decodeN n c' -> c = c').
    { intros c c' Hc Hc' E. apply El in Hc, Hc'. destruct (Dec c Hc) as [a [_ [-> Ea]]], (Dec c' Hc') as [a' [_ [-> Ea']]]. congruence. }
    apply NoDup_map_on'; assumption.
  - intros a. unfold L. rewrite in_map_iff. rewrite <- (reach_iff_cl G a). split.
    + intros [c [<- Hc]]. apply El in Hc. destruct (Dec c Hc) as [a' [Ra [_ ->]]]. exact Ra.
    + intros Ra. exists (codeN n a). assert (Da := Reach_D P mul anti (DN n) (DN_mul n) G G_D a Ra). split; [apply decode_code; exact Da|].
      apply El. apply (closureN_reach n G G_D R H a Da). exact Ra.
  - unfold L. rewrite map_length, PS.cardinal_1. reflexivity.
Qed.
End Enum.

(* ---------- stars and their standard realisation ---------- *)
(* vertex numbering of a star with leg lengths ls: centre 0, then the legs one after the other, from the centre outwards *)
Fixpoint leg_pos (ls : list nat) (v : nat) : option (nat * nat) :=
  match ls with
  | [] => None
  | l :: t => if Nat.leb v l then Some (0, v) else match leg_pos t (v - l) with Some (k, d) => Some (S k, d) | None => None end
  end.
Definition star_adj (ls : list nat) (i j : nat) : bool :=
  match i, j with
  | O, O => false
  | O, _ => match leg_pos ls j with Some (_, d) => Nat.eqb d 1 | None => false end
  | _, O => match leg_pos ls i with Some (_, d) => Nat.eqb d 1 | None => false end
  | _, _ => match leg_pos ls i, leg_pos ls j with
            | Some (k, d), Some (k', d') => Nat.eqb k k' && (Nat.eqb (S d) d' || Nat.eqb d (S d'))
            | _, _ => false end
  end.
Definition zmask (A : nat -> nat -> bool) (i : nat) : N :=
  fold_left (fun acc j => if A i j then N.lor acc (N.shiftl 1 (N.of_nat j)) else acc) (seq 0 i) 0%N.
(* vertex i: X on qubit i, Z on the earlier neighbours *)
Definition std (A : nat -> nat -> bool) (m : nat) : list P := map (fun i => (N.shiftl 1 (N.of_nat i), zmask A i)) (seq 0 m).
Definition census_dim (ls : list nat) : cres Z := dla_dim [1 :: ls].

(* decidable checks on a concrete list *)
Fixpoint sels (m : nat) : list (list bool) :=
  match m with O => [[]] | S k => map (cons false) (sels k) ++ map (cons true) (sels k) end.
Lemma sels_all : forall m s, length s = m -> In s (sels m).
Proof.
  induction m as [|m IH]; intros [|b s] H; try discriminate; [left; reflexivity|]. injection H as H. cbn [sels]. apply in_or_app.
  destruct b; [right|left]; apply in_map; apply IH; exact H.
Qed.
Fixpoint nodupP (l : list P) : bool := match l with [] => true | a :: t => negb (existsb (P_eqb a) t) && nodupP t end.
Lemma nodupP_inj {A} (f : A -> P) l : nodupP (map f l) = true -> forall x y, In x l -> In y l -> f x = f y -> x = y.
Proof.
  induction l as [|a l IH]; intros H x y Hx Hy E; [destruct Hx|]. cbn [map nodupP] in H. apply andb_true_iff in H. destruct H as [H1 H2].
  assert (Hn : forall z, In z l -> f a <> f z).
  { intros z Hz Ez. apply negb_true_iff in H1. assert (existsb (P_eqb (f a)) (map f l) = true); [|congruence].
    apply existsb_exists. exists (f z). split; [apply in_map; exact Hz|apply P_eqb_eq; exact Ez]. }
  destruct Hx as [<-|Hx], Hy as [<-|Hy]; [reflexivity|exfalso; apply (Hn y Hy E)|exfalso; apply (Hn x Hx); symmetry; exact E|apply IH; assumption].
Qed.
Definition indep_check (hs : list P) : bool := nodupP (map (fun s => sprod s hs) (sels (length hs))).
Lemma indep_check_sound hs : indep_check hs = true -> independent hs.
Proof. intros H s t Ls Lt E. apply (nodupP_inj (fun s => sprod s hs) _ H); [apply sels_all; exact Ls|apply sels_all; exact Lt|exact E]. Qed.
Definition pattern_check (A : nat -> nat -> bool) (hs : list P) : bool :=
  forallb (fun i => forallb (fun j => Bool.eqb (anti (nth i hs pid) (nth j hs pid)) (A i j)) (seq 0 (length hs))) (seq 0 (length hs)).
Lemma pattern_check_sound A hs : pattern_check A hs = true ->
  forall i j, i < length hs -> j < length hs -> anti (nth i hs pid) (nth j hs pid) = A i j.
Proof.
  intros H i j Hi Hj. unfold pattern_check in H. rewrite forallb_forall in H. specialize (H i ltac:(apply in_seq; lia)).
  rewrite forallb_forall in H. specialize (H j ltac:(apply in_seq; lia)). apply Bool.eqb_prop in H. exact H.
Qed.
Definition dn_check (m : nat) (hs : list P) : bool :=
  forallb (fun g => (fst g <? 2 ^ N.of_nat m)%N && (snd g <? 2 ^ N.of_nat m)%N) hs.
Lemma dn_check_sound m hs : dn_check m hs = true -> forall g, In g hs -> DN (N.of_nat m) g.
Proof. intros H g Hg. unfold dn_check in H. rewrite forallb_forall in H. specialize (H g Hg). apply andb_true_iff in H. destruct H as [H1 H2]. apply N.ltb_lt in H1, H2. split; assumption. Qed.

Definition census_ok (ls : list nat) : bool :=
  let m := S (list_sum ls) in
  let hs := std (star_adj ls) m in
  Nat.eqb (length hs) m && pattern_check (star_adj ls) hs && indep_check hs && dn_check m hs &&
  match closureN (N.of_nat m) hs, census_dim ls with
  | Some R, COk d => Z.eqb (Z.of_nat (PS.cardinal R)) d
  | _, _ => false
  end.

(* what a successful check means: EVERY independent list with the graph of the star ls generates exactly census-many strings *)
Theorem census_ok_sound ls : census_ok ls = true ->
  forall gs : list P, length gs = S (list_sum ls) ->
  (forall i j, i < length gs -> j < length gs -> anti (nth i gs pid) (nth j gs pid) = star_adj ls i j) ->
  independent gs ->
  exists LP d, census_dim ls = COk d /\ NoDup LP /\ (forall p, In p LP <-> ClS (fun g => In g gs) p) /\ Z.of_nat (length LP) = d.
Proof.
  intros H gs Lg Pat Ig. unfold census_ok in H. cbv zeta in H. set (m := S (list_sum ls)) in *. set (hs := std (star_adj ls) m) in *.
  apply andb_true_iff in H. destruct H as [H HC]. apply andb_true_iff in H. destruct H as [H HDN].
  apply andb_true_iff in H. destruct H as [H HI]. apply andb_true_iff in H. destruct H as [Lh HP]. apply Nat.eqb_eq in Lh.
  destruct (closureN (N.of_nat m) hs) as [R|] eqn:ER; [|discriminate]. destruct (census_dim ls) as [d|] eqn:Ed; [|discriminate].
  apply Z.eqb_eq in HC.
  assert (GD := dn_check_sound m hs HDN).
  destruct (closureN_enum (N.of_nat m) hs GD R ER) as [ND [EN LN]].
  assert (SP : same_pattern gs hs).
  { split; [congruence|]. intros i j Hi Hj. rewrite (Pat i j Hi Hj). symmetry. apply (pattern_check_sound _ hs HP); congruence. }
  destruct (graph_determines_size gs hs SP Ig (indep_check_sound hs HI) _ ND EN) as [LP [NDP [ENP LNP]]].
  exists LP, d. split; [reflexivity|]. split; [exact NDP|]. split; [exact ENP|]. rewrite LNP, LN. exact HC.
Qed.

(* ---------- the table: every canonical star with a single leg and at most `maxv` vertices ---------- *)
Definition stars_upto (maxv : nat) : list (list nat) :=
  flat_map (fun k => flat_map (fun t => flat_map (fun l =>
      let ls := repeat 1 k ++ repeat 2 t ++ (if Nat.eqb l 0 then [] else [l]) in
      if Nat.leb (S (list_sum ls)) maxv && negb (Nat.eqb l 1) && negb (Nat.eqb l 2) then [ls] else [])
    (seq 0 maxv)) (seq 0 maxv)) (seq 1 maxv).
(* the canonical ones: those the census accepts (a leg of length 2 goes with a long leg of 3 or 4 only) *)
Definition canon_stars (maxv : nat) : list (list nat) :=
  filter (fun ls => match census_dim ls with COk _ => true | ClassErr => false end) (stars_upto maxv).
Lemma census_table_10 : forallb census_ok (canon_stars 10) = true.
Proof. vm_compute. reflexivity. Qed.

Theorem census_is_closure_size ls : In ls (canon_stars 10) ->
  forall gs : list P, length gs = S (list_sum ls) ->
  (forall i j, i < length gs -> j < length gs -> anti (nth i gs pid) (nth j gs pid) = star_adj ls i j) ->
  independent gs ->
  exists LP d, census_dim ls = COk d /\ NoDup LP /\ (forall p, In p LP <-> ClS (fun g => In g gs) p) /\ Z.of_nat (length LP) = d.
Proof.
  intros Hin. apply census_ok_sound. assert (T := census_table_10). rewrite forallb_forall in T. apply T. exact Hin.
Qed.
