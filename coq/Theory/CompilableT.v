(* Theory/CompilableT.v — for every even k and every N, every non-identity target HAS a sequence over the universal
   set that passes the validator compile_ok: the compile problem of C06 is solvable whenever k is even (and for no
   odd k >= 3, CompilerT.c06_refuted_odd_k). *)
From PauLie Require Import Pauli Sym SymT ClT ClSym Matrix MatrixT InvarT ParserT Compiler CompilerT UniversalT ExtendT LeftFullT.
From Coq Require Import Lia.

Theorem compilable_even_k N k U target : Nat.even k = true -> (2 <= k)%nat -> universal N k = Ok U ->
  length target = N -> target <> identity N -> exists s, compile_ok N k target s = true.
Proof.
  intros Hev Hk HU Lt Nt.
  assert (HC : ClL (fun g => In g U) target) by (apply (universal_generates_all N k U Hev Hk HU); split; assumption).
  assert (HL : forall g, In g U -> length g = N) by (apply (universal_each_length N k U HU)).
  apply (ClL_enc N (fun g => In g U) HL target Lt) in HC.
  assert (HC' : ClS (fun a => In a (map enc U)) (enc target)).
  { revert HC. apply s_ext. intros a. unfold image. rewrite in_map_iff. split.
    - intros [g [E Hg]]. exists g. split; [exact Hg|symmetry; exact E].
    - intros [g [Hg E]]. exists g. split; [symmetry; exact E|exact Hg]. }
  destruct (nested_exists N U target HL Lt HC') as [s [Hne [Hmem Hev']]].
  exists s. unfold compile_ok. rewrite HU. destruct s as [|a0 s']; [congruence|].
  apply andb_true_iff. split.
  - apply forallb_forall. intros a Ha. unfold memU. apply existsb_exists. exists a. split; [apply Hmem; exact Ha|apply pstr_eqb_eq; reflexivity].
  - rewrite Hev'. apply pstr_eqb_eq. reflexivity.
Qed.
