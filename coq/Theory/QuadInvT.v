(* Theory/QuadInvT.v — every quadratic symmetry Q_{C,L} = sum_{S in C} phase(L,S) S (x) L.S commutes with
   g (x) 1 + 1 (x) g for every generator g, for every n (C16: "each returned quadratic symmetry commutes with
   g(x)1 + 1(x)g for every member g").  Needs only: L commutes with g, C duplicate-free and closed under
   S |-> g.S for the S anticommuting with g — which the components of the commutator graph and the commutants are. *)
From PauLie Require Import Pauli Matrix MatrixT ParserT InvarT CompilerT Linear LinearT Graph GraphT Quadratic QuadraticT.
From Coq Require Import Lia Permutation.

(* ---------- letterwise phase identities with their signs ---------- *)
Definition sg (b : bool) : gi := if b then gneg g1 else g1.
Lemma sg_xor a b : sg (xorb a b) = gmul (sg a) (sg b).
Proof. destruct a, b; reflexivity. Qed.
Lemma ph1_i l g s : gmul (ph1 l (pm g s)) (ph1 g (pm g s)) =
  gmul (gmul (sg (anti1 g s)) (sg (anti1 g l))) (gmul (ph1 l s) (ph1 g (pm l s))).
Proof. destruct l, g, s; reflexivity. Qed.
Lemma ph1_ii l g s : gmul (ph1 l (pm g s)) (ph1 g (pm l (pm g s))) =
  gmul (gmul (sg (anti1 g s)) (sg (anti1 g l))) (gmul (ph1 l s) (ph1 g s)).
Proof. destruct l, g, s; reflexivity. Qed.
Lemma phase_i : forall L g S, length L = length S -> length g = length S ->
  gmul (phase L (smul g S)) (phase g (smul g S)) =
  gmul (gmul (sg (anti_l g S)) (sg (anti_l g L))) (gmul (phase L S) (phase g (smul L S))).
Proof.
  induction L as [|l L IH]; intros [|g G] [|s S] HL Hg; try discriminate; [reflexivity|].
  injection HL as HL. injection Hg as Hg. cbn [smul phase anti_l].
  transitivity (gmul (gmul (ph1 l (pm g s)) (ph1 g (pm g s))) (gmul (phase L (smul G S)) (phase G (smul G S)))); [gring|].
  rewrite (IH G S HL Hg), ph1_i, !sg_xor. gring.
Qed.
Lemma phase_ii : forall L g S, length L = length S -> length g = length S ->
  gmul (phase L (smul g S)) (phase g (smul L (smul g S))) =
  gmul (gmul (sg (anti_l g S)) (sg (anti_l g L))) (gmul (phase L S) (phase g S)).
Proof.
  induction L as [|l L IH]; intros [|g G] [|s S] HL Hg; try discriminate; [reflexivity|].
  injection HL as HL. injection Hg as Hg. cbn [smul phase anti_l].
  transitivity (gmul (gmul (ph1 l (pm g s)) (ph1 g (pm l (pm g s)))) (gmul (phase L (smul G S)) (phase G (smul L (smul G S))))); [gring|].
  rewrite (IH G S HL Hg), ph1_ii, !sg_xor. gring.
Qed.
Lemma phase_app a b c d : length a = length b -> phase (a ++ c) (b ++ d) = gmul (phase a b) (phase c d).
Proof. revert b; induction a as [|x a IH]; intros [|y b] H; try discriminate; [cbn; gring|]. cbn [app phase]. rewrite IH by (injection H; auto). gring. Qed.
Lemma phase_id_l : forall p, phase (identity (length p)) p = g1.
Proof. induction p as [|a p IH]; [reflexivity|]. cbn [length identity repeat phase]. fold (identity (length p)). rewrite IH. destruct a; reflexivity. Qed.
Lemma phase_id_r : forall p, phase p (identity (length p)) = g1.
Proof. induction p as [|a p IH]; [reflexivity|]. cbn [length identity repeat phase]. fold (identity (length p)). rewrite IH. destruct a; reflexivity. Qed.
Lemma smul_id_l : forall p, smul (identity (length p)) p = p.
Proof. induction p as [|a p IH]; [reflexivity|]. cbn [length identity repeat smul]. fold (identity (length p)). rewrite IH. destruct a; reflexivity. Qed.
Lemma smul_swap : forall a b c, length a = length c -> length b = length c -> smul a (smul b c) = smul b (smul a c).
Proof.
  induction a as [|x a IH]; intros [|y b] [|z c] Ha Hb; try discriminate; [reflexivity|].
  cbn [smul]. rewrite IH by (injection Ha; injection Hb; auto). destruct x, y, z; reflexivity.
Qed.
Lemma identity_length n : length (identity n) = n. Proof. apply repeat_length. Qed.

(* ---------- sums ---------- *)
Lemma gsum_perm {A} (l l' : list A) f : Permutation l l' -> gsum l f = gsum l' f.
Proof. induction 1 as [|x l l' _ IH|x y l|l l' l'' _ IH1 _ IH2]; rewrite ?gsum_cons; [reflexivity|rewrite IH; reflexivity|gring|congruence]. Qed.
Lemma gsum_filter {A} (p : A -> bool) l f : gsum (filter p l) f = gsum l (fun x => if p x then f x else g0).
Proof. induction l as [|a l IH]; [reflexivity|]. cbn [filter]. rewrite gsum_cons. destruct (p a); rewrite ?gsum_cons, IH; [reflexivity|gring]. Qed.
Lemma gneg_self x : x = gneg x -> x = g0.
Proof. intros H. apply gi_eq; [assert (E := f_equal fst H)|assert (E := f_equal snd H)]; unfold gneg, g0 in *; cbn [fst snd] in *; lia. Qed.
Lemma gsum_neg {A} (l : list A) f : gsum l (fun x => gneg (f x)) = gneg (gsum l f).
Proof. induction l as [|a l IH]; [reflexivity|]. rewrite !gsum_cons, IH. gring. Qed.
Lemma coef_map {A} (h : A -> gi * pstr) l T : coef (map h l) T = gsum l (fun x => if pstr_eqb T (snd (h x)) then fst (h x) else g0).
Proof. unfold coef. rewrite gsum_map. reflexivity. Qed.
Lemma coef_flat_map {A} (h : A -> lin) l T : coef (flat_map h l) T = gsum l (fun x => coef (h x) T).
Proof. induction l as [|a l IH]; [reflexivity|]. cbn [flat_map]. rewrite coef_app, gsum_cons, IH. reflexivity. Qed.

Section Inv.
Variables (n : nat) (g L : pstr) (C : list pstr).
Hypotheses (Hg : length g = n) (HL : length L = n) (HC : forall s, In s C -> length s = n)
  (HND : NoDup C) (HgL : anti_l g L = false) (Hcl : forall s, In s C -> anti_l g s = true -> In (smul g s) C).

(* g (x) 1 + 1 (x) g as a combination on 2n qubits *)
Definition gen2 : lin := [(g1, g ++ identity n); (g1, identity n ++ g)].

Lemma LS_len S : length S = n -> length (smul L S) = n.
Proof. intros H. rewrite smul_length by congruence. exact HL. Qed.
Lemma x1_smul S : length S = n -> smul (g ++ identity n) (S ++ smul L S) = smul g S ++ smul L S.
Proof. intros H. rewrite smul_app by congruence. f_equal. rewrite <- (LS_len S H) at 1. apply smul_id_l. Qed.
Lemma x2_smul S : length S = n -> smul (identity n ++ g) (S ++ smul L S) = S ++ smul g (smul L S).
Proof. intros H. rewrite smul_app by (rewrite identity_length; congruence). f_equal. rewrite <- H at 1. apply smul_id_l. Qed.
Lemma x1_phase S : length S = n -> phase (g ++ identity n) (S ++ smul L S) = phase g S.
Proof. intros H. rewrite phase_app by congruence. rewrite <- (LS_len S H) at 1. rewrite phase_id_l. gring. Qed.
Lemma x2_phase S : length S = n -> phase (identity n ++ g) (S ++ smul L S) = phase g (smul L S).
Proof. intros H. rewrite phase_app by (rewrite identity_length; congruence). rewrite <- H at 1. rewrite phase_id_l. gring. Qed.
Lemma x1_phase_r S : length S = n -> phase (S ++ smul L S) (g ++ identity n) = if anti_l g S then gneg (phase g S) else phase g S.
Proof.
  intros H. rewrite phase_app by congruence. rewrite <- (LS_len S H) at 1. rewrite phase_id_r, (phase_swap S g), (anti_l_sym S g).
  destruct (anti_l g S); gring.
Qed.
Lemma x2_phase_r S : length S = n -> phase (S ++ smul L S) (identity n ++ g) = if anti_l g S then gneg (phase g (smul L S)) else phase g (smul L S).
Proof.
  intros H. rewrite phase_app by (rewrite identity_length; congruence). rewrite <- H at 1. rewrite phase_id_r, (phase_swap (smul L S) g).
  rewrite anti_l_smul_l by congruence. rewrite (anti_l_sym L g), HgL, (anti_l_sym S g). cbn [xorb].
  destruct (anti_l g S); gring.
Qed.

Variable T : pstr.
Definition aS (S : pstr) : gi :=
  gadd (if pstr_eqb T (smul g S ++ smul L S) then gmul (phase L S) (phase g S) else g0)
       (if pstr_eqb T (S ++ smul g (smul L S)) then gmul (phase L S) (phase g (smul L S)) else g0).

Lemma coef_left : coef (prod_terms gen2 (quadratic C L)) T = gsum C aS.
Proof.
  unfold gen2, quadratic. cbn [prod_terms flat_map fst snd]. rewrite app_nil_r, coef_app, !map_map, !coef_map, <- gsum_add.
  apply gsum_ext. intros S HS. cbn [fst snd]. unfold aS. rewrite x1_smul, x2_smul, x1_phase, x2_phase by (apply HC; exact HS).
  destruct (pstr_eqb T (smul g S ++ smul L S)), (pstr_eqb T (S ++ smul g (smul L S))); gring.
Qed.
Lemma coef_right : coef (prod_terms (quadratic C L) gen2) T = gsum C (fun S => if anti_l g S then gneg (aS S) else aS S).
Proof.
  unfold prod_terms, quadratic. rewrite flat_map_concat_map, map_map, <- flat_map_concat_map, coef_flat_map.
  apply gsum_ext. intros S HS. unfold gen2. cbn [map fst snd]. rewrite !coef_cons, coef_nil. cbn [fst snd].
  rewrite (smul_comm (S ++ smul L S) (g ++ identity n)), (smul_comm (S ++ smul L S) (identity n ++ g)).
  rewrite x1_smul, x2_smul, x1_phase_r, x2_phase_r by (apply HC; exact HS). unfold aS.
  destruct (anti_l g S), (pstr_eqb T (smul g S ++ smul L S)), (pstr_eqb T (S ++ smul g (smul L S))); gring.
Qed.

Lemma aS_sigma S : In S C -> anti_l g S = true -> aS (smul g S) = gneg (aS S).
Proof.
  intros HS Ha. assert (LS := HC S HS).
  assert (E1 : smul g (smul g S) = S) by (apply smul_cancel; congruence).
  assert (E2 : smul L (smul g S) = smul g (smul L S)) by (apply smul_swap; congruence).
  assert (E3 : smul g (smul L (smul g S)) = smul L S) by (rewrite E2; apply smul_cancel; rewrite LS_len by exact LS; exact Hg).
  assert (P1 := phase_i L g S ltac:(congruence) ltac:(congruence)).
  assert (P2 := phase_ii L g S ltac:(congruence) ltac:(congruence)).
  rewrite Ha, HgL in P1, P2. cbn [sg] in P1, P2.
  unfold aS. rewrite P1, P2, E3, E1, E2.
  destruct (pstr_eqb T (S ++ smul g (smul L S))), (pstr_eqb T (smul g S ++ smul L S)); gring.
Qed.
Lemma NoDup_map_on {A B} (f : A -> B) l : (forall x y, In x l -> In y l -> f x = f y -> x = y) -> NoDup l -> NoDup (map f l).
Proof.
  induction l as [|a l IH]; intros Hinj Hnd; [constructor|]. inversion Hnd as [|? ? Hna Hnd']; subst. cbn [map]. constructor.
  - intros Hin. apply in_map_iff in Hin. destruct Hin as [x [E Hx]]. apply Hna. rewrite <- (Hinj x a (or_intror Hx) (or_introl eq_refl) E). exact Hx.
  - apply IH; [|exact Hnd']. intros x y Hx Hy. apply Hinj; right; assumption.
Qed.
Lemma anti_part_zero : gsum (filter (anti_l g) C) aS = g0.
Proof.
  set (A := filter (anti_l g) C).
  assert (HA : forall S, In S A -> In S C /\ anti_l g S = true) by (intros S HS; apply filter_In in HS; exact HS).
  assert (HP : Permutation (map (smul g) A) A).
  { apply NoDup_Permutation_bis.
    - apply NoDup_map_on; [|apply NoDup_filter; exact HND]. intros x y Hx Hy E.
      destruct (HA x Hx) as [Hx' _], (HA y Hy) as [Hy' _].
      rewrite <- (smul_cancel g x), E by (rewrite (HC x Hx'); exact Hg). apply smul_cancel. rewrite (HC y Hy'). exact Hg.
    - rewrite map_length. lia.
    - intros x Hx. apply in_map_iff in Hx. destruct Hx as [S [<- HS]]. destruct (HA S HS) as [HS' Ha]. apply filter_In. split; [apply Hcl; assumption|].
      rewrite anti_l_sym, anti_l_smul_l by (rewrite (HC S HS'); exact Hg). rewrite (anti_l_sym S g), Ha.
      assert (anti_l g g = false) as -> by (clear; induction g as [|a t IH]; [reflexivity|cbn [anti_l]; rewrite IH; destruct a; reflexivity]). reflexivity. }
  apply gneg_self. rewrite <- gsum_neg. rewrite <- (gsum_perm _ _ aS HP) at 1. rewrite gsum_map.
  apply gsum_ext. intros S HS. destruct (HA S HS) as [HS' Ha]. apply aS_sigma; assumption.
Qed.
Lemma coef_comm : coef (prod_terms gen2 (quadratic C L)) T = coef (prod_terms (quadratic C L) gen2) T.
Proof.
  rewrite coef_left, coef_right.
  assert (E : gsum C (fun S => if anti_l g S then gneg (aS S) else aS S) =
              gadd (gsum C aS) (gmul (-2, 0)%Z (gsum C (fun S => if anti_l g S then aS S else g0)))).
  { rewrite <- gsum_scale, <- gsum_add. apply gsum_ext. intros S _. destruct (anti_l g S); gring. }
  rewrite E, <- gsum_filter, anti_part_zero. gring.
Qed.
End Inv.

(* the matrix statement: [g (x) 1 + 1 (x) g , Q_{C,L}] = 0 on 2n qubits *)
Theorem quadratic_invariant n g L C : length g = n -> length L = n -> (forall s, In s C -> length s = n) ->
  NoDup C -> anti_l g L = false -> (forall s, In s C -> anti_l g s = true -> In (smul g s) C) ->
  meq (2 * n) (mmul (2 * n) (denote (gen2 n g)) (denote (quadratic C L))) (mmul (2 * n) (denote (quadratic C L)) (denote (gen2 n g))).
Proof.
  intros Hg HL HC HND HgL Hcl.
  assert (HQ : all_n (2 * n) (quadratic C L)) by (apply quadratic_all_n; assumption).
  assert (HX : all_n (2 * n) (gen2 n g)).
  { intros t [<-|[<-|[]]]; cbn [snd]; rewrite app_length, identity_length; lia. }
  assert (Hlen : forall a b, all_n (2 * n) a -> all_n (2 * n) b -> all_n (2 * n) (prod_terms a b)).
  { intros a b Ha Hb t Ht. unfold prod_terms in Ht. apply in_flat_map in Ht. destruct Ht as [ta [Hta Ht]]. apply in_map_iff in Ht.
    destruct Ht as [tb [<- Htb]]. cbn [snd]. rewrite smul_length by (rewrite (Ha ta Hta), (Hb tb Htb); reflexivity). apply Ha. exact Hta. }
  intros r c Hr Hc. rewrite <- !(denote_prod_terms (2 * n)) by assumption.
  apply (denote_eq_iff_coef (2 * n)); [apply Hlen; assumption|apply Hlen; assumption| |exact Hr|exact Hc].
  intros p _. apply (coef_comm n g L C); assumption.
Qed.

(* ---------- the model's components and commutants meet the hypotheses ---------- *)
Section Closed.
Variable A : Type.
Variable adj : A -> A -> bool.
Hypothesis adj_sym : forall x y, adj x y = adj y x.
Lemma separated_closed : forall cs, separated A adj cs -> forall c, In c cs ->
  forall x y, In x c -> In y (concat cs) -> adj x y = true -> In y c.
Proof.
  induction cs as [|c0 rest IH]; intros Hs c Hc x y Hx Hy Ha; [destruct Hc|].
  cbn [separated] in Hs. destruct Hs as [H0 Hr]. cbn [concat] in Hy. apply in_app_or in Hy. destruct Hc as [<-|Hc].
  - destruct Hy as [Hy|Hy]; [exact Hy|]. rewrite (H0 x y Hx Hy) in Ha. discriminate.
  - destruct Hy as [Hy|Hy]; [|apply (IH Hr c Hc x y Hx Hy Ha)].
    assert (Hxr : In x (concat rest)) by (apply in_concat; exists c; split; assumption).
    rewrite adj_sym, (H0 y x Hy Hxr) in Ha. discriminate.
Qed.
Lemma NoDup_concat_in : forall (cs : list (list A)) c, NoDup (concat cs) -> In c cs -> NoDup c.
Proof.
  induction cs as [|c0 rest IH]; intros c Hnd Hc; [destruct Hc|]. cbn [concat] in Hnd. destruct Hc as [<-|Hc].
  - clear IH. induction c0 as [|a t IHt]; [constructor|]. cbn [app] in Hnd. inversion Hnd as [|? ? Hna Hnd']; subst. constructor.
    + intros Hin. apply Hna. apply in_or_app. left. exact Hin.
    + apply IHt. exact Hnd'.
  - apply IH; [|exact Hc]. clear IH Hc. induction c0 as [|a t IHt]; [exact Hnd|]. cbn [app] in Hnd. inversion Hnd; subst. apply IHt. assumption.
Qed.
End Closed.

Lemma anti_l_self : forall p, anti_l p p = false.
Proof. induction p as [|a t IH]; [reflexivity|]. cbn [anti_l]. rewrite IH. destruct a; reflexivity. Qed.

Lemma component_props n G C : (forall g, In g G -> length g = n) -> In C (commutator_components n G) ->
  (forall s, In s C -> length s = n) /\ NoDup C /\
  (forall g s, In g G -> In s C -> anti_l g s = true -> In (smul g s) C).
Proof.
  intros HG HC. unfold commutator_components, comps in HC.
  set (adj := fun p q => anti_l p q && memG (smul p q) G) in *.
  destruct (components_spec pstr adj (fun x => length x = n) (length (all_strs n)) (all_strs n) (le_n _)) as [P [_ S]].
  { intros x Hx. apply all_strs_In. exact Hx. }
  assert (Hin : forall s, In s C -> In s (concat (components pstr adj (length (all_strs n)) (all_strs n)))) by (intros s Hs; apply in_concat; exists C; split; assumption).
  assert (Hlen : forall s, In s C -> length s = n) by (intros s Hs; apply all_strs_In; apply (Permutation_in s P); apply Hin; exact Hs).
  split; [exact Hlen|]. split.
  - apply (NoDup_concat_in pstr (components pstr adj (length (all_strs n)) (all_strs n)) C); [|exact HC]. apply (Permutation_NoDup (Permutation_sym P)). apply all_strs_NoDup.
  - intros g s Hg Hs Ha. assert (Ls := Hlen s Hs). assert (Lg := HG g Hg).
    apply (separated_closed pstr adj) with (cs := components pstr adj (length (all_strs n)) (all_strs n)) (x := s); try assumption.
    + intros x y. unfold adj. rewrite (anti_l_sym x y), (smul_comm x y). reflexivity.
    + apply (Permutation_in _ (Permutation_sym P)). apply all_strs_In. rewrite smul_length by congruence. exact Lg.
    + unfold adj. apply andb_true_iff. split.
      * rewrite anti_l_sym, anti_l_smul_l by congruence. rewrite Ha, anti_l_self. reflexivity.
      * apply memG_In. rewrite smul_comm, smul_self_cancel by congruence. exact Hg.
Qed.

(* every member of the model's full quadratic basis is invariant under every generator *)
Theorem full_basis_invariant n G q g : (forall h, In h G -> length h = n) -> In q (full_basis n G) -> In g G ->
  meq (2 * n) (mmul (2 * n) (denote (gen2 n g)) (denote q)) (mmul (2 * n) (denote q) (denote (gen2 n g))).
Proof.
  intros HG Hq Hg. unfold full_basis in Hq. apply filter_In in Hq. destruct Hq as [Hq _].
  apply in_flat_map in Hq. destruct Hq as [C [HC Hq]]. apply in_map_iff in Hq. destruct Hq as [L [<- HL]].
  destruct (component_props n G C HG HC) as [Hlen [Hnd Hcl]].
  assert (Hne : G <> []) by (intros E; rewrite E in Hg; destruct Hg).
  destruct (commutants_spec n G Hne) as [Hspec _]. apply Hspec in HL. destruct HL as [LL Hcomm].
  apply quadratic_invariant; try assumption; [apply HG; exact Hg|apply Hcomm; exact Hg|intros s; apply Hcl; exact Hg].
Qed.
