(* Theory/ExtendT.v — one more qubit: if the closure of H is every non-identity string on n >= 2 qubits and w is a
   non-identity string, then H (x) I together with w (x) X and w (x) Z generates every non-identity string on n+1
   qubits.  (False for n = 1: {X,Z} with w = X gives so(5), which is why odd k fails in C07.) *)
From PauLie Require Import Pauli Sym SymT ClT ClSym Matrix MatrixT InvarT CompilerT Linear LinearT QuadraticT QuadInvT.
From Coq Require Import Lia.

Lemma clL_mono (G G' : pstr -> Prop) p : (forall g, G g -> G' g) -> ClL G p -> ClL G' p.
Proof. intros H. unfold ClL. apply cl_mono. intros g Hg. apply cl_gen. apply H. exact Hg. Qed.
Lemma smul_self : forall p, smul p p = identity (length p).
Proof. induction p as [|a p IH]; [reflexivity|]. cbn [smul length identity repeat]. fold (identity (length p)). rewrite IH. destruct a; reflexivity. Qed.
Lemma pstr_dec (p q : pstr) : {p = q} + {p <> q}.
Proof. decide equality. decide equality. Qed.
Lemma anti_not_id_l v p : anti_l v p = true -> v <> identity (length v).
Proof. intros H E. rewrite E, anti_identity_l in H. discriminate. Qed.
Lemma anti_not_id_r v p : anti_l v p = true -> p <> identity (length p).
Proof. intros H E. rewrite E, anti_identity_r in H. discriminate. Qed.
Lemma anti_neq v p : anti_l v p = true -> v <> p.
Proof. intros H E. subst. rewrite anti_l_self in H. discriminate. Qed.
Lemma smul_not_id q s : length q = length s -> anti_l q s = true -> smul q s <> identity (length s).
Proof.
  intros HL Ha E. apply (anti_neq q s Ha). apply (smul_identity_iff q s HL). rewrite E. unfold is_identity, identity. apply forallb_forall. intros x Hx. apply repeat_spec in Hx. subst. reflexivity.
Qed.
(* a string anticommuting with a given non-identity string, and with two of them *)
Lemma anti_witness : forall p, p <> identity (length p) -> exists v, length v = length p /\ anti_l v p = true.
Proof.
  induction p as [|a p IH]; intros Hne; [exfalso; apply Hne; reflexivity|]. destruct (pstr_dec p (identity (length p))) as [Ep|Np].
  - assert (a <> PI) by (intros ->; apply Hne; cbn [length identity repeat]; fold (identity (length p)); rewrite <- Ep; reflexivity).
    exists ((if xb a then PZ else PX) :: identity (length p)). split; [cbn [length]; rewrite identity_length; reflexivity|].
    cbn [anti_l]. rewrite anti_identity_l. destruct a; try congruence; reflexivity.
  - destruct (IH Np) as [v [Lv Hv]]. exists (PI :: v). split; [cbn [length]; congruence|]. cbn [anti_l]. rewrite Hv. destruct a; reflexivity.
Qed.
Lemma both_witness n s t : length s = n -> length t = n -> s <> identity n -> t <> identity n ->
  exists v, length v = n /\ anti_l v s = true /\ anti_l v t = true.
Proof.
  intros Ls Lt Hs Ht. rewrite <- Ls in Hs. rewrite <- Lt in Ht.
  destruct (anti_witness s Hs) as [v1 [L1 A1]], (anti_witness t Ht) as [v2 [L2 A2]].
  destruct (anti_l v1 t) eqn:E1; [exists v1; repeat split; congruence|].
  destruct (anti_l v2 s) eqn:E2; [exists v2; repeat split; congruence|].
  exists (smul v1 v2). split; [rewrite smul_length; congruence|]. rewrite !anti_l_smul_l by congruence. rewrite A1, A2, E1, E2. split; reflexivity.
Qed.

Section Extend.
Variables (n : nat) (H : pstr -> Prop) (w : pstr).
Hypothesis Hn : (2 <= n)%nat.
Hypothesis HH : forall h, H h -> length h = n.
Hypothesis Hfull : forall p, length p = n -> p <> identity n -> ClL H p.
Hypothesis Lw : length w = n.
Hypothesis Nw : w <> identity n.

Definition Gext (q : pstr) : Prop := (exists h, H h /\ q = h ++ [PI]) \/ q = w ++ [PX] \/ q = w ++ [PZ].
Definition T (l : pl) (s : pstr) : Prop := ClL Gext (s ++ [l]).

Lemma lift p : ClL H p -> length p = n /\ ClL Gext (p ++ [PI]).
Proof.
  induction 1 as [g Hg|a b _ [La IHa] _ [Lb IHb] Hab].
  - split; [apply HH; exact Hg|]. apply cl_gen. left. exists g. split; [exact Hg|reflexivity].
  - split; [rewrite smul_length; congruence|]. replace (smul a b ++ [PI]) with (smul (a ++ [PI]) (b ++ [PI])) by (rewrite smul_app by congruence; reflexivity).
    apply cl_br; [exact IHa|exact IHb|]. rewrite anti_l_app by congruence. rewrite Hab. reflexivity.
Qed.
Lemma T_I s : length s = n -> s <> identity n -> T PI s.
Proof. intros Ls Ns. apply lift. apply Hfull; assumption. Qed.
Lemma T_step l s q : T l s -> length s = n -> length q = n -> anti_l q s = true -> T l (smul q s).
Proof.
  intros Ts Ls Lq Ha. unfold T. replace (smul q s ++ [l]) with (smul (q ++ [PI]) (s ++ [l])) by (rewrite smul_app by congruence; cbn; destruct l; reflexivity).
  apply cl_br; [|exact Ts|].
  - apply T_I; [exact Lq|]. rewrite <- Lq. apply (anti_not_id_l q s Ha).
  - rewrite anti_l_app by congruence. rewrite Ha. destruct l; reflexivity.
Qed.
Lemma T_all l s0 : T l s0 -> length s0 = n -> s0 <> identity n -> forall t, length t = n -> t <> identity n -> T l t.
Proof.
  intros T0 L0 N0 t Lt Nt. destruct (both_witness n s0 t L0 Lt N0 Nt) as [v [Lv [A1 A2]]].
  assert (Tv : T l v).
  { replace v with (smul (smul v s0) s0) by (apply smul_self_cancel; congruence). apply T_step; [exact T0|exact L0|rewrite smul_length; congruence|].
    rewrite anti_l_smul_l by congruence. rewrite A1, anti_l_self. reflexivity. }
  replace t with (smul (smul t v) v) by (apply smul_self_cancel; congruence). apply T_step; [exact Tv|exact Lv|rewrite smul_length; congruence|].
  rewrite anti_l_smul_l by congruence. rewrite (anti_l_sym t v), A2, anti_l_self. reflexivity.
Qed.
Lemma T_X s : length s = n -> s <> identity n -> T PX s.
Proof. apply (T_all PX w); [apply cl_gen; right; left; reflexivity|exact Lw|exact Nw]. Qed.
Lemma T_Z s : length s = n -> s <> identity n -> T PZ s.
Proof. apply (T_all PZ w); [apply cl_gen; right; right; reflexivity|exact Lw|exact Nw]. Qed.
Lemma T_Y s : length s = n -> s <> identity n -> T PY s.
Proof.
  set (m := (n - 2)%nat). assert (En : n = S (S m)) by (unfold m; lia).
  set (a := PX :: PI :: identity m). set (b := PI :: PX :: identity m).
  assert (La : length a = n) by (unfold a; cbn [length]; rewrite identity_length; lia).
  assert (Lb : length b = n) by (unfold b; cbn [length]; rewrite identity_length; lia).
  assert (Na : a <> identity n) by (rewrite En; unfold a, identity; cbn; discriminate).
  assert (Nb : b <> identity n) by (rewrite En; unfold b, identity; cbn; discriminate).
  assert (Tab : T PY (smul a b)).
  { unfold T. replace (smul a b ++ [PY]) with (smul (a ++ [PX]) (b ++ [PZ])) by (rewrite smul_app by congruence; reflexivity).
    apply cl_br; [apply T_X; assumption|apply T_Z; assumption|]. rewrite anti_l_app by congruence. unfold a, b. cbn [anti_l]. rewrite anti_identity. reflexivity. }
  apply (T_all PY (smul a b) Tab); [rewrite smul_length; congruence|]. rewrite En. unfold a, b, identity. cbn. discriminate.
Qed.
Lemma T_idY : T PY (identity n).
Proof.
  unfold T. replace (identity n ++ [PY]) with (smul (w ++ [PX]) (w ++ [PZ])) by (rewrite smul_app by reflexivity; rewrite smul_self, Lw; reflexivity).
  apply cl_br; [apply cl_gen; right; left; reflexivity|apply cl_gen; right; right; reflexivity|]. rewrite anti_l_app by reflexivity. rewrite anti_l_self. reflexivity.
Qed.
Lemma T_idX : T PX (identity n).
Proof.
  unfold T. replace (identity n ++ [PX]) with (smul (w ++ [PY]) (w ++ [PZ])) by (rewrite smul_app by reflexivity; rewrite smul_self, Lw; reflexivity).
  apply cl_br; [apply T_Y; assumption|apply T_Z; assumption|]. rewrite anti_l_app by reflexivity. rewrite anti_l_self. reflexivity.
Qed.
Lemma T_idZ : T PZ (identity n).
Proof.
  unfold T. replace (identity n ++ [PZ]) with (smul (w ++ [PX]) (w ++ [PY])) by (rewrite smul_app by reflexivity; rewrite smul_self, Lw; reflexivity).
  apply cl_br; [apply T_X; assumption|apply T_Y; assumption|]. rewrite anti_l_app by reflexivity. rewrite anti_l_self. reflexivity.
Qed.

Theorem extend_full p : length p = S n -> p <> identity (S n) -> ClL Gext p.
Proof.
  intros Lp Np. assert (Hp : p <> []) by (intros ->; cbn in Lp; lia). destruct (exists_last Hp) as [s [l ->]].
  rewrite app_length in Lp. cbn [length] in Lp. assert (Ls : length s = n) by lia.
  assert (Eid : identity (S n) = identity n ++ [PI]) by (unfold identity; rewrite <- repeat_cons; reflexivity).
  destruct (pstr_dec s (identity n)) as [->|Ns].
  - destruct l; [exfalso; apply Np; rewrite Eid; reflexivity|apply T_idX|apply T_idY|apply T_idZ].
  - destruct l; [apply T_I|apply T_X|apply T_Y|apply T_Z]; assumption.
Qed.
End Extend.

(* ---------- the same with any two distinct non-identity letters on the new qubit and two left factors ---------- *)
Section Extend2.
Variables (n : nat) (H : pstr -> Prop) (w1 w2 : pstr) (l1 l2 : pl).
Hypothesis Hn : (2 <= n)%nat.
Hypothesis HH : forall h, H h -> length h = n.
Hypothesis Hfull : forall p, length p = n -> p <> identity n -> ClL H p.
Hypothesis Lw1 : length w1 = n.
Hypothesis Nw1 : w1 <> identity n.
Hypothesis Lw2 : length w2 = n.
Hypothesis Nw2 : w2 <> identity n.
Hypothesis Hl1 : l1 <> PI.
Hypothesis Hl2 : l2 <> PI.
Hypothesis Hl12 : l1 <> l2.

Definition Gext2 (q : pstr) : Prop := (exists h, H h /\ q = h ++ [PI]) \/ q = w1 ++ [l1] \/ q = w2 ++ [l2].
Definition T2 (l : pl) (s : pstr) : Prop := ClL Gext2 (s ++ [l]).
Let l3 := pm l1 l2.

Lemma lift2 p : ClL H p -> length p = n /\ ClL Gext2 (p ++ [PI]).
Proof.
  induction 1 as [g Hg|a b _ [La IHa] _ [Lb IHb] Hab].
  - split; [apply HH; exact Hg|]. apply cl_gen. left. exists g. split; [exact Hg|reflexivity].
  - split; [rewrite smul_length; congruence|]. replace (smul a b ++ [PI]) with (smul (a ++ [PI]) (b ++ [PI])) by (rewrite smul_app by congruence; reflexivity).
    apply cl_br; [exact IHa|exact IHb|]. rewrite anti_l_app by congruence. rewrite Hab. reflexivity.
Qed.
Lemma T2_I s : length s = n -> s <> identity n -> T2 PI s.
Proof. intros Ls Ns. apply lift2. apply Hfull; assumption. Qed.
Lemma T2_step l s q : T2 l s -> length s = n -> length q = n -> anti_l q s = true -> T2 l (smul q s).
Proof.
  intros Ts Ls Lq Ha. unfold T2. replace (smul q s ++ [l]) with (smul (q ++ [PI]) (s ++ [l])) by (rewrite smul_app by congruence; cbn; destruct l; reflexivity).
  apply cl_br; [|exact Ts|].
  - apply T2_I; [exact Lq|]. rewrite <- Lq. apply (anti_not_id_l q s Ha).
  - rewrite anti_l_app by congruence. rewrite Ha. destruct l; reflexivity.
Qed.
Lemma T2_all l s0 : T2 l s0 -> length s0 = n -> s0 <> identity n -> forall t, length t = n -> t <> identity n -> T2 l t.
Proof.
  intros T0 L0 N0 t Lt Nt. destruct (both_witness n s0 t L0 Lt N0 Nt) as [v [Lv [A1 A2]]].
  assert (Tv : T2 l v).
  { replace v with (smul (smul v s0) s0) by (apply smul_self_cancel; congruence). apply T2_step; [exact T0|exact L0|rewrite smul_length; congruence|].
    rewrite anti_l_smul_l by congruence. rewrite A1, anti_l_self. reflexivity. }
  replace t with (smul (smul t v) v) by (apply smul_self_cancel; congruence). apply T2_step; [exact Tv|exact Lv|rewrite smul_length; congruence|].
  rewrite anti_l_smul_l by congruence. rewrite (anti_l_sym t v), A2, anti_l_self. reflexivity.
Qed.
Lemma T2_1 s : length s = n -> s <> identity n -> T2 l1 s.
Proof. apply (T2_all l1 w1); [apply cl_gen; right; left; reflexivity|exact Lw1|exact Nw1]. Qed.
Lemma T2_2 s : length s = n -> s <> identity n -> T2 l2 s.
Proof. apply (T2_all l2 w2); [apply cl_gen; right; right; reflexivity|exact Lw2|exact Nw2]. Qed.
(* products of two members with the same / commuting left factors *)
Lemma T2_prod la lb a b : la <> PI -> lb <> PI -> la <> lb -> T2 la a -> T2 lb b -> length a = n -> length b = n -> anti_l a b = false ->
  T2 (pm la lb) (smul a b).
Proof.
  intros Ha Hb Hab Ta Tb La Lb Hc. unfold T2. replace (smul a b ++ [pm la lb]) with (smul (a ++ [la]) (b ++ [lb])) by (rewrite smul_app by congruence; reflexivity).
  apply cl_br; [exact Ta|exact Tb|]. rewrite anti_l_app by congruence. rewrite Hc. destruct la, lb; try congruence; reflexivity.
Qed.
Lemma T2_3 s : length s = n -> s <> identity n -> T2 l3 s.
Proof.
  set (m := (n - 2)%nat). assert (En : n = S (S m)) by (unfold m; lia).
  set (a := PX :: PI :: identity m). set (b := PI :: PX :: identity m).
  assert (La : length a = n) by (unfold a; cbn [length]; rewrite identity_length; lia).
  assert (Lb : length b = n) by (unfold b; cbn [length]; rewrite identity_length; lia).
  assert (Na : a <> identity n) by (rewrite En; unfold a, identity; cbn; discriminate).
  assert (Nb : b <> identity n) by (rewrite En; unfold b, identity; cbn; discriminate).
  assert (Tab : T2 l3 (smul a b)).
  { apply T2_prod; try assumption; [apply T2_1; assumption|apply T2_2; assumption|]. unfold a, b. cbn [anti_l]. rewrite anti_identity. reflexivity. }
  apply (T2_all l3 (smul a b) Tab); [rewrite smul_length; congruence|]. rewrite En. unfold a, b, identity. cbn. discriminate.
Qed.
Lemma smul_self_n s : length s = n -> smul s s = identity n.
Proof. intros <-. apply smul_self. Qed.
Lemma T2_id3 : T2 l3 (identity n).
Proof. rewrite <- (smul_self_n w1 Lw1). apply T2_prod; try assumption; [apply T2_1; assumption|apply T2_2; assumption|apply anti_l_self]. Qed.
Lemma l3_props : l3 <> PI /\ l3 <> l1 /\ l3 <> l2 /\ pm l3 l2 = l1 /\ pm l1 l3 = l2.
Proof. unfold l3. destruct l1, l2; try congruence; cbn; repeat split; congruence. Qed.
Lemma T2_id1 : T2 l1 (identity n).
Proof.
  destruct l3_props as [P1 [P2 [P3 [P4 P5]]]]. rewrite <- P4, <- (smul_self_n w1 Lw1).
  apply T2_prod; try assumption; [apply T2_3; assumption|apply T2_2; assumption|apply anti_l_self].
Qed.
Lemma T2_id2 : T2 l2 (identity n).
Proof.
  destruct l3_props as [P1 [P2 [P3 [P4 P5]]]]. rewrite <- P5, <- (smul_self_n w1 Lw1).
  apply T2_prod; try assumption; [congruence|apply T2_1; assumption|apply T2_3; assumption|apply anti_l_self].
Qed.
Lemma letter_cases l : l = PI \/ l = l1 \/ l = l2 \/ l = l3.
Proof. unfold l3. destruct l, l1, l2; try congruence; cbn; tauto. Qed.

Theorem extend2_full p : length p = S n -> p <> identity (S n) -> ClL Gext2 p.
Proof.
  intros Lp Np. assert (Hp : p <> []) by (intros ->; cbn in Lp; lia). destruct (exists_last Hp) as [s [l ->]].
  rewrite app_length in Lp. cbn [length] in Lp. assert (Ls : length s = n) by lia.
  assert (Eid : identity (S n) = identity n ++ [PI]) by (unfold identity; rewrite <- repeat_cons; reflexivity).
  destruct (pstr_dec s (identity n)) as [->|Ns].
  - destruct (letter_cases l) as [->|[->|[->| ->]]]; [exfalso; apply Np; rewrite Eid; reflexivity|apply T2_id1|apply T2_id2|apply T2_id3].
  - destruct (letter_cases l) as [->|[->|[->| ->]]]; [apply T2_I|apply T2_1|apply T2_2|apply T2_3]; assumption.
Qed.
End Extend2.
