From PauLie Require Import Frames.
From Coq Require Import Lia.
Section F.
Variable A : Type.
Lemma walk_back_spec : forall fuel (frames : list (option A)) i g, (i <= fuel)%nat ->
  (walk_back A fuel frames i = Some g <->
   exists j, (j <= i)%nat /\ nth_error frames j = Some (Some g) /\
             forall k, (j < k <= i)%nat -> forall h, nth_error frames k <> Some (Some h)).
Proof.
  induction fuel as [|f IH]; intros frames i g Hi.
  - assert (i = 0)%nat by lia. subst i. cbn [walk_back]. split.
    + destruct (nth_error frames 0) as [[h|]|] eqn:E; try discriminate. intros [= <-]. exists 0%nat. repeat split; [lia|exact E|intros k Hk; lia].
    + intros [j [Hj [Ej _]]]. assert (j = 0)%nat by lia. subst j. rewrite Ej. reflexivity.
  - cbn [walk_back]. destruct (nth_error frames i) as [[h|]|] eqn:E.
    + split.
      * intros [= <-]. exists i. repeat split; [lia|exact E|intros k Hk; lia].
      * intros [j [Hj [Ej Hn]]]. destruct (Nat.eq_dec j i) as [->|Hne]; [congruence|]. exfalso. apply (Hn i ltac:(lia) h). exact E.
    + destruct i as [|i'].
      * split; [discriminate|]. intros [j [Hj [Ej _]]]. assert (j = 0)%nat by lia. subst. congruence.
      * rewrite (IH frames i' g ltac:(lia)). split; intros [j [Hj [Ej Hn]]]; exists j.
        -- repeat split; [lia|exact Ej|]. intros k Hk h. destruct (Nat.eq_dec k (S i')) as [->|Hne]; [congruence|apply Hn; lia].
        -- destruct (Nat.eq_dec j (S i')) as [->|Hne]; [congruence|]. repeat split; [lia|exact Ej|]. intros k Hk. apply Hn. lia.
    + destruct i as [|i'].
      * split; [discriminate|]. intros [j [Hj [Ej _]]]. assert (j = 0)%nat by lia. subst. congruence.
      * rewrite (IH frames i' g ltac:(lia)). split; intros [j [Hj [Ej Hn]]]; exists j.
        -- repeat split; [lia|exact Ej|]. intros k Hk h. destruct (Nat.eq_dec k (S i')) as [->|Hne]; [congruence|apply Hn; lia].
        -- destruct (Nat.eq_dec j (S i')) as [->|Hne]; [congruence|]. repeat split; [lia|exact Ej|]. intros k Hk. apply Hn. lia.
Qed.
Theorem get_graph_spec (frames : list (option A)) i g :
  get_graph A frames i = Some g <->
  exists j, (j <= i)%nat /\ nth_error frames j = Some (Some g) /\
            forall k, (j < k <= i)%nat -> forall h, nth_error frames k <> Some (Some h).
Proof. apply walk_back_spec. lia. Qed.
End F.
