From Coq Require Import List Bool Lia.
Import ListNotations.
(* abstract F2-vector model of Pauli strings modulo phase: any type with xor-like mul and a symplectic form *)
Section S.
Variable P : Type.
Variable mul : P -> P -> P.
Variable anti : P -> P -> bool.
Hypothesis mul_assoc : forall a b c, mul (mul a b) c = mul a (mul b c).
Hypothesis mul_comm : forall a b, mul a b = mul b a.
Hypothesis mul_self : forall a b, mul (mul a b) b = a.
Hypothesis anti_sym : forall a b, anti a b = anti b a.
Hypothesis anti_mul_r : forall a b c, anti a (mul b c) = xorb (anti a b) (anti a c).
Hypothesis anti_self : forall a, anti a a = false.
Hypothesis P_eq_dec : forall a b : P, {a = b} + {a <> b}.

Lemma anti_mul_l a b c : anti (mul a b) c = xorb (anti a c) (anti b c).
Proof. rewrite anti_sym, anti_mul_r, (anti_sym c a), (anti_sym c b); reflexivity. Qed.

Inductive Cl (G : P -> Prop) : P -> Prop :=
| cl_gen g : G g -> Cl G g
| cl_br a b : Cl G a -> Cl G b -> anti a b = true -> Cl G (mul a b).

(* orbit of v under multiplication by anticommuting members of H *)
Inductive Orb (H : P -> Prop) (v : P) : P -> Prop :=
| orb_0 : Orb H v v
| orb_s t g : Orb H v t -> H g -> anti t g = true -> Orb H v (mul t g).

Lemma orb_mono (H H' : P -> Prop) v t : (forall g, H g -> H' g) -> Orb H v t -> Orb H' v t.
Proof. intros HH; induction 1; [constructor| econstructor; eauto]. Qed.

(* key step: one multiplication by an element of Cl G is a sequence of multiplications by generators *)
Lemma orb_cl_step G v : forall h, Cl G h -> forall t, Orb G v t -> anti t h = true -> Orb G v (mul t h).
Proof.
  induction 1 as [g Hg | a b Ha IHa Hb IHb Hab]; intros t Ht Hth.
  - econstructor; eauto.
  - rewrite anti_mul_r in Hth.
    destruct (anti t a) eqn:Eta, (anti t b) eqn:Etb; simpl in Hth; try discriminate.
    + (* anti with a only: multiply by a then by b *)
      rewrite <- mul_assoc. apply IHb; [apply IHa; assumption|].
      rewrite anti_mul_l, Etb, (anti_sym a b) in *. rewrite Hab. reflexivity.
    + (* anti with b only *)
      rewrite (mul_comm a b), <- mul_assoc. apply IHa; [apply IHb; assumption|].
      rewrite anti_mul_l, Eta, (anti_sym b a), Hab. reflexivity.
Qed.

Theorem orbit_lemma G v t : Orb (Cl G) v t <-> Orb G v t.
Proof.
  split.
  - induction 1 as [|t h Ht IH Hh Hth]; [constructor|]. apply orb_cl_step; assumption.
  - apply orb_mono. intros; constructor; assumption.
Qed.

(* closure = union of generator orbits of generators *)
Theorem cl_is_orbits G p : Cl G p <-> exists g, G g /\ Orb G g p.
Proof.
  split.
  - induction 1 as [g Hg | a b Ha [ga [Hga Oa]] Hb _ Hab].
    + exists g; split; [assumption|constructor].
    + exists ga; split; [assumption|]. apply orb_cl_step; assumption.
  - intros [g [Hg O]]. induction O as [|t h Ht IH Hh Hth]; [constructor; assumption|].
    apply cl_br; [assumption|constructor; assumption|assumption].
Qed.

(* contraction lemma *)
Lemma cl_mono (G G' : P -> Prop) p : (forall g, G g -> Cl G' g) -> Cl G p -> Cl G' p.
Proof. intros HH; induction 1; [auto| apply cl_br; assumption]. Qed.

Theorem cl_contract (G : P -> Prop) a b :
  G a -> G b -> anti a b = true ->
  forall p, Cl G p <-> Cl (fun g => (G g /\ g <> a) \/ g = mul a b) p.
Proof.
  intros Ga Gb Hab p. set (G' := fun g => (G g /\ g <> a) \/ g = mul a b).
  assert (Hb' : Cl G' b).
  { constructor. left. split; [assumption|]. intros ->. rewrite anti_self in Hab. discriminate. }
  assert (Hab' : Cl G' (mul a b)) by (constructor; right; reflexivity).
  assert (Ha' : Cl G' a).
  { rewrite <- (mul_self a b). apply cl_br; [assumption|assumption|].
    rewrite anti_mul_l, Hab, anti_self. reflexivity. }
  split; apply cl_mono.
  - intros g Gg. destruct (P_eq_dec g a) as [->|Hne]; [assumption|]. constructor. left. auto.
  - intros g [[Gg _]| ->]; [constructor; assumption|]. apply cl_br; [constructor; assumption|constructor; assumption|assumption].
Qed.
End S.
