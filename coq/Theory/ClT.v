From Coq Require Import List Bool Lia.
Import ListNotations.
(* abstract F2-vector model of Pauli strings modulo phase: any type with xor-like mul and a symplectic form *)
Section S.
Variable P : Type.
Variable mul : P -> P -> P.
Variable anti : P -> P -> bool.
Hypothesis mul_assoc : forall a b c, mul (mul a b) c = mul a (mul b c).
Hypothesis mul_comm : forall a b, mul a b = mul b a.
Hypothesis mul_self : forall a b, mul (mul a b) b = a.
Hypothesis anti_sym : forall a b, anti a b = anti b a.
Hypothesis anti_mul_r : forall a b c, anti a (mul b c) = xorb (anti a b) (anti a c).
Hypothesis anti_self : forall a, anti a a = false.
Hypothesis P_eq_dec : forall a b : P, {a = b} + {a <> b}.

Lemma anti_mul_l a b c : anti (mul a b) c = xorb (anti a c) (anti b c).
Proof. rewrite anti_sym, anti_mul_r, (anti_sym c a), (anti_sym c b); reflexivity. Qed.

Inductive Cl (G : P -> Prop) : P -> Prop :=
| cl_gen g : G g -> Cl G g
| cl_br a b : Cl G a -> Cl G b -> anti a b = true -> Cl G (mul a b).

(* orbit of v under multiplication by anticommuting members of H *)
Inductive Orb (H : P -> Prop) (v : P) : P -> Prop :=
| orb_0 : Orb H v v
| orb_s t g : Orb H v t -> H g -> anti t g = true -> Orb H v (mul t g).

Lemma orb_mono (H H' : P -> Prop) v t : (forall g, H g -> H' g) -> Orb H v t -> Orb H' v t.
Proof. intros HH; induction 1; [constructor| econstructor; eauto]. Qed.

(* key step: one multiplication by an element of Cl G is a sequence of multiplications by generators *)
Lemma orb_cl_step G v : forall h, Cl G h -> forall t, Orb G v t -> anti t h = true -> Orb G v (mul t h).
Proof.
  induction 1 as [g Hg | a b Ha IHa Hb IHb Hab]; intros t Ht Hth.
  - econstructor; eauto.
  - rewrite anti_mul_r in Hth.
    destruct (anti t a) eqn:Eta, (anti t b) eqn:Etb; simpl in Hth; try discriminate.
    + (* anti with a only: multiply by a then by b *)
      rewrite <- mul_assoc. apply IHb; [apply IHa; assumption|].
      rewrite anti_mul_l, Etb, (anti_sym a b) in *. rewrite Hab. reflexivity.
    + (* anti with b only *)
      rewrite (mul_comm a b), <- mul_assoc. apply IHa; [apply IHb; assumption|].
      rewrite anti_mul_l, Eta, (anti_sym b a), Hab. reflexivity.
Qed.

Theorem orbit_lemma G v t : Orb (Cl G) v t <-> Orb G v t.
Proof.
  split.
  - induction 1 as [|t h Ht IH Hh Hth]; [constructor|]. apply orb_cl_step; assumption.
  - apply orb_mono. intros; constructor; assumption.
Qed.

(* closure = union of generator orbits of generators *)
Theorem cl_is_orbits G p : Cl G p <-> exists g, G g /\ Orb G g p.
Proof.
  split.
  - induction 1 as [g Hg | a b Ha [ga [Hga Oa]] Hb _ Hab].
    + exists g; split; [assumption|constructor].
    + exists ga; split; [assumption|]. apply orb_cl_step; assumption.
  - intros [g [Hg O]]. induction O as [|t h Ht IH Hh Hth]; [constructor; assumption|].
    apply cl_br; [assumption|constructor; assumption|assumption].
Qed.

(* contraction lemma *)
Lemma cl_mono (G G' : P -> Prop) p : (forall g, G g -> Cl G' g) -> Cl G p -> Cl G' p.
Proof. intros HH; induction 1; [auto| apply cl_br; assumption]. Qed.

Theorem cl_contract (G : P -> Prop) a b :
  G a -> G b -> anti a b = true ->
  forall p, Cl G p <-> Cl (fun g => (G g /\ g <> a) \/ g = mul a b) p.
Proof.
  intros Ga Gb Hab p. set (G' := fun g => (G g /\ g <> a) \/ g = mul a b).
  assert (Hb' : Cl G' b).
  { constructor. left. split; [assumption|]. intros ->. rewrite anti_self in Hab. discriminate. }
  assert (Hab' : Cl G' (mul a b)) by (constructor; right; reflexivity).
  assert (Ha' : Cl G' a).
  { rewrite <- (mul_self a b). apply cl_br; [assumption|assumption|].
    rewrite anti_mul_l, Hab, anti_self. reflexivity. }
  split; apply cl_mono.
  - intros g Gg. destruct (P_eq_dec g a) as [->|Hne]; [assumption|]. constructor. left. auto.
  - intros g [[Gg _]| ->]; [constructor; assumption|]. apply cl_br; [constructor; assumption|constructor; assumption|assumption].
Qed.

(* adding the product of two anticommuting members changes nothing *)
Theorem cl_add_product (G : P -> Prop) a b :
  G a -> G b -> anti a b = true ->
  forall p, Cl G p <-> Cl (fun g => G g \/ g = mul a b) p.
Proof.
  intros Ga Gb Hab p. split; apply cl_mono.
  - intros g Gg. constructor. left. exact Gg.
  - intros g [Gg| ->]; [constructor; exact Gg|]. apply cl_br; [constructor; exact Ga|constructor; exact Gb|exact Hab].
Qed.

(* the closure depends on the generator set only *)
Theorem cl_ext (G H : P -> Prop) : (forall g, G g <-> H g) -> forall p, Cl G p <-> Cl H p.
Proof. intros E p. split; apply cl_mono; intros g Hg; constructor; apply E; exact Hg. Qed.

(* idempotence *)
Theorem cl_idem (G : P -> Prop) p : Cl (Cl G) p <-> Cl G p.
Proof. split; [apply cl_mono; auto|intros H; constructor; exact H]. Qed.

(* transport: the step the reduction uses when it multiplies a vertex by the product of two legs *)
Theorem cl_transport (G : P -> Prop) z u w :
  Cl G (mul z u) -> Cl G u -> Cl G w -> anti u w = true -> anti z u = false -> anti z w = false ->
  Cl G (mul z w).
Proof.
  intros Hzu Hu Hw Huw Hzu0 Hzw0.
  assert (E : mul z w = mul (mul z u) (mul u w)).
  { rewrite mul_assoc. f_equal. rewrite (mul_comm u (mul u w)), (mul_comm u w). symmetry. apply mul_self. }
  rewrite E. apply cl_br; [exact Hzu|apply cl_br; assumption|].
  rewrite anti_mul_l, !anti_mul_r, Hzu0, Hzw0, anti_self, Huw. reflexivity.
Qed.

(* F2-span *)
Inductive Span (G : P -> Prop) : P -> Prop :=
| sp_gen g : G g -> Span G g
| sp_mul a b : Span G a -> Span G b -> Span G (mul a b).
Theorem cl_subset_span G p : Cl G p -> Span G p.
Proof. induction 1; [constructor; assumption|apply sp_mul; assumption]. Qed.

(* quadratic-form obstruction: a function q with q(ab) = q a + q b + <a,b> that is 1 on the generators is 1 on the closure *)
Theorem cl_quadratic (G : P -> Prop) (q : P -> bool) :
  (forall a b, q (mul a b) = xorb (xorb (q a) (q b)) (anti a b)) ->
  (forall g, G g -> q g = true) -> forall p, Cl G p -> q p = true.
Proof.
  intros Hq HG p. induction 1 as [g Hg|a b _ IHa _ IHb Hab]; [auto|]. rewrite Hq, IHa, IHb, Hab. reflexivity.
Qed.

(* every member of the closure is a left-normed product g0 g1 ... gk of generators, each new factor
   anticommuting with the product so far (i.e. a non-vanishing nested commutator) *)
Fixpoint chain (t : P) (l : list P) : option P :=
  match l with
  | [] => Some t
  | g :: l' => if anti t g then chain (mul t g) l' else None
  end.
Theorem cl_is_chain (G : P -> Prop) p : Cl G p <-> exists g l, G g /\ Forall G l /\ chain g l = Some p.
Proof.
  rewrite cl_is_orbits. split.
  - intros [g [Hg O]]. exists g.
    revert Hg. induction O as [|t h Ht IH Hh Hth]; intros Hg.
    + exists []. repeat split; auto.
    + destruct (IH Hg) as [l [_ [Hl Hc]]]. exists (l ++ [h]). repeat split; auto.
      * apply Forall_app. split; [exact Hl|constructor; auto].
      * clear -Hc Hth. revert g Hc. induction l as [|x l IHl]; intros g Hc; cbn [chain app] in *.
        -- injection Hc as <-. rewrite Hth. reflexivity.
        -- destruct (anti g x); [|discriminate]. apply IHl. exact Hc.
  - intros [g [l [Hg [Hl Hc]]]]. exists g. split; [exact Hg|].
    assert (Gen : forall t, Orb G g t -> chain t l = Some p -> Orb G g p).
    { clear Hc. induction l as [|x l IHl]; intros t Ot Hc; cbn [chain] in Hc.
      - injection Hc as <-. exact Ot.
      - destruct (anti t x) eqn:E; [|discriminate]. inversion Hl; subst.
        apply (IHl H2 (mul t x)); [econstructor; eauto|exact Hc]. }
    apply (Gen g); [constructor|exact Hc].
Qed.
End S.

(* transport along a map preserving product and symplectic form *)
Section Hom.
Variables (P Q : Type) (mulP : P -> P -> P) (antiP : P -> P -> bool) (mulQ : Q -> Q -> Q) (antiQ : Q -> Q -> bool).
Variable f : P -> Q.
Hypothesis f_mul : forall a b, f (mulP a b) = mulQ (f a) (f b).
Hypothesis f_anti : forall a b, antiQ (f a) (f b) = antiP a b.
Theorem cl_hom_fwd (G : P -> Prop) p : Cl P mulP antiP G p -> Cl Q mulQ antiQ (fun q => exists g, G g /\ q = f g) (f p).
Proof.
  induction 1 as [g Hg|a b _ IHa _ IHb Hab]; [constructor; eauto|].
  rewrite f_mul. apply cl_br; [exact IHa|exact IHb|]. rewrite f_anti. exact Hab.
Qed.
Theorem cl_hom_bwd (G : P -> Prop) q : Cl Q mulQ antiQ (fun q => exists g, G g /\ q = f g) q ->
  exists p, q = f p /\ Cl P mulP antiP G p.
Proof.
  induction 1 as [q [g [Hg ->]]|a b _ [pa [-> Ha]] _ [pb [-> Hb]] Hab].
  - exists g. split; [reflexivity|constructor; exact Hg].
  - exists (mulP pa pb). split; [symmetry; apply f_mul|]. apply cl_br; [exact Ha|exact Hb|]. rewrite <- f_anti. exact Hab.
Qed.
Hypothesis f_inj : forall a b, f a = f b -> a = b.
Theorem cl_hom (G : P -> Prop) p : Cl P mulP antiP G p <-> Cl Q mulQ antiQ (fun q => exists g, G g /\ q = f g) (f p).
Proof.
  split; [apply cl_hom_fwd|]. intros H. destruct (cl_hom_bwd G (f p) H) as [p' [E Hp']]. apply f_inj in E. subst. exact Hp'.
Qed.
End Hom.


(* the same with a domain: the map only needs to be a homomorphism on a set closed under the product *)
Section HomD.
Variables (P Q : Type) (mulP : P -> P -> P) (antiP : P -> P -> bool) (mulQ : Q -> Q -> Q) (antiQ : Q -> Q -> bool).
Variable f : P -> Q.
Variable D : P -> Prop.
Hypothesis D_mul : forall a b, D a -> D b -> D (mulP a b).
Hypothesis f_mul : forall a b, D a -> D b -> f (mulP a b) = mulQ (f a) (f b).
Hypothesis f_anti : forall a b, D a -> D b -> antiQ (f a) (f b) = antiP a b.
Hypothesis f_inj : forall a b, D a -> D b -> f a = f b -> a = b.
Variable G : P -> Prop.
Hypothesis G_D : forall g, G g -> D g.
Lemma clD p : Cl P mulP antiP G p -> D p.
Proof. induction 1; auto. Qed.
Theorem cl_homD_fwd p : Cl P mulP antiP G p -> Cl Q mulQ antiQ (fun q => exists g, G g /\ q = f g) (f p).
Proof.
  induction 1 as [g Hg|a b Ha IHa Hb IHb Hab]; [constructor; eauto|].
  rewrite f_mul by (eapply clD; eauto). apply cl_br; [exact IHa|exact IHb|]. rewrite f_anti by (eapply clD; eauto). exact Hab.
Qed.
Theorem cl_homD_bwd q : Cl Q mulQ antiQ (fun q => exists g, G g /\ q = f g) q ->
  exists p, q = f p /\ Cl P mulP antiP G p.
Proof.
  induction 1 as [q [g [Hg ->]]|a b _ [pa [-> Ha]] _ [pb [-> Hb]] Hab].
  - exists g. split; [reflexivity|constructor; exact Hg].
  - exists (mulP pa pb). split; [symmetry; apply f_mul; eapply clD; eauto|].
    apply cl_br; [exact Ha|exact Hb|]. rewrite <- f_anti by (eapply clD; eauto). exact Hab.
Qed.
Theorem cl_homD p : D p -> (Cl P mulP antiP G p <-> Cl Q mulQ antiQ (fun q => exists g, G g /\ q = f g) (f p)).
Proof.
  intros Dp. split; [apply cl_homD_fwd|]. intros H. destruct (cl_homD_bwd (f p) H) as [p' [E Hp']].
  apply f_inj in E; [subst; exact Hp'|exact Dp|eapply clD; eauto].
Qed.
End HomD.

(* quadratic-form obstruction with a domain *)
Section QuadD.
Variables (P : Type) (mul : P -> P -> P) (anti : P -> P -> bool) (D : P -> Prop) (q : P -> bool) (G : P -> Prop).
Hypothesis D_mul : forall a b, D a -> D b -> D (mul a b).
Hypothesis G_D : forall g, G g -> D g.
Hypothesis q_mul : forall a b, D a -> D b -> q (mul a b) = xorb (xorb (q a) (q b)) (anti a b).
Hypothesis q_gen : forall g, G g -> q g = true.
Theorem cl_quadratic_D p : Cl P mul anti G p -> D p /\ q p = true.
Proof.
  induction 1 as [g Hg|a b _ [Da IHa] _ [Db IHb] Hab]; [split; auto|]. split; [auto|].
  rewrite q_mul, IHa, IHb, Hab by assumption. reflexivity.
Qed.
End QuadD.
