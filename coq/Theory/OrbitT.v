(* Theory/OrbitT.v — the BFS of average_otoc computes the orbit; symmetry, range and fixed points of the OTOC;
   independence of the generating set (C15). *)
From PauLie Require Import Pauli Sym SymT ClT ClSym Orbit OtocGen.
From Coq Require Import Lia Permutation.

Notation OrbL G := (OrbS (fun g => In g G)).
Lemma memO_In a l : memO a l = true <-> In a l.
Proof. unfold memO. rewrite existsb_exists. split; [intros [x [Hx E]]; apply P_eqb_eq in E; subst; exact Hx|intros H; exists a; split; [exact H|apply P_eqb_eq; reflexivity]]. Qed.
Lemma memO_false a l : memO a l = false <-> ~ In a l.
Proof. rewrite <- memO_In. destruct (memO a l); split; congruence. Qed.
Lemma nbrs_In G t x : In x (nbrs G t) <-> exists g, In g G /\ anti t g = true /\ x = mul t g.
Proof.
  unfold nbrs. rewrite in_map_iff. split.
  - intros [g [<- Hg]]. apply filter_In in Hg. exists g. tauto.
  - intros [g [Hg [Ha ->]]]. exists g. split; [reflexivity|]. apply filter_In. tauto.
Qed.

Section B.
Variable G : list P.
Variable v : P.
Definition BInv (queue visited : list P) : Prop :=
  (forall x, In x visited \/ In x queue -> OrbL G v x) /\
  (In v visited \/ In v queue) /\
  (forall t x, In t visited -> In x (nbrs G t) -> In x visited \/ In x queue) /\
  NoDup visited.
Lemma bfs_inv : forall fuel queue visited vis, BInv queue visited -> bfs G fuel queue visited = Some vis ->
  (forall t, In t vis <-> OrbL G v t) /\ NoDup vis.
Proof.
  induction fuel as [|f IH]; intros queue visited vis [Ia [Ib [Ic Id]]] H; [discriminate|]. cbn [bfs] in H.
  destruct queue as [|t q].
  - injection H as <-. split; [|exact Id]. intros t. split; [intros Ht; apply Ia; left; exact Ht|].
    induction 1 as [|t g Ht IHt Hg Ha].
    + destruct Ib as [Ib|[]]. exact Ib.
    + destruct (Ic t (mul t g) IHt) as [Hx|[]]; [|exact Hx]. apply nbrs_In. exists g. tauto.
  - destruct (memO t visited) eqn:E.
    + apply memO_In in E. apply (IH q visited vis); [|exact H]. repeat split.
      * intros x [Hx|Hx]; apply Ia; [left; exact Hx|right; right; exact Hx].
      * destruct Ib as [Ib|[<-|Ib]]; [left; exact Ib|left; exact E|right; exact Ib].
      * intros t' x Ht' Hx. destruct (Ic t' x Ht' Hx) as [Hin|[<-|Hin]]; [left; exact Hin|left; exact E|right; exact Hin].
      * exact Id.
    + apply memO_false in E. apply (IH (q ++ filter (fun c => negb (memO c (t :: visited))) (nbrs G t)) (t :: visited) vis); [|exact H]. repeat split.
      * intros x [[<-|Hx]|Hx]; [apply Ia; right; left; reflexivity|apply Ia; left; exact Hx|].
        apply in_app_or in Hx. destruct Hx as [Hx|Hx]; [apply Ia; right; right; exact Hx|].
        apply filter_In in Hx. destruct Hx as [Hx _]. apply nbrs_In in Hx. destruct Hx as [g [Hg [Ha ->]]].
        econstructor; [apply Ia; right; left; reflexivity|exact Hg|exact Ha].
      * destruct Ib as [Ib|[<-|Ib]]; [left; right; exact Ib|left; left; reflexivity|right; apply in_or_app; left; exact Ib].
      * intros t' x [<-|Ht'] Hx.
        -- destruct (memO x (t :: visited)) eqn:Ex; [apply memO_In in Ex; left; exact Ex|].
           right. apply in_or_app. right. apply filter_In. split; [exact Hx|rewrite Ex; reflexivity].
        -- destruct (Ic t' x Ht' Hx) as [Hin|[<-|Hin]]; [left; right; exact Hin|left; left; reflexivity|right; apply in_or_app; left; exact Hin].
      * constructor; assumption.
Qed.
(* the visited set of the BFS is exactly the orbit of v, each element once *)
Theorem bfs_orbit fuel vis : bfs G fuel [v] [] = Some vis -> (forall t, In t vis <-> OrbL G v t) /\ NoDup vis.
Proof.
  apply bfs_inv. repeat split.
  - intros x [[]|[<-|[]]]. constructor.
  - right. left. reflexivity.
  - intros t x [].
  - constructor.
Qed.
End B.

(* orbits depend on the generated algebra only *)
Theorem orbit_depends_on_closure (G H : list P) v t :
  (forall p, ClS (fun g => In g G) p <-> ClS (fun g => In g H) p) -> (OrbL G v t <-> OrbL H v t).
Proof.
  intros E. rewrite <- (s_orbit_lemma (fun g => In g G)), <- (s_orbit_lemma (fun g => In g H)).
  split; apply orb_mono; intros g Hg; apply E; exact Hg.
Qed.

(* counts *)
Definition cntA (p : P) (l : list P) : nat := length (filter (fun q => anti p q) l).
Lemma orbit_closed G v vis : (forall t, In t vis <-> OrbL G v t) -> closed P mul anti G vis.
Proof.
  intros HV g t Hg Ht. unfold tau. destruct (anti t g) eqn:E; [|exact Ht]. apply HV. econstructor; [apply HV; exact Ht|exact Hg|exact E].
Qed.
(* symmetry: |orb V| * #{Q in orb W : Q anticommutes with V} = |orb W| * #{P in orb V : P anticommutes with W} *)
Theorem otoc_symmetric_counts G v w OV OW fv fw :
  bfs G fv [v] [] = Some OV -> bfs G fw [w] [] = Some OW ->
  (length OV * cntA v OW = length OW * cntA w OV)%nat.
Proof.
  intros HV HW. destruct (bfs_orbit G v fv OV HV) as [EV NV]. destruct (bfs_orbit G w fw OW HW) as [EW NW].
  apply (otoc_symmetric P mul anti mul_self anti_sym anti_mul_r anti_self G OV OW v w NV NW
           (orbit_closed G v OV EV) (orbit_closed G w OW EW)).
  - intros t. rewrite EV. unfold OrbS. split; induction 1; econstructor; eauto.
  - intros t. rewrite EW. unfold OrbS. split; induction 1; econstructor; eauto.
Qed.
(* V fixed by G: the orbit is {V} *)
Theorem orbit_fixed G v vis fuel : (forall g, In g G -> anti v g = false) -> bfs G fuel [v] [] = Some vis -> vis = [v].
Proof.
  intros HF H.
  assert (EN : filter (anti v) G = []).
  { clear H. induction G as [|g G' IH]; [reflexivity|]. cbn. rewrite (HF g (or_introl eq_refl)). apply IH. intros h Hh. apply HF. right. exact Hh. }
  destruct fuel as [|[|f]]; [discriminate H| |].
  - cbn [bfs memO existsb] in H. discriminate H.
  - cbn [bfs memO existsb] in H. unfold nbrs in H. rewrite EN in H. cbn in H. injection H as <-. reflexivity.
Qed.
Theorem otoc_range (a s : nat) vis w : a = cntA w vis -> s = length vis -> (a <= s)%nat.
Proof. intros -> ->. unfold cntA. generalize (fun q => anti w q). intros f. induction vis as [|x t IH]; [constructor|]. cbn. destruct (f x); cbn; lia. Qed.
