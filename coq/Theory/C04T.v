From PauLie Require Import Pauli Matrix MatrixT.
From Coq Require Import Lia.
Lemma c04_product n p q : length p = n -> length q = n ->
  exists s R, sign_code p q = Ok s /\ multiply_code p q = Ok R /\ length R = n /\
              meq n (mmul n (M p) (M q)) (mscale s (M R)).
Proof.
  intros Hp Hq. exists (phase p q), (smul p q).
  rewrite sign_code_ok, multiply_code_ok by congruence. repeat split.
  - rewrite smul_length; congruence.
  - intros r c Hr Hc. unfold mscale. apply M_mul; assumption.
Qed.
Lemma c04_commute n p q : length p = n -> length q = n ->
  exists b, commutes_code p q = Ok b /\ (b = true <-> meq n (mmul n (M p) (M q)) (mmul n (M q) (M p))).
Proof.
  intros Hp Hq. exists (negb (anti_l p q)). rewrite commutes_code_ok by congruence. split; [reflexivity|].
  rewrite <- (commute_iff n p q Hp Hq). destruct (anti_l p q); simpl; split; congruence.
Qed.
Lemma c04_adjoint p q : length p = length q ->
  exists b R, commutes_code p q = Ok b /\ multiply_code p q = Ok R /\
              adjoint_code p q = Ok (if b then None else Some R).
Proof.
  intros H. exists (negb (anti_l p q)), (smul p q).
  rewrite commutes_code_ok, multiply_code_ok, adjoint_code_ok by assumption.
  destruct (anti_l p q); auto.
Qed.
Lemma c04_conj p : (conj_code p = 1 \/ conj_code p = -1) /\ forall r c, gconj (M p r c) = gmul (conj_code p, 0) (M p r c).
Proof. split; [unfold conj_code; destruct (Z.even _); auto| intros; apply conj_code_ok]. Qed.
Lemma c04_sign_values p q s : sign_code p q = Ok s -> s = (1,0) \/ s = (0,-1) \/ s = (-1,0) \/ s = (0,1).
Proof.
  unfold sign_code. destruct (Nat.eqb _ _); [|discriminate]. intros [= <-]. unfold mi_pow.
  destruct (sign_exp p q mod 4) as [|[[]|[]|]|]; auto.
Qed.
