(* Theory/ValidatorT.v — what a `true` from the validator means (C02, C11). *)
From PauLie Require Import Pauli Sym SymT ClT ClosureGen ClosureN ClosureT LieInv Validator.
From Coq Require Import Lia.
Open Scope N_scope.

Notation ClL G := (Cl P mul anti (fun g => In g G)).

Lemma closure_eq_sound n A B :
  (forall a, In a A -> DN n a) -> (forall b, In b B -> DN n b) ->
  closure_eq n A B = true -> forall p, ClL A p <-> ClL B p.
Proof.
  intros HA HB H p. unfold closure_eq in H.
  destruct (closureN n A) as [s|] eqn:EA; [|discriminate].
  destruct (closureN n B) as [t|] eqn:EB; [|discriminate].
  apply PS.equal_2 in H.
  split; intros Hp.
  - assert (Dp : DN n p) by (apply (cl_DN n A HA p Hp)).
    apply (closureN_spec n B HB t EB p Dp). apply H. apply (closureN_spec n A HA s EA p Dp). exact Hp.
  - assert (Dp : DN n p) by (apply (cl_DN n B HB p Hp)).
    apply (closureN_spec n A HA s EA p Dp). apply H. apply (closureN_spec n B HB t EB p Dp). exact Hp.
Qed.

Lemma all_in_closure_sound n G X :
  (forall a, In a G -> DN n a) -> (forall x, In x X -> DN n x) ->
  all_in_closure n G X = true -> forall x, In x X -> ClL G x.
Proof.
  intros HG HX H x Hx. unfold all_in_closure in H.
  destruct (closureN n G) as [s|] eqn:EG; [|discriminate].
  rewrite forallb_forall in H. specialize (H x Hx). apply PS.mem_2 in H.
  apply (closureN_spec n G HG s EG x (HX x Hx)). exact H.
Qed.

Lemma memP_In a l : memP a l = true <-> In a l.
Proof.
  unfold memP. rewrite existsb_exists. split.
  - intros [x [Hx E]]. apply P_eqb_eq in E. subst. exact Hx.
  - intros H. exists a. split; [exact H|]. apply P_eqb_eq. reflexivity.
Qed.
Lemma nodupP_NoDup l : nodupP l = true -> NoDup l.
Proof.
  induction l as [|a l IH]; intros H; [constructor|]. cbn [nodupP] in H. apply andb_true_iff in H. destruct H as [H1 H2].
  constructor; [|apply IH; exact H2]. intros Hin. apply memP_In in Hin. rewrite Hin in H1. discriminate.
Qed.

(* star shape: the anticommuting pairs of distinct vertices are exactly centre--first-of-leg and consecutive-in-leg *)
Definition star_spec (legs : list (list P)) : Prop :=
  exists c rest, legs = [c] :: rest /\
    NoDup (concat legs) /\
    (forall l, In l rest -> l <> []) /\
    (count (fun l => Nat.ltb 2 (length l)) rest <= 1)%nat /\
    forall u v, In u (coords_legs 0 legs) -> In v (coords_legs 0 legs) -> snd u <> snd v ->
      (anti (snd u) (snd v) = true <-> adjacent (fst u) (fst v) = true).

Lemma coords_leg_snd i j leg : map snd (coords_leg i j leg) = leg.
Proof. revert j; induction leg as [|v t IH]; intros j; [reflexivity|]. cbn [coords_leg map snd]. rewrite IH. reflexivity. Qed.
Lemma coords_legs_snd i legs : map snd (coords_legs i legs) = concat legs.
Proof. revert i; induction legs as [|l t IH]; intros i; [reflexivity|]. cbn [coords_legs concat]. rewrite map_app, coords_leg_snd, IH. reflexivity. Qed.

Definition star_body (legs rest : list (list P)) : bool :=
  let cs := coords_legs 0 legs in
  nodupP (map snd cs) &&
  forallb (fun l => match l with [] => false | _ => true end) rest &&
  Nat.leb (count (fun l => Nat.ltb 2 (length l)) rest) 1 &&
  forallb (fun u => forallb (fun v =>
     P_eqb (snd u) (snd v) || Bool.eqb (anti (snd u) (snd v)) (adjacent (fst u) (fst v))) cs) cs.
Lemma star_ok_unfold c rest : star_ok ([c] :: rest) = star_body ([c] :: rest) rest.
Proof. reflexivity. Qed.
Theorem star_ok_sound legs : star_ok legs = true -> star_spec legs.
Proof.
  intros H. destruct legs as [|l0 rest]; [discriminate H|]. destruct l0 as [|c [|? ?]]; try discriminate H.
  rewrite star_ok_unfold in H. unfold star_body in H. cbv zeta in H.
  set (legs := [c] :: rest) in *.
  apply andb_true_iff in H. destruct H as [H H4]. apply andb_true_iff in H. destruct H as [H H3].
  apply andb_true_iff in H. destruct H as [H1 H2].
  exists c, rest. split; [reflexivity|]. split; [|split; [|split]].
  - rewrite <- (coords_legs_snd 0). apply nodupP_NoDup. exact H1.
  - intros l Hl. rewrite forallb_forall in H2. specialize (H2 l Hl). destruct l; [discriminate|congruence].
  - apply Nat.leb_le. exact H3.
  - intros u v Hu Hv Hne. rewrite forallb_forall in H4. specialize (H4 u Hu). rewrite forallb_forall in H4. specialize (H4 v Hv).
    apply orb_true_iff in H4. destruct H4 as [E|E].
    + apply P_eqb_eq in E. contradiction.
    + apply eqb_prop in E. rewrite E. reflexivity.
Qed.

Definition all_DN n (l : list P) := forall a, In a l -> DN n a.

Theorem reduction_ok_sound n G morphs :
  all_DN n G -> all_DN n (flat_map (fun m => concat (fst m)) morphs) -> all_DN n (flat_map snd morphs) ->
  reduction_ok n G morphs = true ->
  let verts := flat_map (fun m => concat (fst m)) morphs in
  let deps := flat_map snd morphs in
  (forall p, ClL G p <-> ClL verts p) /\
  (forall d, In d deps -> ClL verts d) /\
  (length verts + length (dedup deps) <= length (dedup G) <= length verts + length deps)%nat /\
  NoDup verts /\
  length morphs = length (gen_components G) /\
  (forall m, In m morphs -> star_spec (fst m)).
Proof.
  intros HG HV HD H. unfold reduction_ok, reduction_check in H. cbn [v_shape v_acct v_deps v_closure v_comps] in H.
  repeat (apply andb_true_iff in H; destruct H as [H ?]).
  cbn zeta. repeat split.
  - apply (closure_eq_sound n G _ HG HV). assumption.
  - apply (closure_eq_sound n G _ HG HV). assumption.
  - apply (all_in_closure_sound n _ _ HV HD). assumption.
  - apply andb_true_iff in H3. destruct H3 as [H3 _]. apply andb_true_iff in H3. destruct H3 as [H3 _]. apply Nat.leb_le. exact H3.
  - apply andb_true_iff in H3. destruct H3 as [H3 _]. apply andb_true_iff in H3. destruct H3 as [_ H3]. apply Nat.leb_le. exact H3.
  - apply andb_true_iff in H3. destruct H3 as [_ H3]. apply nodupP_NoDup. exact H3.
  - apply andb_true_iff in H0. destruct H0 as [H0 _]. apply Nat.eqb_eq. exact H0.
  - intros m Hm. rewrite forallb_forall in H. apply star_ok_sound. apply H. exact Hm.
Qed.

(* two valid reductions of the same input generate the same closure (C11: recorded vs plain) *)
Theorem two_reductions_same_closure n G m1 m2 :
  all_DN n G ->
  all_DN n (flat_map (fun m => concat (fst m)) m1) -> all_DN n (flat_map snd m1) ->
  all_DN n (flat_map (fun m => concat (fst m)) m2) -> all_DN n (flat_map snd m2) ->
  reduction_ok n G m1 = true -> reduction_ok n G m2 = true ->
  forall p, ClL (flat_map (fun m => concat (fst m)) m1) p <-> ClL (flat_map (fun m => concat (fst m)) m2) p.
Proof.
  intros HG H1 H1' H2 H2' R1 R2 p.
  destruct (reduction_ok_sound n G m1 HG H1 H1' R1) as [E1 _].
  destruct (reduction_ok_sound n G m2 HG H2 H2' R2) as [E2 _].
  rewrite <- (E1 p). apply E2.
Qed.
