From Coq Require Import List Bool Lia Arith Permutation.
Import ListNotations.
Section S.
Variable P : Type.
Variable mul : P -> P -> P.
Variable anti : P -> P -> bool.
Hypothesis mul_self : forall a b, mul (mul a b) b = a.
Hypothesis anti_sym : forall a b, anti a b = anti b a.
Hypothesis anti_mul_r : forall a b c, anti a (mul b c) = xorb (anti a b) (anti a c).
Hypothesis anti_self : forall a, anti a a = false.
Hypothesis P_eq_dec : forall a b : P, {a = b} + {a <> b}.

Lemma anti_mul_l a b c : anti (mul a b) c = xorb (anti a c) (anti b c).
Proof. rewrite anti_sym, anti_mul_r, (anti_sym c a), (anti_sym c b); reflexivity. Qed.

Definition tau (g t : P) : P := if anti t g then mul t g else t.
Lemma tau_invol g t : tau g (tau g t) = t.
Proof. unfold tau. destruct (anti t g) eqn:E.
  - rewrite anti_mul_l, E, anti_self. simpl. apply mul_self.
  - rewrite E. reflexivity. Qed.
Lemma tau_anti g p q : anti (tau g p) q = anti p (tau g q).
Proof. unfold tau. destruct (anti p g) eqn:Ep, (anti q g) eqn:Eq;
  rewrite ?anti_mul_l, ?anti_mul_r, ?Ep, ?(anti_sym g q), ?Eq; simpl;
  try reflexivity; destruct (anti p q); reflexivity. Qed.

Definition cnt (p : P) (l : list P) : nat := length (filter (fun q => anti p q) l).

Lemma cnt_perm p l l' : Permutation l l' -> cnt p l = cnt p l'.
Proof. intros H. unfold cnt. induction H; simpl; try destruct (anti p x); try destruct (anti p y); simpl; lia. Qed.
Lemma cnt_map p g l : cnt p (map (tau g) l) = cnt (tau g p) l.
Proof. unfold cnt. induction l as [|q l IH]; simpl; [reflexivity|].
  rewrite (tau_anti g p q). destruct (anti p (tau g q)); simpl; rewrite IH; reflexivity. Qed.

(* an orbit list: NoDup, closed under tau_g for g in G *)
Variable G : list P.
Definition closed (l : list P) := forall g t, In g G -> In t l -> In (tau g t) l.

Lemma tau_perm l g : NoDup l -> closed l -> In g G -> Permutation (map (tau g) l) l.
Proof.
  intros Hnd Hcl Hg. apply NoDup_Permutation_bis.
  - apply FinFun.Injective_map_NoDup; [|assumption]. intros x y H.
    rewrite <- (tau_invol g x), H. apply tau_invol.
  - rewrite map_length. lia.
  - intros x Hx. apply in_map_iff in Hx. destruct Hx as [t [<- Ht]]. apply Hcl; assumption.
Qed.

Lemma cnt_tau l g p : NoDup l -> closed l -> In g G -> cnt (tau g p) l = cnt p l.
Proof. intros. rewrite <- cnt_map. apply cnt_perm, tau_perm; assumption. Qed.

Inductive Orb (v : P) : P -> Prop :=
| orb_0 : Orb v v
| orb_s t g : Orb v t -> In g G -> anti t g = true -> Orb v (mul t g).

Lemma cnt_const l v t : NoDup l -> closed l -> Orb v t -> cnt t l = cnt v l.
Proof.
  intros Hnd Hcl. induction 1 as [|t g Ht IH Hg Ha]; [reflexivity|].
  rewrite <- IH. replace (mul t g) with (tau g t) by (unfold tau; rewrite Ha; reflexivity).
  apply cnt_tau; assumption.
Qed.

(* double counting *)
Fixpoint total (l1 l2 : list P) : nat := match l1 with [] => 0 | p :: r => cnt p l2 + total r l2 end.
Lemma total_nil l : total l [] = 0. Proof. induction l; simpl; auto. Qed.
Lemma total_cons_r l q r : total l (q :: r) = cnt q l + total l r.
Proof. induction l as [|p l IH]; simpl; [reflexivity|]. unfold cnt in *. simpl.
  rewrite (anti_sym q p). destruct (anti p q); simpl; rewrite IH; lia. Qed.
Lemma total_swap l1 l2 : total l1 l2 = total l2 l1.
Proof. induction l1 as [|p l IH]; simpl; [symmetry; apply total_nil|]. rewrite total_cons_r, IH. reflexivity. Qed.
Lemma total_const l1 l2 c : (forall p, In p l1 -> cnt p l2 = c) -> total l1 l2 = length l1 * c.
Proof. induction l1 as [|p l IH]; intros H; simpl; [reflexivity|]. rewrite H by (left; reflexivity). rewrite IH by (intros; apply H; right; assumption). lia. Qed.

Theorem otoc_symmetric (OV OW : list P) v w :
  NoDup OV -> NoDup OW -> closed OV -> closed OW ->
  (forall t, In t OV <-> Orb v t) -> (forall t, In t OW <-> Orb w t) ->
  length OV * cnt v OW = length OW * cnt w OV.
Proof.
  intros NV NW CV CW HV HW.
  rewrite <- (total_const OV OW (cnt v OW)), <- (total_const OW OV (cnt w OV)).
  - apply total_swap.
  - intros p Hp. apply cnt_const; [assumption|assumption|apply HW; assumption].
  - intros p Hp. apply cnt_const; [assumption|assumption|apply HV; assumption].
Qed.
End S.
