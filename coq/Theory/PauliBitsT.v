(* Theory/PauliBitsT.v — the three views stay consistent under every edit history (C18). *)
From PauLie Require Import Pauli PauliBits MatrixT.
From Coq Require Import Lia ZifyBool.

Definition InvO (o : obj) : Prop :=
  (exists n, length (obits o) = (2 * n)%nat) /\ oeven o = evens (obits o) /\ oodd o = odds (obits o).

Lemma set_nat_length l j v : length (set_nat l j v) = length l.
Proof. revert j; induction l as [|a t IH]; intros [|j]; cbn; auto. Qed.

Lemma evens_set_even : forall k b v, evens (set_nat b (2 * k) v) = set_nat (evens b) k v.
Proof.
  induction k as [|k IH]; intros b v.
  - destruct b as [|a [|c t]]; reflexivity.
  - replace (2 * S k)%nat with (S (S (2 * k))) by lia. destruct b as [|a [|c t]]; try reflexivity.
    cbn [set_nat evens]. rewrite IH. reflexivity.
Qed.
Lemma odds_set_even : forall k b v, odds (set_nat b (2 * k) v) = odds b.
Proof.
  induction k as [|k IH]; intros b v.
  - destruct b as [|a [|c t]]; reflexivity.
  - replace (2 * S k)%nat with (S (S (2 * k))) by lia. destruct b as [|a [|c t]]; try reflexivity.
    cbn [set_nat odds]. rewrite IH. reflexivity.
Qed.
Lemma evens_set_odd : forall k b v, evens (set_nat b (2 * k + 1) v) = evens b.
Proof.
  induction k as [|k IH]; intros b v.
  - destruct b as [|a [|c t]]; reflexivity.
  - replace (2 * S k + 1)%nat with (S (S (2 * k + 1))) by lia. destruct b as [|a [|c t]]; try reflexivity.
    cbn [set_nat evens]. rewrite IH. reflexivity.
Qed.
Lemma odds_set_odd : forall k b v, odds (set_nat b (2 * k + 1) v) = set_nat (odds b) k v.
Proof.
  induction k as [|k IH]; intros b v.
  - destruct b as [|a [|c t]]; reflexivity.
  - replace (2 * S k + 1)%nat with (S (S (2 * k + 1))) by lia. destruct b as [|a [|c t]]; try reflexivity.
    cbn [set_nat odds]. rewrite IH. reflexivity.
Qed.
Lemma evens_length : forall n b, length b = (2 * n)%nat -> length (evens b) = n.
Proof.
  induction n as [|n IH]; intros b H.
  - destruct b; [reflexivity|discriminate].
  - destruct b as [|a [|c t]]; try (cbn in H; lia). cbn [evens length]. f_equal. apply IH. cbn in H. lia.
Qed.
Lemma odds_length : forall n b, length b = (2 * n)%nat -> length (odds b) = n.
Proof.
  induction n as [|n IH]; intros b H.
  - destruct b; [reflexivity|discriminate].
  - destruct b as [|a [|c t]]; try (cbn in H; lia). cbn [odds length]. f_equal. apply IH. cbn in H. lia.
Qed.

(* index arithmetic: the four assignments of one loop iteration succeed or fail together *)
Lemma py_index_even n j : py_index (2 * n) (2 * j) = option_map (fun k => (2 * k)%nat) (py_index n j).
Proof.
  unfold py_index. destruct (j <? 0)%Z eqn:E1.
  - assert ((2 * j <? 0)%Z = true) as -> by lia.
    destruct ((0 <=? j + Z.of_nat n) && (j + Z.of_nat n <? Z.of_nat n))%Z eqn:E2.
    + assert (((0 <=? 2 * j + Z.of_nat (2 * n)) && (2 * j + Z.of_nat (2 * n) <? Z.of_nat (2 * n)))%Z = true) as -> by lia.
      cbn [option_map]. f_equal. lia.
    + assert (((0 <=? 2 * j + Z.of_nat (2 * n)) && (2 * j + Z.of_nat (2 * n) <? Z.of_nat (2 * n)))%Z = false) as -> by lia. reflexivity.
  - assert ((2 * j <? 0)%Z = false) as -> by lia.
    destruct ((0 <=? j) && (j <? Z.of_nat n))%Z eqn:E2.
    + assert (((0 <=? 2 * j) && (2 * j <? Z.of_nat (2 * n)))%Z = true) as -> by lia. cbn [option_map]. f_equal. lia.
    + assert (((0 <=? 2 * j) && (2 * j <? Z.of_nat (2 * n)))%Z = false) as -> by lia. reflexivity.
Qed.
Lemma py_index_odd n j : py_index (2 * n) (2 * j + 1) = option_map (fun k => (2 * k + 1)%nat) (py_index n j).
Proof.
  unfold py_index. destruct (j <? 0)%Z eqn:E1.
  - assert ((2 * j + 1 <? 0)%Z = true) as -> by lia.
    destruct ((0 <=? j + Z.of_nat n) && (j + Z.of_nat n <? Z.of_nat n))%Z eqn:E2.
    + assert (((0 <=? 2 * j + 1 + Z.of_nat (2 * n)) && (2 * j + 1 + Z.of_nat (2 * n) <? Z.of_nat (2 * n)))%Z = true) as -> by lia.
      cbn [option_map]. f_equal. lia.
    + assert (((0 <=? 2 * j + 1 + Z.of_nat (2 * n)) && (2 * j + 1 + Z.of_nat (2 * n) <? Z.of_nat (2 * n)))%Z = false) as -> by lia. reflexivity.
  - assert ((2 * j + 1 <? 0)%Z = false) as -> by lia.
    destruct ((0 <=? j) && (j <? Z.of_nat n))%Z eqn:E2.
    + assert (((0 <=? 2 * j + 1) && (2 * j + 1 <? Z.of_nat (2 * n)))%Z = true) as -> by lia. cbn [option_map]. f_equal. lia.
    + assert (((0 <=? 2 * j + 1) && (2 * j + 1 <? Z.of_nat (2 * n)))%Z = false) as -> by lia. reflexivity.
Qed.

Lemma set_letter_inv o j x z : InvO o -> InvO (fst (set_letter o j x z)).
Proof.
  intros [[n Hn] [He Ho]]. unfold set_letter, set_idx. rewrite Hn, py_index_even.
  rewrite He, Ho, (evens_length n _ Hn), (odds_length n _ Hn).
  destruct (py_index n j) as [k|] eqn:Ek; cbn [option_map].
  - rewrite set_nat_length, Hn, py_index_odd, Ek. cbn [option_map fst].
    split; [exists n; cbn [obits]; rewrite !set_nat_length; exact Hn|]. cbn [obits oeven oodd]. split.
    + rewrite evens_set_odd, evens_set_even. reflexivity.
    + rewrite odds_set_odd, odds_set_even. reflexivity.
  - cbn [fst]. split; [exists n; exact Hn|]. rewrite <- He, <- Ho. split; reflexivity.
Qed.
Lemma set_substring_inv sub : forall o start, InvO o -> InvO (fst (set_substring o start sub)).
Proof.
  induction sub as [|a t IH]; intros o start HI; cbn [set_substring]; [exact HI|].
  pose proof (set_letter_inv o start (xb a) (zb a) HI) as H1.
  destruct (set_letter o start (xb a) (zb a)) as [o' ok]. cbn [fst] in H1.
  destruct ok; [apply IH; exact H1|exact H1].
Qed.
Lemma inc_rev_length l : length (inc_rev l) = length l.
Proof. induction l as [|[] t IH]; cbn; auto. Qed.
Lemma inc_bits_length b : length (inc_bits b) = length b.
Proof. unfold inc_bits. rewrite rev_length, inc_rev_length, rev_length. reflexivity. Qed.
Lemma fresh_bits_inv b n : length b = (2 * n)%nat -> InvO (fresh_bits b).
Proof. intros H. split; [exists n; exact H|split; reflexivity]. Qed.
Lemma inc_inv o : InvO o -> InvO (inc o).
Proof. intros [[n Hn] _]. apply (fresh_bits_inv _ n). rewrite inc_bits_length. exact Hn. Qed.
Lemma fresh_inv p : InvO (fresh p).
Proof. apply (fresh_bits_inv _ (length p)). apply bits_length. Qed.

Theorem views_consistent edits : forall o, InvO o -> InvO (fold_left apply_edit edits o).
Proof.
  induction edits as [|e t IH]; intros o HI; cbn [fold_left]; [exact HI|]. apply IH.
  destruct e; cbn [apply_edit]; [apply set_substring_inv|apply inc_inv]; exact HI.
Qed.

(* an object satisfying the invariant IS the fresh object built from its text *)
Lemma bits_of_bits : forall n b, length b = (2 * n)%nat -> bits (of_bits b) = b.
Proof.
  induction n as [|n IH]; intros b H.
  - destruct b; [reflexivity|discriminate].
  - destruct b as [|x [|z t]]; try (cbn in H; lia). cbn [of_bits]. rewrite bits_cons. rewrite IH by (cbn in H; lia).
    destruct x, z; reflexivity.
Qed.
Theorem inv_is_fresh o : InvO o -> o = fresh (text o).
Proof.
  intros [[n Hn] [He Ho]]. unfold fresh, fresh_bits, text. rewrite (bits_of_bits n _ Hn).
  destruct o as [b e d]. cbn in *. subst. reflexivity.
Qed.

(* effect of a successful letter assignment on the text *)
Fixpoint set_pl (p : pstr) (k : nat) (a : pl) : pstr :=
  match p, k with [], _ => [] | _ :: t, O => a :: t | b :: t, S k' => b :: set_pl t k' a end.
Lemma of_bits_set : forall k b x z, of_bits (set_nat (set_nat b (2 * k) x) (2 * k + 1) z) = set_pl (of_bits b) k (ofb x z).
Proof.
  induction k as [|k IH]; intros b x z.
  - destruct b as [|a [|c t]]; reflexivity.
  - replace (2 * S k)%nat with (S (S (2 * k))) by lia. replace (S (S (2 * k)) + 1)%nat with (S (S (2 * k + 1))) by lia.
    destruct b as [|a [|c t]]; try reflexivity. cbn [set_nat of_bits set_pl]. rewrite IH. reflexivity.
Qed.
Theorem set_letter_text o j x z : InvO o ->
  match py_index (length (text o)) j with
  | Some k => set_letter o j x z = (fresh (set_pl (text o) k (ofb x z)), true)
  | None => set_letter o j x z = (o, false)
  end.
Proof.
  intros HI. pose proof HI as [[n Hn] [He Ho]].
  assert (HL : length (text o) = n).
  { unfold text. clear -Hn. revert n Hn. generalize (obits o). intros b.
    assert (G : forall n b, length b = (2 * n)%nat -> length (of_bits b) = n).
    { induction n as [|n IH]; intros [|x [|z t]] H; try (cbn in H; lia); try reflexivity. cbn [of_bits length]. f_equal. apply IH. cbn in H. lia. }
    intros n Hn. apply G. exact Hn. }
  rewrite HL. unfold set_letter, set_idx. rewrite Hn, py_index_even, He, Ho, (evens_length n _ Hn), (odds_length n _ Hn).
  destruct (py_index n j) as [k|] eqn:Ek; cbn [option_map]; [|reflexivity].
  rewrite set_nat_length, Hn, py_index_odd, Ek. cbn [option_map].
  f_equal. unfold fresh, fresh_bits, text.
  assert (HB : bits (set_pl (of_bits (obits o)) k (ofb x z)) = set_nat (set_nat (obits o) (2 * k) x) (2 * k + 1) z).
  { rewrite <- of_bits_set. apply (bits_of_bits n). rewrite !set_nat_length. exact Hn. }
  rewrite HB. f_equal.
  - rewrite evens_set_odd, evens_set_even. reflexivity.
  - rewrite odds_set_odd, odds_set_even. reflexivity.
Qed.

(* ---------- increment and the enumeration of all strings ---------- *)
Fixpoint le2int (l : list bool) : Z := match l with [] => 0 | b :: t => (if b then 1 else 0) + 2 * le2int t end.
Lemma ba2int_app l b : ba2int (l ++ [b]) = 2 * ba2int l + (if b then 1 else 0).
Proof. unfold ba2int. rewrite fold_left_app. reflexivity. Qed.
Lemma ba2int_rev l : ba2int (rev l) = le2int l.
Proof. induction l as [|b t IH]; [reflexivity|]. cbn [rev le2int]. rewrite ba2int_app, IH. lia. Qed.
Lemma ba2int_le l : ba2int l = le2int (rev l).
Proof. rewrite <- ba2int_rev, rev_involutive. reflexivity. Qed.
Lemma all_ones_rev l : all_ones (rev l) = all_ones l.
Proof.
  assert (G : forall l b, all_ones (l ++ [b]) = all_ones l && b).
  { induction l0 as [|a t IH]; intros b; cbn; [destruct b; reflexivity|]. rewrite IH. destruct a; reflexivity. }
  induction l as [|a t IH]; [reflexivity|]. cbn [rev]. rewrite G, IH. cbn. destruct a, (all_ones t); reflexivity.
Qed.
Lemma le2int_bound l : 0 <= le2int l < 2 ^ Z.of_nat (length l).
Proof.
  induction l as [|b t IH]; [cbn; lia|]. cbn [le2int length]. rewrite Nat2Z.inj_succ, Z.pow_succ_r by lia.
  destruct b; lia.
Qed.
Lemma le2int_all_ones l : all_ones l = true <-> le2int l = 2 ^ Z.of_nat (length l) - 1.
Proof.
  induction l as [|b t IH]; [cbn; split; auto|]. cbn [all_ones le2int length]. rewrite Nat2Z.inj_succ, Z.pow_succ_r by lia.
  pose proof (le2int_bound t). destruct b; cbn [andb].
  - rewrite IH. lia.
  - split; [discriminate|lia].
Qed.
Lemma le2int_inc l : all_ones l = false -> le2int (inc_rev l) = le2int l + 1.
Proof.
  induction l as [|b t IH]; [discriminate|]. cbn [all_ones inc_rev le2int]. destruct b; cbn [andb le2int].
  - intros H. rewrite IH by exact H. lia.
  - intros _. lia.
Qed.
Theorem index_inc b : all_ones b = false -> ba2int (inc_bits b) = ba2int b + 1.
Proof. intros H. unfold inc_bits. rewrite ba2int_rev, ba2int_le. apply le2int_inc. rewrite all_ones_rev. exact H. Qed.
Theorem index_inc_wrap b : all_ones b = true -> ba2int (inc_bits b) = 0.
Proof.
  intros H. unfold inc_bits. rewrite ba2int_rev. rewrite <- all_ones_rev in H. generalize dependent (rev b). clear b.
  induction l as [|x t IH]; [reflexivity|]. cbn [all_ones]. destruct x; [|discriminate]. cbn [andb inc_rev le2int]. intros H. rewrite IH by exact H. reflexivity.
Qed.

Fixpoint zseq (k : Z) (len : nat) : list Z := match len with O => [] | S l => k :: zseq (k + 1) l end.
Lemma gen_loop_spec : forall fuel b, (Z.of_nat fuel + ba2int b = 2 ^ Z.of_nat (length b)) ->
  map ba2int (gen_loop fuel b) = zseq (ba2int b) fuel.
Proof.
  induction fuel as [|f IH]; intros b H; [reflexivity|]. cbn [gen_loop].
  destruct (all_ones b) eqn:E.
  - assert (ba2int b = 2 ^ Z.of_nat (length b) - 1).
    { rewrite ba2int_le. rewrite <- (rev_length b). apply le2int_all_ones. rewrite all_ones_rev. exact E. }
    assert (f = 0%nat) by lia. subst f. reflexivity.
  - cbn [map zseq]. f_equal. rewrite IH; [rewrite index_inc by exact E; reflexivity|].
    rewrite inc_bits_length, index_inc by exact E. lia.
Qed.
Lemma ba2int_zeros n : ba2int (repeat false n) = 0.
Proof. rewrite ba2int_le. induction n as [|n IH]; [reflexivity|]. cbn [repeat rev]. 
  assert (G : forall l, le2int (l ++ [false]) = le2int l) by (induction l as [|b t IHl]; cbn; [reflexivity|rewrite IHl; reflexivity]).
  rewrite G. exact IH. Qed.
Theorem gen_all_indices n :
  map ba2int (gen_loop (Nat.pow 4 n) (repeat false (2 * n))) = zseq 0 (Nat.pow 4 n).
Proof.
  rewrite gen_loop_spec; rewrite ba2int_zeros; [reflexivity|]. rewrite repeat_length.
  rewrite Nat2Z.inj_pow, Nat2Z.inj_mul. change (Z.of_nat 4) with (2 ^ 2). rewrite <- Z.pow_mul_r by lia. change (Z.of_nat 2) with 2. lia.
Qed.
