(* Theory/InvarT.v — re-presentations of a generating set (C03): letter-level closure, its bridge to the
   symplectic core, and the transformations qubit permutation, per-site relabelling, appended identities. *)
From PauLie Require Import Pauli Sym SymT ClT ClSym MatrixT.
From Coq Require Import Lia Permutation.

Definition ClL (G : pstr -> Prop) : pstr -> Prop := Cl pstr smul anti_l G.
Definition image {A B} (f : A -> B) (G : A -> Prop) : B -> Prop := fun q => exists g, G g /\ q = f g.

Section Len.
Variable n : nat.
Definition Dn (p : pstr) : Prop := length p = n.
Lemma Dn_mul a b : Dn a -> Dn b -> Dn (smul a b).
Proof. unfold Dn. intros Ha Hb. rewrite smul_length; congruence. Qed.
Variable G : pstr -> Prop.
Hypothesis G_len : forall g, G g -> length g = n.

(* letters <-> symplectic core *)
Theorem ClL_enc p : length p = n -> (ClL G p <-> ClS (image enc G) (enc p)).
Proof.
  intros Hp. apply (cl_homD pstr P smul anti_l mul anti enc Dn Dn_mul); try assumption.
  - intros a b Ha Hb. apply enc_smul. unfold Dn in *; congruence.
  - intros a b Ha Hb. apply enc_anti. unfold Dn in *; congruence.
  - intros a b Ha Hb. apply enc_inj. unfold Dn in *; congruence.
Qed.

(* a generic letter-level transformation that is a homomorphism on length-n strings *)
Theorem ClL_transform (f : pstr -> pstr) :
  (forall a b, Dn a -> Dn b -> f (smul a b) = smul (f a) (f b)) ->
  (forall a b, Dn a -> Dn b -> anti_l (f a) (f b) = anti_l a b) ->
  (forall a b, Dn a -> Dn b -> f a = f b -> a = b) ->
  forall p, length p = n -> (ClL G p <-> ClL (image f G) (f p)).
Proof. intros Hm Ha Hi p Hp. apply (cl_homD pstr pstr smul anti_l smul anti_l f Dn Dn_mul); assumption. Qed.
End Len.

(* ---------- appended identity qubits ---------- *)
Definition append_id (k : nat) (p : pstr) : pstr := p ++ identity k.
Lemma smul_app a b c d : length a = length b -> smul (a ++ c) (b ++ d) = smul a b ++ smul c d.
Proof. revert b; induction a as [|x a IH]; intros [|y b] H; try discriminate; [reflexivity|]. cbn. f_equal. apply IH. injection H; auto. Qed.
Lemma anti_l_app a b c d : length a = length b -> anti_l (a ++ c) (b ++ d) = xorb (anti_l a b) (anti_l c d).
Proof. revert b; induction a as [|x a IH]; intros [|y b] H; try discriminate; [cbn; destruct (anti_l c d); reflexivity|]. cbn. rewrite IH by (injection H; auto). rewrite xorb_assoc. reflexivity. Qed.
Lemma smul_identity k : smul (identity k) (identity k) = identity k.
Proof. induction k; [reflexivity|]. cbn. f_equal. exact IHk. Qed.
Lemma anti_identity k : anti_l (identity k) (identity k) = false.
Proof. induction k; [reflexivity|]. unfold identity in *. cbn. rewrite IHk. reflexivity. Qed.
Theorem append_id_hom n k :
  (forall a b, Dn n a -> Dn n b -> append_id k (smul a b) = smul (append_id k a) (append_id k b)) /\
  (forall a b, Dn n a -> Dn n b -> anti_l (append_id k a) (append_id k b) = anti_l a b) /\
  (forall a b, Dn n a -> Dn n b -> append_id k a = append_id k b -> a = b).
Proof.
  unfold Dn, append_id. repeat split; intros a b Ha Hb.
  - rewrite smul_app, smul_identity by congruence. reflexivity.
  - rewrite anti_l_app, anti_identity, xorb_false_r by congruence. reflexivity.
  - intros H. apply app_inv_tail in H. exact H.
Qed.
(* on the symplectic core appended identities are invisible: the encoding does not change *)
Lemma encx_identity k : encx (identity k) = 0%N.
Proof. unfold identity. induction k; [reflexivity|]. cbn [repeat encx xb]. rewrite IHk. reflexivity. Qed.
Lemma encz_identity k : encz (identity k) = 0%N.
Proof. unfold identity. induction k; [reflexivity|]. cbn [repeat encz zb]. rewrite IHk. reflexivity. Qed.
Lemma encx_app_id p k : encx (p ++ identity k) = encx p.
Proof. induction p as [|a p IH]; cbn [app encx]; [apply encx_identity|rewrite IH; reflexivity]. Qed.
Lemma encz_app_id p k : encz (p ++ identity k) = encz p.
Proof. induction p as [|a p IH]; cbn [app encz]; [apply encz_identity|rewrite IH; reflexivity]. Qed.
Theorem enc_append_id p k : enc (append_id k p) = enc p.
Proof. unfold enc, append_id. rewrite encx_app_id, encz_app_id. reflexivity. Qed.

(* ---------- per-site relabelling of X, Y, Z ---------- *)
Inductive perm3 := p_xyz | p_xzy | p_yxz | p_yzx | p_zxy | p_zyx.
Definition relab1 (r : perm3) (a : pl) : pl :=
  match r, a with
  | _, PI => PI
  | p_xyz, a => a
  | p_xzy, PX => PX | p_xzy, PY => PZ | p_xzy, PZ => PY
  | p_yxz, PX => PY | p_yxz, PY => PX | p_yxz, PZ => PZ
  | p_yzx, PX => PY | p_yzx, PY => PZ | p_yzx, PZ => PX
  | p_zxy, PX => PZ | p_zxy, PY => PX | p_zxy, PZ => PY
  | p_zyx, PX => PZ | p_zyx, PY => PY | p_zyx, PZ => PX
  end.
Fixpoint relabel (rs : list perm3) (p : pstr) : pstr :=
  match rs, p with r :: rs', a :: p' => relab1 r a :: relabel rs' p' | _, _ => p end.
Lemma relab1_pm r a b : relab1 r (pm a b) = pm (relab1 r a) (relab1 r b). Proof. destruct r, a, b; reflexivity. Qed.
Lemma relab1_anti r a b : anti1 (relab1 r a) (relab1 r b) = anti1 a b. Proof. destruct r, a, b; reflexivity. Qed.
Lemma relab1_inj r a b : relab1 r a = relab1 r b -> a = b. Proof. destruct r, a, b; cbn; congruence. Qed.
Lemma relabel_smul rs : forall a b, length a = length b -> relabel rs (smul a b) = smul (relabel rs a) (relabel rs b).
Proof.
  induction rs as [|r rs IH]; intros [|x a] [|y b] H; try discriminate H; try reflexivity.
  injection H as H. cbn. rewrite relab1_pm, IH by assumption. reflexivity.
Qed.
Lemma relabel_anti rs : forall a b, length a = length b -> anti_l (relabel rs a) (relabel rs b) = anti_l a b.
Proof.
  induction rs as [|r rs IH]; intros [|x a] [|y b] H; try discriminate H; try reflexivity.
  injection H as H. cbn. rewrite relab1_anti, IH by assumption. reflexivity.
Qed.
Lemma relabel_inj rs : forall a b, length a = length b -> relabel rs a = relabel rs b -> a = b.
Proof.
  induction rs as [|r rs IH]; intros [|x a] [|y b] H E; try discriminate H; try reflexivity; try exact E.
  injection H as H. cbn in E. injection E as E1 E2. apply relab1_inj in E1. subst. f_equal. apply IH; assumption.
Qed.
Theorem relabel_hom n rs :
  (forall a b, Dn n a -> Dn n b -> relabel rs (smul a b) = smul (relabel rs a) (relabel rs b)) /\
  (forall a b, Dn n a -> Dn n b -> anti_l (relabel rs a) (relabel rs b) = anti_l a b) /\
  (forall a b, Dn n a -> Dn n b -> relabel rs a = relabel rs b -> a = b).
Proof.
  unfold Dn. repeat split; intros a b Ha Hb.
  - apply relabel_smul; congruence.
  - apply relabel_anti; congruence.
  - apply relabel_inj; congruence.
Qed.

(* ---------- qubit permutations ---------- *)
Definition permute (s : list nat) (p : pstr) : pstr := map (fun i => nth i p PI) s.
Lemma nth_smul : forall p q i, length p = length q -> nth i (smul p q) PI = pm (nth i p PI) (nth i q PI).
Proof.
  induction p as [|a p IH]; intros [|b q] i H; try discriminate; destruct i; try reflexivity.
  cbn. apply IH. injection H; auto.
Qed.
Definition xsum (l : list bool) : bool := fold_right xorb false l.
Lemma xsum_perm l l' : Permutation l l' -> xsum l = xsum l'.
Proof.
  induction 1 as [|x l l' _ IH|x y l|l l' l'' _ IH1 _ IH2].
  - reflexivity.
  - change (xorb x (xsum l) = xorb x (xsum l')). rewrite IH. reflexivity.
  - change (xorb y (xorb x (xsum l)) = xorb x (xorb y (xsum l))). destruct x, y, (xsum l); reflexivity.
  - congruence.
Qed.
Lemma anti_l_xsum : forall p q, length p = length q ->
  anti_l p q = xsum (map (fun i => anti1 (nth i p PI) (nth i q PI)) (seq 0 (length p))).
Proof.
  induction p as [|a p IH]; intros [|b q] H; try discriminate; [reflexivity|].
  injection H as H. cbn [length seq map xsum fold_right nth anti_l]. f_equal.
  rewrite <- seq_shift, map_map. cbn [nth]. apply IH. exact H.
Qed.
Lemma anti_l_permute s p q : anti_l (permute s p) (permute s q) = xsum (map (fun i => anti1 (nth i p PI) (nth i q PI)) s).
Proof. unfold permute. induction s as [|i s IH]; [reflexivity|]. cbn. rewrite IH. reflexivity. Qed.
Theorem permute_hom n s : Permutation s (seq 0 n) ->
  (forall a b, Dn n a -> Dn n b -> permute s (smul a b) = smul (permute s a) (permute s b)) /\
  (forall a b, Dn n a -> Dn n b -> anti_l (permute s a) (permute s b) = anti_l a b) /\
  (forall a b, Dn n a -> Dn n b -> permute s a = permute s b -> a = b).
Proof.
  intros Hs. unfold Dn. repeat split; intros a b Ha Hb.
  - unfold permute. clear Hs. induction s as [|i s IH]; [reflexivity|]. cbn. rewrite nth_smul by congruence. f_equal. exact IH.
  - rewrite anti_l_permute, anti_l_xsum by congruence. rewrite Ha. apply xsum_perm. apply Permutation_map. exact Hs.
  - intros E. apply (nth_ext a b PI PI); [congruence|]. intros i Hi. rewrite Ha in Hi.
    assert (Hin : In i s). { apply (Permutation_in i (Permutation_sym Hs)). apply in_seq. lia. }
    unfold permute in E. clear -E Hin. induction s as [|j s IH]; [destruct Hin|]. cbn in E. injection E as E1 E2.
    destruct Hin as [->|Hin]; auto.
Qed.
