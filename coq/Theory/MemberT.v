From PauLie Require Import Pauli Sym SymT ClT ClSym ClosureGen ClosureN ClosureT Member.
From Coq Require Import Lia.
Open Scope N_scope.
Notation ClLs G := (ClS (fun g => In g G)).

Section M.
Variable n : N.
Variable G : list P.
Hypothesis G_D : forall g, In g G -> DN n g.

Lemma in_closure_spec x : DN n x -> (in_closure n G x = true <-> ClLs G x).
Proof.
  intros Dx. unfold in_closure. pose proof (closureN_total n G G_D) as T.
  destruct (closureN n G) as [s|] eqn:E; [|contradiction].
  rewrite <- (closureN_spec n G G_D s E x Dx). split; [apply PS.mem_2|apply PS.mem_1].
Qed.
Theorem select_dep_spec X : (forall x, In x X -> DN n x) ->
  forall x, In x (select_dep n G X) <-> In x X /\ ClLs G x.
Proof.
  intros HX x. unfold select_dep. pose proof (closureN_total n G G_D) as T.
  destruct (closureN n G) as [s|] eqn:E; [|contradiction].
  rewrite filter_In. split; intros [Hx H]; (split; [exact Hx|]).
  - apply (closureN_spec n G G_D s E x (HX x Hx)). apply PS.mem_2. exact H.
  - apply PS.mem_1. apply (closureN_spec n G G_D s E x (HX x Hx)). exact H.
Qed.
End M.
Theorem is_in_spec n G : (forall g, In g G -> DN n g) -> forall X, (forall x, In x X -> DN n x) ->
  (is_in n G X = true <-> G <> [] /\ forall x, In x X -> ClLs G x).
Proof.
  intros G_D X HX. unfold is_in. destruct G as [|g0 G'].
  - split; [discriminate|intros [H _]; congruence].
  - set (G := g0 :: G') in *. pose proof (closureN_total n G G_D) as T.
    destruct (closureN n G) as [s|] eqn:E; [|contradiction].
    rewrite forallb_forall. split.
    + intros H. split; [discriminate|]. intros x Hx. apply (closureN_spec n G G_D s E x (HX x Hx)). apply PS.mem_2. auto.
    + intros [_ H] x Hx. apply PS.mem_1. apply (closureN_spec n G G_D s E x (HX x Hx)). exact (H x Hx).
Qed.


(* algebra equality: true exactly when the two closures coincide (both collections non-empty) *)
Theorem is_eq_iff n G H : (forall g, In g G -> DN n g) -> (forall h, In h H -> DN n h) -> G <> [] -> H <> [] ->
  (is_eq n G H = true <-> forall p, ClLs G p <-> ClLs H p).
Proof.
  intros HG HH NG NH. unfold is_eq. rewrite andb_true_iff, (is_in_spec n G HG H HH), (is_in_spec n H HH G HG). split.
  - intros [[_ A] [_ B]] p. split; apply s_mono; intros g Hg; auto.
  - intros E. split; (split; [assumption|]); intros x Hx; apply E; constructor; exact Hx.
Qed.

Theorem space_spec n G : (forall g, In g G -> DN n g) ->
  forall a, In a (space n G) <-> ClLs G a /\ a <> pid.
Proof.
  intros HG a. unfold space. pose proof (closureN_total n G HG) as T.
  destruct (closureN n G) as [s|] eqn:E; [|contradiction].
  rewrite filter_In, in_map_iff.
  destruct (iter_sound P mul anti (codeN n) (decodeN n) (DN n) (DN_mul n) (decode_code n) G HG _ _ _ (init_sound P mul anti (codeN n) G) E) as [HS _].
  split.
  - intros [[c [Hc Hin]] Hne]. split.
    + assert (Hin' : PS.In c s) by (apply PSF.elements_iff, SetoidList.InA_alt; exists c; auto).
      destruct (HS c Hin') as [b [Rb ->]].
      assert (Db : DN n b) by (apply (Reach_D P mul anti (DN n) (DN_mul n) G HG b Rb)).
      rewrite decode_code in Hc by exact Db. subst b. apply reach_iff_cl. exact Rb.
    + intros ->. rewrite (proj2 (P_eqb_eq pid pid) eq_refl) in Hne. discriminate.
  - intros [Hcl Hne]. split.
    + assert (Da : DN n a) by (apply (cl_DN n G HG a Hcl)).
      exists (codeN n a). split; [apply decode_code; exact Da|].
      apply (closureN_spec n G HG s E a Da) in Hcl. apply PSF.elements_iff, SetoidList.InA_alt in Hcl.
      destruct Hcl as [y [<- Hy]]. exact Hy.
    + destruct (P_eqb a pid) eqn:Eq; [apply P_eqb_eq in Eq; contradiction|reflexivity].
Qed.
