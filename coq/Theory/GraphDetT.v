(* Theory/GraphDetT.v — the dynamical Lie algebra of independent generators depends only on their anticommutation
   graph: two generating lists (possibly in different ambient spaces, on different numbers of qubits) with the same
   pattern of anticommutation generate closures in bijection, element s-th product to s-th product.  This is the
   principle behind classifying by canonical graphs (C01, C02, C03, C09). *)
From Coq Require Import List Bool Lia Arith PeanoNat.
Import ListNotations.
From PauLie Require Import ClT.

Fixpoint bxor (s t : list bool) : list bool :=
  match s, t with a :: s', b :: t' => xorb a b :: bxor s' t' | _, _ => [] end.
Lemma bxor_length : forall s t, length s = length t -> length (bxor s t) = length s.
Proof. induction s as [|a s IH]; intros [|b t] H; try discriminate; [reflexivity|]. cbn. f_equal. apply IH. injection H; auto. Qed.

Section Space.
Variable P : Type.
Variable mul : P -> P -> P.
Variable anti : P -> P -> bool.
Variable e : P.
Hypothesis mul_assoc : forall a b c, mul (mul a b) c = mul a (mul b c).
Hypothesis mul_comm : forall a b, mul a b = mul b a.
Hypothesis mul_e : forall a, mul e a = a.
Hypothesis mul_inv : forall a, mul a a = e.
Hypothesis anti_sym : forall a b, anti a b = anti b a.
Hypothesis anti_mul_r : forall a b c, anti a (mul b c) = xorb (anti a b) (anti a c).
Hypothesis anti_e : forall a, anti a e = false.

(* the product of the selected generators *)
Fixpoint prod (s : list bool) (gs : list P) : P :=
  match s, gs with b :: s', g :: gs' => if b then mul g (prod s' gs') else prod s' gs' | _, _ => e end.
Lemma prod_xor : forall gs s t, length s = length gs -> length t = length gs ->
  prod (bxor s t) gs = mul (prod s gs) (prod t gs).
Proof.
  induction gs as [|g gs IH]; intros [|a s] [|b t] Hs Ht; try discriminate; [cbn; rewrite mul_e; reflexivity|].
  injection Hs as Hs. injection Ht as Ht. cbn [bxor prod]. rewrite (IH s t Hs Ht).
  set (x := prod s gs). set (y := prod t gs). destruct a, b; cbn [xorb].
  - rewrite (mul_assoc g x (mul g y)), <- (mul_assoc x g y), (mul_comm x g), (mul_assoc g x y), <- (mul_assoc g g (mul x y)), mul_inv, mul_e. reflexivity.
  - rewrite mul_assoc. reflexivity.
  - rewrite <- (mul_assoc x g y), (mul_comm x g), mul_assoc. reflexivity.
  - reflexivity.
Qed.
Lemma anti_mul_l a b c : anti (mul a b) c = xorb (anti a c) (anti b c).
Proof. rewrite anti_sym, anti_mul_r, (anti_sym c a), (anti_sym c b); reflexivity. Qed.
Lemma anti_e_l a : anti e a = false. Proof. rewrite anti_sym. apply anti_e. Qed.
(* unit selections *)
Lemma unit_sel gs g : In g gs -> exists s, length s = length gs /\ prod s gs = g.
Proof.
  induction gs as [|g0 gs IH]; intros H; [destruct H|]. destruct H as [<-|H].
  - exists (true :: repeat false (length gs)). split; [cbn; rewrite repeat_length; reflexivity|]. cbn [prod].
    assert (Z : forall l, prod (repeat false (length l)) l = e) by (induction l as [|x l IHl]; [reflexivity|cbn; exact IHl]).
    rewrite Z, mul_comm, mul_e. reflexivity.
  - destruct (IH H) as [s [Ls Ps]]. exists (false :: s). split; [cbn; congruence|exact Ps].
Qed.
End Space.

Section Two.
Variables (P Q : Type) (mulP : P -> P -> P) (mulQ : Q -> Q -> Q) (antiP : P -> P -> bool) (antiQ : Q -> Q -> bool) (eP : P) (eQ : Q).
Hypothesis assocP : forall a b c, mulP (mulP a b) c = mulP a (mulP b c).
Hypothesis commP : forall a b, mulP a b = mulP b a.
Hypothesis unitP : forall a, mulP eP a = a.
Hypothesis invP : forall a, mulP a a = eP.
Hypothesis symP : forall a b, antiP a b = antiP b a.
Hypothesis bilP : forall a b c, antiP a (mulP b c) = xorb (antiP a b) (antiP a c).
Hypothesis aeP : forall a, antiP a eP = false.
Hypothesis assocQ : forall a b c, mulQ (mulQ a b) c = mulQ a (mulQ b c).
Hypothesis commQ : forall a b, mulQ a b = mulQ b a.
Hypothesis unitQ : forall a, mulQ eQ a = a.
Hypothesis invQ : forall a, mulQ a a = eQ.
Hypothesis symQ : forall a b, antiQ a b = antiQ b a.
Hypothesis bilQ : forall a b c, antiQ a (mulQ b c) = xorb (antiQ a b) (antiQ a c).
Hypothesis aeQ : forall a, antiQ a eQ = false.
Notation prodP := (prod P mulP eP).
Notation prodQ := (prod Q mulQ eQ).
Notation ClP := (Cl P mulP antiP).
Notation ClQ := (Cl Q mulQ antiQ).

(* the symplectic form of two products only depends on the pairwise forms of the generators *)
Lemma cross : forall (z1 z2 : list (P * Q)),
  (forall x y, In x z1 -> In y z2 -> antiP (fst x) (fst y) = antiQ (snd x) (snd y)) ->
  forall s t, antiP (prodP s (map fst z1)) (prodP t (map fst z2)) = antiQ (prodQ s (map snd z1)) (prodQ t (map snd z2)).
Proof.
  induction z1 as [|x z1 IH]; intros z2 H s t.
  - destruct s; cbn [map prod]; rewrite (anti_e_l P antiP eP symP aeP), (anti_e_l Q antiQ eQ symQ aeQ); reflexivity.
  - destruct s as [|b s]; [cbn [map prod]; rewrite (anti_e_l P antiP eP symP aeP), (anti_e_l Q antiQ eQ symQ aeQ); reflexivity|].
    cbn [map prod]. assert (IH' := IH z2 (fun x' y Hx Hy => H x' y (or_intror Hx) Hy) s t).
    destruct b; [|exact IH'].
    rewrite (anti_mul_l P mulP antiP symP bilP), (anti_mul_l Q mulQ antiQ symQ bilQ), IH'. f_equal.
    (* the single generator against the product on the right *)
    clear IH IH'. assert (Hx : forall y, In y z2 -> antiP (fst x) (fst y) = antiQ (snd x) (snd y)) by (intros y Hy; apply H; [left; reflexivity|exact Hy]).
    clear H. revert t. induction z2 as [|y z2 IH2]; intros t; [destruct t; cbn [map prod]; rewrite aeP, aeQ; reflexivity|].
    destruct t as [|c t]; [cbn [map prod]; rewrite aeP, aeQ; reflexivity|]. cbn [map prod].
    assert (I2 := IH2 (fun y' Hy' => Hx y' (or_intror Hy')) t). destruct c; [|exact I2].
    rewrite bilP, bilQ, I2, (Hx y (or_introl eq_refl)). reflexivity.
Qed.

Variable zs : list (P * Q).   (* the two generating lists, paired *)
Hypothesis same_graph : forall x y, In x zs -> In y zs -> antiP (fst x) (fst y) = antiQ (snd x) (snd y).
Let gs := map fst zs.
Let hs := map snd zs.
Let m := length zs.

(* every member of the closure of the first list is the s-product of a selection s whose product in the second
   space lies in the closure of the second list *)
Theorem transfer p : ClP (fun g => In g gs) p ->
  exists s, length s = m /\ p = prodP s gs /\ ClQ (fun h => In h hs) (prodQ s hs).
Proof.
  induction 1 as [g Hg|a b _ [s [Ls [Ea Ca]]] _ [t [Lt [Eb Cb]]] Hab].
  - (* a generator: its unit selection, found in the paired list *)
    unfold gs in Hg. apply in_map_iff in Hg. destruct Hg as [x [<- Hx]].
    assert (U : exists s, length s = m /\ prodP s gs = fst x /\ prodQ s hs = snd x).
    { unfold gs, hs, m. clear same_graph. induction zs as [|z0 l IH]; [destruct Hx|]. destruct Hx as [->|Hx].
      - exists (true :: repeat false (length l)). split; [cbn; rewrite repeat_length; reflexivity|]. cbn [map prod].
        assert (ZP : forall l0 : list (P * Q), prodP (repeat false (length l0)) (map fst l0) = eP) by (induction l0 as [|y l0 IHl]; [reflexivity|cbn; exact IHl]).
        assert (ZQ : forall l0 : list (P * Q), prodQ (repeat false (length l0)) (map snd l0) = eQ) by (induction l0 as [|y l0 IHl]; [reflexivity|cbn; exact IHl]).
        rewrite ZP, ZQ, (commP (fst x) eP), (commQ (snd x) eQ), unitP, unitQ. split; reflexivity.
      - destruct (IH Hx) as [s [Ls [E1 E2]]]. exists (false :: s). split; [cbn; congruence|]. cbn [map prod]. split; assumption. }
    destruct U as [s [Ls [E1 E2]]]. exists s. split; [exact Ls|]. split; [symmetry; exact E1|]. rewrite E2. apply cl_gen. unfold hs. apply in_map. exact Hx.
  - exists (bxor s t). assert (Lg : length gs = m) by (unfold gs, m; apply map_length). assert (Lh : length hs = m) by (unfold hs, m; apply map_length).
    split; [rewrite bxor_length; congruence|]. split.
    + rewrite (prod_xor P mulP eP assocP commP unitP invP) by congruence. congruence.
    + rewrite (prod_xor Q mulQ eQ assocQ commQ unitQ invQ) by congruence. apply cl_br; [exact Ca|exact Cb|].
      rewrite <- Hab, Ea, Eb. symmetry. unfold gs, hs. apply cross. exact same_graph.
Qed.
End Two.

Lemma fst_combine {A B} : forall (l : list A) (l' : list B), length l = length l' -> map fst (combine l l') = l.
Proof. induction l as [|a l IH]; intros [|b l'] H; try discriminate; [reflexivity|]. cbn. f_equal. apply IH. injection H; auto. Qed.
Lemma snd_combine {A B} : forall (l : list A) (l' : list B), length l = length l' -> map snd (combine l l') = l'.
Proof. induction l as [|a l IH]; intros [|b l'] H; try discriminate; [reflexivity|]. cbn. f_equal. apply IH. injection H; auto. Qed.

Section Count.
Variables (P Q : Type) (mulP : P -> P -> P) (mulQ : Q -> Q -> Q) (antiP : P -> P -> bool) (antiQ : Q -> Q -> bool) (eP : P) (eQ : Q).
Hypothesis assocP : forall a b c, mulP (mulP a b) c = mulP a (mulP b c).
Hypothesis commP : forall a b, mulP a b = mulP b a.
Hypothesis unitP : forall a, mulP eP a = a.
Hypothesis invP : forall a, mulP a a = eP.
Hypothesis symP : forall a b, antiP a b = antiP b a.
Hypothesis bilP : forall a b c, antiP a (mulP b c) = xorb (antiP a b) (antiP a c).
Hypothesis aeP : forall a, antiP a eP = false.
Hypothesis assocQ : forall a b c, mulQ (mulQ a b) c = mulQ a (mulQ b c).
Hypothesis commQ : forall a b, mulQ a b = mulQ b a.
Hypothesis unitQ : forall a, mulQ eQ a = a.
Hypothesis invQ : forall a, mulQ a a = eQ.
Hypothesis symQ : forall a b, antiQ a b = antiQ b a.
Hypothesis bilQ : forall a b c, antiQ a (mulQ b c) = xorb (antiQ a b) (antiQ a c).
Hypothesis aeQ : forall a, antiQ a eQ = false.
Notation prodP := (prod P mulP eP).
Notation prodQ := (prod Q mulQ eQ).
Notation ClP := (Cl P mulP antiP).
Notation ClQ := (Cl Q mulQ antiQ).
Variables (gs : list P) (hs : list Q).
Hypothesis same_len : length gs = length hs.
Hypothesis same_graph : forall i j, (i < length gs)%nat -> (j < length gs)%nat ->
  antiP (nth i gs eP) (nth j gs eP) = antiQ (nth i hs eQ) (nth j hs eQ).
(* independence, as injectivity of the selection product (first list) and as a coordinate function (second list) *)
Hypothesis indepP : forall s t, length s = length gs -> length t = length gs -> prodP s gs = prodP t gs -> s = t.
Hypothesis indepQ : forall s t, length s = length hs -> length t = length hs -> prodQ s hs = prodQ t hs -> s = t.

Lemma zip_graph : forall x y, In x (combine gs hs) -> In y (combine gs hs) -> antiP (fst x) (fst y) = antiQ (snd x) (snd y).
Proof.
  intros x y Hx Hy. apply (In_nth _ _ (eP, eQ)) in Hx. apply (In_nth _ _ (eP, eQ)) in Hy.
  destruct Hx as [i [Hi <-]], Hy as [j [Hj <-]]. rewrite combine_length, <- same_len, Nat.min_id in Hi, Hj.
  rewrite !combine_nth by exact same_len. cbn [fst snd]. apply same_graph; assumption.
Qed.
Lemma zip_fst : map fst (combine gs hs) = gs.
Proof. apply fst_combine. exact same_len. Qed.
Lemma zip_snd : map snd (combine gs hs) = hs.
Proof. apply snd_combine. exact same_len. Qed.
Lemma zip_len : length (combine gs hs) = length gs.
Proof. rewrite combine_length, <- same_len. apply Nat.min_id. Qed.

Lemma P_to_Q p : ClP (fun g => In g gs) p -> exists s, length s = length gs /\ p = prodP s gs /\ ClQ (fun h => In h hs) (prodQ s hs).
Proof.
  intros H. rewrite <- zip_fst in H.
  destruct (transfer P Q mulP mulQ antiP antiQ eP eQ assocP commP unitP invP symP bilP aeP assocQ commQ unitQ invQ symQ bilQ aeQ (combine gs hs) zip_graph p H) as [s [Ls [E C]]].
  rewrite zip_fst in E. rewrite zip_snd in C. rewrite zip_len in Ls. exists s. auto.
Qed.
Lemma Q_to_P q : ClQ (fun h => In h hs) q -> exists s, length s = length gs /\ q = prodQ s hs /\ ClP (fun g => In g gs) (prodP s gs).
Proof.
  intros H. set (zs' := combine hs gs).
  assert (F : map fst zs' = hs) by (unfold zs'; apply fst_combine; symmetry; exact same_len).
  assert (S : map snd zs' = gs) by (unfold zs'; apply snd_combine; symmetry; exact same_len).
  assert (G : forall x y, In x zs' -> In y zs' -> antiQ (fst x) (fst y) = antiP (snd x) (snd y)).
  { intros x y Hx Hy. unfold zs' in *. apply (In_nth _ _ (eQ, eP)) in Hx. apply (In_nth _ _ (eQ, eP)) in Hy.
    destruct Hx as [i [Hi <-]], Hy as [j [Hj <-]]. rewrite combine_length, same_len, Nat.min_id in Hi, Hj.
    rewrite !combine_nth by (symmetry; exact same_len). cbn [fst snd]. symmetry. apply same_graph; rewrite same_len; assumption. }
  rewrite <- F in H.
  destruct (transfer Q P mulQ mulP antiQ antiP eQ eP assocQ commQ unitQ invQ symQ bilQ aeQ assocP commP unitP invP symP bilP aeP zs' G q H) as [s [Ls [E C]]].
  rewrite F in E. rewrite S in C. exists s. split; [|auto]. rewrite Ls. unfold zs'. rewrite combine_length, same_len. apply Nat.min_id.
Qed.

(* an enumeration of the second closure is carried to an enumeration of the first one of the same length *)
Lemma NoDup_map_on' {A B} (f : A -> B) l : (forall x y, In x l -> In y l -> f x = f y -> x = y) -> NoDup l -> NoDup (map f l).
Proof.
  induction l as [|a l IH]; intros Hinj Hnd; [constructor|]. inversion Hnd as [|? ? Hna Hnd']; subst. cbn [map]. constructor.
  - intros Hin. apply in_map_iff in Hin. destruct Hin as [x [E Hx]]. apply Hna. rewrite <- (Hinj x a (or_intror Hx) (or_introl eq_refl) E). exact Hx.
  - apply IH; [|exact Hnd']. intros x y Hx Hy. apply Hinj; right; assumption.
Qed.
(* the correspondence "same selection" between the two closures *)
Definition Rel (q : Q) (p : P) : Prop := exists s, length s = length gs /\ q = prodQ s hs /\ p = prodP s gs.
Theorem same_graph_same_size (LQ : list Q) : NoDup LQ -> (forall q, In q LQ <-> ClQ (fun h => In h hs) q) ->
  exists LP, NoDup LP /\ (forall p, In p LP <-> ClP (fun g => In g gs) p) /\ length LP = length LQ.
Proof.
  intros ND HL.
  assert (EX : forall l, (forall q, In q l -> ClQ (fun h => In h hs) q) -> exists l', Forall2 Rel l l').
  { induction l as [|q l IH]; intros H; [exists []; constructor|]. destruct (IH (fun x Hx => H x (or_intror Hx))) as [l' F].
    destruct (Q_to_P q (H q (or_introl eq_refl))) as [s [Ls [Es _]]]. exists (prodP s gs :: l'). constructor; [exists s; auto|exact F]. }
  destruct (EX LQ (fun q Hq => proj1 (HL q) Hq)) as [LP F]. exists LP.
  assert (InL : forall p, In p LP -> exists q, In q LQ /\ Rel q p).
  { clear -F. induction F as [|q p l l' R _ IH]; intros x []. - subst. exists q. split; [left; reflexivity|exact R].
    - destruct (IH x H) as [q' [Hq' R']]. exists q'. split; [right; exact Hq'|exact R']. }
  assert (InR : forall q, In q LQ -> exists p, In p LP /\ Rel q p).
  { clear -F. induction F as [|q p l l' R _ IH]; intros x []. - subst. exists p. split; [left; reflexivity|exact R].
    - destruct (IH x H) as [p' [Hp' R']]. exists p'. split; [right; exact Hp'|exact R']. }
  split; [|split].
  - (* NoDup: Rel is injective from right to left *)
    assert (Inj : forall q q' p, Rel q p -> Rel q' p -> q = q').
    { intros q q' p [s [Ls [Eq Ep]]] [t [Lt [Eq' Ep']]]. subst. f_equal. apply indepP; congruence. }
    clear InL InR HL EX. induction F as [|q p l l' R F IH]; [constructor|]. inversion ND as [|? ? Hn ND']; subst. constructor; [|apply IH; exact ND'].
    intros Hin. apply Hn. clear IH ND ND' Hn. induction F as [|q2 p2 l2 l2' R2 _ IH2]; [destruct Hin|]. destruct Hin as [->|Hin].
    + left. apply (Inj q2 q p R2 R).
    + right. apply IH2. exact Hin.
  - intros p. split.
    + intros Hp. destruct (InL p Hp) as [q [Hq [s [Ls [Eq Ep]]]]]. apply HL in Hq. destruct (Q_to_P q Hq) as [t [Lt [Et C]]].
      assert (s = t) by (apply indepQ; congruence). subst. exact C.
    + intros Hp. destruct (P_to_Q p Hp) as [s [Ls [Es C]]]. apply HL in C. destruct (InR _ C) as [p' [Hp' [t [Lt [Eq Ep]]]]].
      assert (s = t) by (apply indepQ; congruence). subst. exact Hp'.
  - clear -F. induction F as [|q p l l' _ _ IH]; [reflexivity|]. cbn. f_equal. exact IH.
Qed.
End Count.

(* ---------- at the symplectic core (any numbers of qubits on the two sides) ---------- *)
From PauLie Require Import Pauli Sym SymT ClSym.
Lemma s_mul_e a : mul pid a = a.
Proof. unfold mul, pid. destruct a as [x z]. cbn [fst snd]. rewrite !N.lxor_0_l. reflexivity. Qed.
Lemma s_mul_inv a : mul a a = pid.
Proof. unfold mul, pid. rewrite !N.lxor_nilpotent. reflexivity. Qed.
Lemma s_anti_e a : anti a pid = false.
Proof. unfold anti, pid. cbn [fst snd]. rewrite !N.land_0_r. reflexivity. Qed.
Definition sprod := prod P mul pid.
(* independence of a generating list: different selections have different products *)
Definition independent (gs : list P) : Prop :=
  forall s t, length s = length gs -> length t = length gs -> sprod s gs = sprod t gs -> s = t.
Definition same_pattern (gs hs : list P) : Prop :=
  length gs = length hs /\ forall i j, (i < length gs)%nat -> (j < length gs)%nat -> anti (nth i gs pid) (nth j gs pid) = anti (nth i hs pid) (nth j hs pid).

(* every member of the closure is the product of a selection of generators, and the same selection of any other list
   with the same anticommutation pattern lies in that list's closure (no independence needed) *)
Theorem closure_by_selections gs hs p : same_pattern gs hs -> ClS (fun g => In g gs) p ->
  exists s, length s = length gs /\ p = sprod s gs /\ ClS (fun h => In h hs) (sprod s hs).
Proof.
  intros [HL HP] H.
  apply (P_to_Q P P mul mul anti anti pid pid mul_assoc mul_comm s_mul_e s_mul_inv anti_sym anti_mul_r s_anti_e
           mul_assoc mul_comm s_mul_e s_mul_inv anti_sym anti_mul_r s_anti_e gs hs HL HP p H).
Qed.
(* with independent generators on both sides the two closures have the same number of elements *)
Theorem graph_determines_size gs hs : same_pattern gs hs -> independent gs -> independent hs ->
  forall LQ, NoDup LQ -> (forall q, In q LQ <-> ClS (fun h => In h hs) q) ->
  exists LP, NoDup LP /\ (forall p, In p LP <-> ClS (fun g => In g gs) p) /\ length LP = length LQ.
Proof.
  intros [HL HP] Ig Ih LQ ND HQ.
  apply (same_graph_same_size P P mul mul anti anti pid pid mul_assoc mul_comm s_mul_e s_mul_inv anti_sym anti_mul_r s_anti_e
           mul_assoc mul_comm s_mul_e s_mul_inv anti_sym anti_mul_r s_anti_e gs hs HL HP Ig Ih LQ ND HQ).
Qed.
