(* Theory/SymT.v — group laws of the symplectic core and the bridge to letters. *)
From PauLie Require Import Pauli Sym.
From Coq Require Import Lia.
Open Scope N_scope.
Lemma npar_double n : npar (N.double n) = npar n. Proof. destruct n; reflexivity. Qed.
Lemma npar_sdouble n : npar (N.succ_double n) = negb (npar n). Proof. destruct n; reflexivity. Qed.
Lemma ppar_lxor p q : npar (Pos.lxor p q) = xorb (ppar p) (ppar q).
Proof.
  revert q; induction p as [p IH|p IH|]; intros [q|q|]; cbn [Pos.lxor ppar];
    rewrite ?npar_double, ?npar_sdouble, ?IH; cbn [npar ppar].
  all: repeat match goal with |- context[ppar ?x] => destruct (ppar x) end; reflexivity.
Qed.
Lemma npar_lxor a b : npar (N.lxor a b) = xorb (npar a) (npar b).
Proof. destruct a, b; cbn [N.lxor npar]; rewrite ?ppar_lxor, ?xorb_false_r, ?xorb_false_l; reflexivity. Qed.
Lemma land_lxor_distr a b c : N.land a (N.lxor b c) = N.lxor (N.land a b) (N.land a c).
Proof. apply N.bits_inj; intro i. rewrite N.land_spec, !N.lxor_spec, !N.land_spec.
  destruct (N.testbit a i), (N.testbit b i), (N.testbit c i); reflexivity. Qed.
Lemma anti_mul_r a b c : anti a (mul b c) = xorb (anti a b) (anti a c).
Proof. unfold anti, mul; cbn [fst snd]. rewrite !land_lxor_distr, !npar_lxor.
  repeat match goal with |- context[npar ?x] => generalize (npar x); intro end.
  repeat match goal with b : bool |- _ => destruct b end; reflexivity. Qed.
Lemma mul_self a b : mul (mul a b) b = a.
Proof. destruct a, b; unfold mul; cbn [fst snd]. rewrite !N.lxor_assoc, !N.lxor_nilpotent, !N.lxor_0_r. reflexivity. Qed.
Lemma anti_self a : anti a a = false.
Proof. unfold anti. rewrite (N.land_comm (snd a)). apply xorb_nilpotent. Qed.
Lemma mul_assoc a b c : mul (mul a b) c = mul a (mul b c).
Proof. unfold mul; cbn [fst snd]. rewrite !N.lxor_assoc. reflexivity. Qed.
Lemma mul_comm a b : mul a b = mul b a.
Proof. unfold mul. rewrite (N.lxor_comm (fst a)), (N.lxor_comm (snd a)). reflexivity. Qed.
Lemma anti_sym a b : anti a b = anti b a.
Proof. unfold anti. rewrite (N.land_comm (fst a)), (N.land_comm (snd a)). apply xorb_comm. Qed.
Lemma mul_pid_r a : mul a pid = a.
Proof. destruct a; unfold mul, pid; cbn [fst snd]. rewrite !N.lxor_0_r. reflexivity. Qed.
Lemma mul_nilpotent a : mul a a = pid.
Proof. unfold mul, pid. rewrite !N.lxor_nilpotent. reflexivity. Qed.
Lemma P_eq_dec (a b : P) : {a = b} + {a <> b}.
Proof. decide equality; apply N.eq_dec. Qed.
Lemma P_eqb_eq a b : P_eqb a b = true <-> a = b.
Proof. destruct a, b; unfold P_eqb; cbn [fst snd]. rewrite andb_true_iff, !N.eqb_eq. split; [intros [-> ->]; reflexivity|intros [= -> ->]; auto]. Qed.

(* ---------- bridge ---------- *)
Lemma dbl_lxor (x y : bool) a b :
  N.lxor ((if x then N.succ_double else N.double) a) ((if y then N.succ_double else N.double) b)
  = (if xorb x y then N.succ_double else N.double) (N.lxor a b).
Proof. destruct x, y, a, b; cbn; try reflexivity; try (destruct (Pos.lxor _ _); reflexivity). Qed.
Lemma dbl_land_par (x y : bool) a b :
  npar (N.land ((if x then N.succ_double else N.double) a) ((if y then N.succ_double else N.double) b))
  = xorb (x && y) (npar (N.land a b)).
Proof. destruct x, y, a, b; cbn; try reflexivity; destruct (Pos.land _ _) as [|r]; cbn; try reflexivity; destruct (ppar r); reflexivity. Qed.
Lemma xb_pm a b : xb (pm a b) = xorb (xb a) (xb b). Proof. destruct a, b; reflexivity. Qed.
Lemma zb_pm a b : zb (pm a b) = xorb (zb a) (zb b). Proof. destruct a, b; reflexivity. Qed.
Theorem enc_smul p q : length p = length q -> enc (smul p q) = mul (enc p) (enc q).
Proof.
  revert q; induction p as [|a p IH]; intros [|b q] H; try discriminate; [reflexivity|].
  injection H as H. specialize (IH q H). unfold enc, mul in *; cbn [fst snd encx encz smul] in *.
  injection IH as Hx Hz. rewrite !dbl_lxor, xb_pm, zb_pm, Hx, Hz. reflexivity.
Qed.
Theorem enc_anti p q : length p = length q -> anti (enc p) (enc q) = anti_l p q.
Proof.
  revert q; induction p as [|a p IH]; intros [|b q] H; try discriminate; [reflexivity|].
  injection H as H. specialize (IH q H). unfold enc, anti in *; cbn [fst snd encx encz anti_l] in *.
  rewrite !dbl_land_par, <- IH. unfold anti1.
  destruct (xb a), (zb a), (xb b), (zb b), (npar (N.land (encx p) (encz q))), (npar (N.land (encz p) (encx q))); reflexivity.
Qed.
Lemma odd_dbl (x : bool) a : N.odd ((if x then N.succ_double else N.double) a) = x.
Proof. destruct x, a; reflexivity. Qed.
Lemma div2_dbl (x : bool) a : N.div2 ((if x then N.succ_double else N.double) a) = a.
Proof. destruct x, a; reflexivity. Qed.
Theorem dec_enc p : dec (length p) (enc p) = p.
Proof.
  induction p as [|a p IH]; [reflexivity|]. unfold enc in *. cbn [length dec fst snd encx encz].
  rewrite !odd_dbl, !div2_dbl, IH. destruct a; reflexivity.
Qed.
Theorem enc_inj p q : length p = length q -> enc p = enc q -> p = q.
Proof. intros HL HE. rewrite <- (dec_enc p), <- (dec_enc q), HL, HE. reflexivity. Qed.
Lemma dec_length n a : length (dec n a) = n.
Proof. revert a; induction n as [|n IH]; intros a; [reflexivity|]. cbn [dec length]. rewrite IH. reflexivity. Qed.
Lemma enc_identity n : enc (identity n) = pid.
Proof. induction n as [|n IH]; [reflexivity|]. unfold enc, pid, identity in *. cbn [repeat encx encz xb zb].
  injection IH as -> ->. reflexivity. Qed.
