(* Theory/QuadOrthT.v — the members of the model's full quadratic basis are pairwise orthogonal in the trace inner
   product (any two positions of the list) and each has squared norm (number of terms) * 4^n, hence is non-zero (C16). *)
From PauLie Require Import Pauli Matrix MatrixT ParserT InvarT CompilerT Linear LinearT Graph GraphT Quadratic QuadraticT QuadInvT.
From Coq Require Import Lia Permutation.

Section FOP1.
Context {A : Type}.
Lemma FOP_app (R : A -> A -> Prop) l1 l2 : ForallOrdPairs R l1 -> ForallOrdPairs R l2 -> (forall x y, In x l1 -> In y l2 -> R x y) -> ForallOrdPairs R (l1 ++ l2).
Proof.
  induction 1 as [|a l Ha _ IH]; intros H2 Hc; [exact H2|]. cbn [app]. constructor.
  - apply Forall_forall. intros y Hy. apply in_app_or in Hy. destruct Hy as [Hy|Hy]; [rewrite Forall_forall in Ha; apply Ha; exact Hy|apply Hc; [left; reflexivity|exact Hy]].
  - apply IH; [exact H2|]. intros x y Hx Hy. apply Hc; [right; exact Hx|exact Hy].
Qed.
Lemma FOP_filter (R : A -> A -> Prop) (p : A -> bool) l : ForallOrdPairs R l -> ForallOrdPairs R (filter p l).
Proof.
  induction 1 as [|a l Ha _ IH]; cbn [filter]; [constructor|]. destruct (p a); [|exact IH]. constructor; [|exact IH].
  apply Forall_forall. intros y Hy. apply filter_In in Hy. rewrite Forall_forall in Ha. apply Ha. apply Hy.
Qed.
Lemma FOP_NoDup (l : list A) : NoDup l -> ForallOrdPairs (fun x y => x <> y) l.
Proof. induction 1 as [|a l Hn _ IH]; constructor; [|exact IH]. apply Forall_forall. intros y Hy E. subst y. exact (Hn Hy). Qed.
Lemma FOP_weaken (R R' : A -> A -> Prop) l : (forall x y, In x l -> In y l -> R x y -> R' x y) -> ForallOrdPairs R l -> ForallOrdPairs R' l.
Proof.
  intros H F. induction F as [|a l Ha _ IH]; constructor.
  - rewrite Forall_forall in *. intros y Hy. apply H; [left; reflexivity|right; exact Hy|apply Ha; exact Hy].
  - apply IH. intros x y Hx Hy. apply H; right; assumption.
Qed.
End FOP1.
Section FOP2.
Context {A B : Type}.
Lemma FOP_map (R : B -> B -> Prop) (f : A -> B) l : ForallOrdPairs (fun x y => R (f x) (f y)) l -> ForallOrdPairs R (map f l).
Proof.
  induction 1 as [|a l Ha _ IH]; cbn [map]; constructor; [|exact IH].
  apply Forall_forall. intros y Hy. apply in_map_iff in Hy. destruct Hy as [x [<- Hx]]. rewrite Forall_forall in Ha. apply Ha. exact Hx.
Qed.
Lemma FOP_flat_map (R : B -> B -> Prop) (f : A -> list B) l :
  (forall x, In x l -> ForallOrdPairs R (f x)) ->
  ForallOrdPairs (fun x y => forall a b, In a (f x) -> In b (f y) -> R a b) l -> ForallOrdPairs R (flat_map f l).
Proof.
  intros H1 H2. induction H2 as [|a l Ha _ IH]; cbn [flat_map]; [constructor|]. apply FOP_app.
  - apply H1. left. reflexivity.
  - apply IH. intros x Hx. apply H1. right. exact Hx.
  - intros x y Hx Hy. apply in_flat_map in Hy. destruct Hy as [c [Hc Hy]]. rewrite Forall_forall in Ha. apply (Ha c Hc x y Hx Hy).
Qed.
End FOP2.


(* classes of a duplicate-free partition are pairwise disjoint *)
Lemma concat_disjoint {A} : forall (cs : list (list A)), NoDup (concat cs) ->
  ForallOrdPairs (fun c c' => forall s, In s c -> ~ In s c') cs.
Proof.
  induction cs as [|c rest IH]; intros Hnd; [constructor|]. cbn [concat] in Hnd. constructor.
  - apply Forall_forall. intros c' Hc' s Hs Hs'. revert Hnd Hs. clear IH. induction c as [|a c IHc]; intros Hnd [].
    + subst a. cbn [app] in Hnd. inversion Hnd as [|? ? Hna _]; subst. apply Hna. apply in_or_app. right. apply in_concat. exists c'. split; assumption.
    + cbn [app] in Hnd. inversion Hnd; subst. apply IHc; assumption.
  - apply IH. clear IH. induction c as [|a c IHc]; [exact Hnd|]. cbn [app] in Hnd. inversion Hnd; subst. apply IHc. assumption.
Qed.

Theorem full_basis_orthogonal n G : (forall h, In h G -> length h = n) -> G <> [] ->
  ForallOrdPairs (fun q q' => mtrace (2 * n) (mmul (2 * n) (denote (lherm q)) (denote q')) = g0) (full_basis n G).
Proof.
  intros HG Hne. unfold full_basis. apply FOP_filter. destruct (commutants_spec n G Hne) as [Lspec Lnd].
  unfold commutator_components, comps. set (adj := fun p q => anti_l p q && memG (smul p q) G).
  destruct (components_spec pstr adj (fun x => length x = n) (length (all_strs n)) (all_strs n) (le_n _)) as [P _].
  { intros x Hx. apply all_strs_In. exact Hx. }
  set (cs := components pstr adj (length (all_strs n)) (all_strs n)) in *.
  assert (Hlen : forall C, In C cs -> forall s, In s C -> length s = n).
  { intros C HC s Hs. apply all_strs_In. apply (Permutation_in s P). apply in_concat. exists C. split; assumption. }
  assert (Hnd : NoDup (concat cs)) by (apply (Permutation_NoDup (Permutation_sym P)); apply all_strs_NoDup).
  apply FOP_flat_map.
  - intros C HC. apply FOP_map. apply (FOP_weaken (fun L L' => L <> L')); [|apply FOP_NoDup; exact Lnd].
    intros L L' HL HL' Hd. apply (quadratic_orthogonal n C C L L'); try (apply Hlen; exact HC); try (apply Lspec; assumption). left. exact Hd.
  - apply (FOP_weaken (fun c c' => forall s, In s c -> ~ In s c')); [|apply concat_disjoint; exact Hnd].
    intros C C' HC HC' Hdis a b Ha Hb. apply in_map_iff in Ha, Hb. destruct Ha as [L [<- HL]], Hb as [L' [<- HL']].
    apply (quadratic_orthogonal n C C' L L'); try (apply Hlen; assumption); try (apply Lspec; assumption). right. exact Hdis.
Qed.

(* squared norm: tr(Q^dagger Q) = |C| * 4^n *)
Lemma gsum_single {A} (l : list A) (P : A -> bool) (h : A -> gi) x : NoDup l -> In x l ->
  (forall y, In y l -> (P y = true <-> y = x)) -> gsum l (fun y => if P y then h y else g0) = h x.
Proof.
  induction l as [|a l IH]; intros Hnd Hin HP; [destruct Hin|]. inversion Hnd as [|? ? Hna Hnd']; subst. rewrite gsum_cons.
  destruct Hin as [->|Hin].
  - assert (P x = true) as -> by (apply HP; [left; reflexivity|reflexivity]).
    rewrite (gsum_ext _ _ (fun _ => g0)); [rewrite gsum_zero; gring|]. intros y Hy. destruct (P y) eqn:E; [|reflexivity].
    apply HP in E; [|right; exact Hy]. subst y. contradiction.
  - assert (P a = false) as ->. { destruct (P a) eqn:E; [|reflexivity]. apply HP in E; [|left; reflexivity]. subst a. contradiction. }
    rewrite IH; [gring|exact Hnd'|exact Hin|]. intros y Hy. apply HP. right. exact Hy.
Qed.
Lemma gconj_norm x : gmul (gconj x) x = (gnorm x, 0%Z).
Proof. unfold gnorm. gring. Qed.
Lemma gsum_const {A} (l : list A) c : gsum l (fun _ => c) = gmul (Z.of_nat (length l), 0%Z) c.
Proof. induction l as [|a l IH]; [cbn; gring|]. rewrite gsum_cons, IH. cbn [length]. rewrite Nat2Z.inj_succ. gring. Qed.

Theorem quadratic_norm n C L : (forall s, In s C -> length s = n) -> length L = n -> NoDup C ->
  mtrace (2 * n) (mmul (2 * n) (denote (lherm (quadratic C L))) (denote (quadratic C L))) =
  gmul (two_n (2 * n)) (Z.of_nat (length C), 0%Z).
Proof.
  intros HC HL Hnd. assert (HQ := quadratic_all_n n C L HC HL).
  rewrite (trace_pair (2 * n) _ _ (all_n_herm _ _ HQ) HQ). f_equal.
  unfold lherm, quadratic. rewrite map_map, gsum_map. cbn [fst snd].
  rewrite (gsum_ext _ _ (fun _ => g1)); [rewrite gsum_const; apply gi_eq; unfold gmul, g1; cbn [fst snd]; unfold pstr; lia|]. intros S HS.
  assert (E : coef (map (fun s => (phase L s, s ++ smul L s)) C) (S ++ smul L S) = phase L S).
  { rewrite coef_map. cbn [fst snd]. apply (gsum_single C (fun y => pstr_eqb (S ++ smul L S) (y ++ smul L y)) (fun y => phase L y) S Hnd HS).
    intros y Hy. rewrite pstr_eqb_eq. split; [|intros ->; reflexivity]. intros E. apply app_inj_len in E; [symmetry; apply E|rewrite (HC S HS), (HC y Hy); reflexivity]. }
  rewrite E, gconj_norm, phase_unit. reflexivity.
Qed.
Theorem full_basis_norm n G q : (forall h, In h G -> length h = n) -> In q (full_basis n G) ->
  mtrace (2 * n) (mmul (2 * n) (denote (lherm q)) (denote q)) = gmul (two_n (2 * n)) (Z.of_nat (length q), 0%Z) /\ q <> [].
Proof.
  intros HG Hq. unfold full_basis in Hq. apply filter_In in Hq. destruct Hq as [Hq Hnz].
  apply in_flat_map in Hq. destruct Hq as [C [HC Hq]]. apply in_map_iff in Hq. destruct Hq as [L [<- HL]].
  destruct (component_props n G C HG HC) as [Hlen [Hnd _]].
  assert (LL : length L = n).
  { unfold commutants in HL. destruct G as [|g0 G']; [destruct HL|]. apply fold_filter in HL. destruct HL as [HL _]. apply all_strs_In. exact HL. }
  split.
  - rewrite (quadratic_norm n C L Hlen LL Hnd). unfold quadratic. rewrite map_length. reflexivity.
  - intros E. rewrite E in Hnz. cbn in Hnz. discriminate.
Qed.
