(* Theory/ParserT.v — the sparse-notation parser (C17): round trip, alphabet, sparse expansion, rejections. *)
From PauLie Require Import Pauli Parser.
From Coq Require Import Lia.
Open Scope char_scope.

Lemma gate_char a : is_gate (char_of a) = true /\ gate_of (char_of a) = a /\ (char_of a =? "_") = false /\ (char_of a =? "s") = false.
Proof. destruct a; repeat split. Qed.
Lemma find_s_text p : find_s (to_text p) = None.
Proof. induction p as [|a p IH]; [reflexivity|]. cbn [to_text map find_s]. destruct (gate_char a) as [_ [_ [_ ->]]]. fold (to_text p). rewrite IH. reflexivity. Qed.
Lemma parse_dense fixed : forall q fuel acc, (length q <= fuel)%nat -> parse_ops fixed fuel (to_text q) acc = POk (acc ++ q).
Proof.
  induction q as [|a q IH]; intros fuel acc H.
  - destruct fuel; cbn; rewrite app_nil_r; reflexivity.
  - destruct fuel as [|f]; [cbn in H; lia|]. cbn [to_text map parse_ops]. fold (to_text q).
    destruct (gate_char a) as [G1 [G2 _]]. rewrite G1, G2. cbn [negb].
    assert (R : parse_ops fixed f (to_text q) (acc ++ [a]) = POk (acc ++ a :: q)).
    { rewrite IH by (cbn in H; lia). rewrite <- app_assoc. reflexivity. }
    destruct q as [|b [|c q']]; try exact R.
    cbn [to_text map] in *. destruct (gate_char b) as [_ [_ [-> _]]]. exact R.
Qed.
Theorem roundtrip fixed p : parse_text fixed (to_text p) = POk p.
Proof.
  unfold parse_text. rewrite find_s_text. rewrite parse_dense by (unfold to_text; rewrite map_length; lia). reflexivity.
Qed.

(* ---------- alphabet of accepted texts (repaired parser) ---------- *)
Definition in_alphabet (c : ascii) : bool := is_token c || is_digit c.
Lemma read_number_split : forall l ds r, read_number true l = Some (ds, r) ->
  l = ds ++ r /\ forallb is_digit ds = true /\ (r = [] \/ exists c r', r = c :: r' /\ is_token c = true).
Proof.
  induction l as [|c t IH]; intros ds r H; cbn [read_number] in H.
  - injection H as <- <-. repeat split. left. reflexivity.
  - destruct (is_token c) eqn:ET.
    + injection H as <- <-. repeat split. right. exists c, t. split; [reflexivity|exact ET].
    + unfold is_number in H. destruct (is_digit c) eqn:ED; [|rewrite ET in H; discriminate].
      destruct (read_number true t) as [[ds' r']|] eqn:ER; [|discriminate]. injection H as <- <-.
      destruct (IH ds' r' eq_refl) as [A [B C]]. subst t. repeat split; [cbn; rewrite ED, B; reflexivity|exact C].
Qed.
Lemma digits_alpha ds : forallb is_digit ds = true -> forallb in_alphabet ds = true.
Proof. intros H. apply forallb_forall. intros c Hc. rewrite forallb_forall in H. unfold in_alphabet. rewrite (H c Hc). apply orb_true_r. Qed.
Lemma gate_alpha c : is_gate c = true -> in_alphabet c = true.
Proof. intros H. unfold in_alphabet, is_token. rewrite H. reflexivity. Qed.
Lemma parse_ops_alpha : forall fuel l acc p, parse_ops true fuel l acc = POk p -> forallb in_alphabet l = true.
Proof.
  induction fuel as [|f IH]; intros l acc p H; cbn [parse_ops] in H.
  - destruct l; [reflexivity|discriminate].
  - destruct l as [|c rest]; [reflexivity|]. destruct (is_gate c) eqn:EG; [|discriminate]. cbn [negb] in H.
    cbn [forallb]. rewrite (gate_alpha c EG). cbn [andb].
    destruct rest as [|u [|v r2']].
    + reflexivity.
    + eapply IH. exact H.
    + destruct (u =? "_") eqn:EU; [|eapply IH; exact H].
      destruct (read_number true (v :: r2')) as [[ds r3]|] eqn:ER; [|discriminate].
      destruct (to_int true ds); [|discriminate]. destruct (_ <? 0)%Z; [discriminate|].
      destruct (read_number_split _ _ _ ER) as [E [D _]]. apply IH in H.
      apply Ascii.eqb_eq in EU. subst u.
      change (forallb in_alphabet ("_" :: v :: r2')) with (in_alphabet "_" && forallb in_alphabet (v :: r2')).
      rewrite E. rewrite forallb_app, (digits_alpha ds D), H. reflexivity.
Qed.
Lemma find_s_split : forall l a b, find_s l = Some (a, b) -> l = a ++ "s" :: b.
Proof.
  induction l as [|c t IH]; intros a b H; [discriminate|]. cbn [find_s] in H. destruct (c =? "s") eqn:E.
  - injection H as <- <-. apply Ascii.eqb_eq in E. subst. reflexivity.
  - destruct (find_s t) as [[a' b']|]; [|discriminate]. injection H as <- <-. rewrite (IH a' b' eq_refl). reflexivity.
Qed.
Lemma digits_val_digits : forall l acc n, digits_val acc l = Some n -> forallb is_digit l = true.
Proof.
  induction l as [|c t IH]; intros acc n H; [reflexivity|]. cbn [digits_val] in H. cbn [forallb]. unfold is_digit.
  destruct (digit_val c); [|discriminate]. cbn. eapply IH. exact H.
Qed.
Theorem accepted_alphabet t p : parse_text true t = POk p -> forallb in_alphabet t = true.
Proof.
  unfold parse_text. destruct (find_s t) as [[a b]|] eqn:EF.
  - destruct b as [|b0 b']; [discriminate|]. unfold to_int, to_int_fixed.
    destruct (digits_val 0 (b0 :: b')) as [n|] eqn:ED; cbn [option_map]; [|discriminate].
    destruct (parse_ops true (length a) a []) as [q|] eqn:EP; [|discriminate]. intros _.
    rewrite (find_s_split _ _ _ EF), forallb_app.
    change (forallb in_alphabet ("s" :: b0 :: b')) with (in_alphabet "s" && forallb in_alphabet (b0 :: b')).
    rewrite (parse_ops_alpha _ _ _ _ EP), (digits_alpha _ (digits_val_digits _ _ _ ED)). reflexivity.
  - destruct (parse_ops true (length t) t []) as [q|] eqn:EP; [|discriminate]. intros _. eapply parse_ops_alpha. exact EP.
Qed.

(* ---------- rejections ---------- *)
Theorem reject_non_gate fixed f c rest acc : is_gate c = false -> parse_ops fixed (S f) (c :: rest) acc = PErr.
Proof. intros H. cbn [parse_ops]. rewrite H. reflexivity. Qed.
(* a letter, an underscore, and then no number: end of text or a token follows *)
Theorem reject_missing_number_end fixed f c acc : parse_ops fixed (S (S f)) [c; "_"] acc = PErr.
Proof. cbn [parse_ops]. destruct (is_gate c); reflexivity. Qed.
Theorem reject_missing_number fixed f c g r acc : is_token g = true -> parse_ops fixed (S f) (c :: "_" :: g :: r) acc = PErr.
Proof.
  intros H. cbn [parse_ops]. destruct (is_gate c); [|reflexivity]. cbn [negb]. cbn [Ascii.eqb Bool.eqb andb read_number]. rewrite H.
  unfold to_int, to_int_fixed, py_int. destruct fixed; reflexivity.
Qed.
(* a position that does not exceed the number of letters already placed *)
Theorem reject_order f c ds r3 acc v r2 pos :
  is_gate c = true -> r2 = v :: ds ++ r3 -> read_number true r2 = Some (v :: ds, r3) ->
  to_int true (v :: ds) = Some pos -> (pos <= Z.of_nat (length acc))%Z ->
  parse_ops true (S f) (c :: "_" :: r2) acc = PErr.
Proof.
  intros G -> R T L. cbn [parse_ops]. rewrite G. cbn [negb]. cbn [Ascii.eqb Bool.eqb andb]. rewrite R, T.
  assert ((pos - Z.of_nat (length acc) - 1 <? 0)%Z = true) as -> by lia. reflexivity.
Qed.
Theorem reject_small_size a b z p :
  find_s (a ++ "s" :: b) = Some (a, b) -> b <> [] -> to_int true b = Some z ->
  parse_ops true (length a) a [] = POk p -> (z < Z.of_nat (length p))%Z -> parse_text true (a ++ "s" :: b) = PErr.
Proof.
  intros F NB T Pa L. unfold parse_text. rewrite F. destruct b as [|b0 b']; [congruence|]. rewrite T, Pa.
  assert ((z <? Z.of_nat (length p))%Z = true) as -> by lia. reflexivity.
Qed.
Theorem reject_trailing_s a : find_s (a ++ ["s"]) = Some (a, []) -> parse_text true (a ++ ["s"]) = PErr.
Proof. intros F. unfold parse_text. rewrite F. reflexivity. Qed.

(* ---------- sparse notation ---------- *)
Inductive item := Dense (a : pl) | At (ds : list ascii) (a : pl).
Definition render_item (it : item) : list ascii :=
  match it with Dense a => [char_of a] | At ds a => char_of a :: "_" :: ds end.
Definition render (items : list item) : list ascii := flat_map render_item items.
(* the dense string a specification denotes: letters at their 1-based positions, identity elsewhere;
   None when a position does not exceed the number of letters already placed *)
Fixpoint expand (acc : pstr) (items : list item) : option pstr :=
  match items with
  | [] => Some acc
  | Dense a :: t => expand (acc ++ [a]) t
  | At ds a :: t =>
    match digits_val 0 ds with
    | Some pos => if (Z.of_N pos - Z.of_nat (length acc) - 1 <? 0)%Z then None
                  else expand (acc ++ identity (Z.to_nat (Z.of_N pos - Z.of_nat (length acc) - 1)) ++ [a]) t
    | None => None
    end
  end.
Definition wf_item (it : item) : Prop :=
  match it with Dense _ => True | At ds _ => ds <> [] /\ forallb is_digit ds = true end.

Lemma digit_not_token c : is_digit c = true -> is_token c = false.
Proof.
  unfold is_digit, digit_val. destruct c as [b0 b1 b2 b3 b4 b5 b6 b7].
  destruct b0, b1, b2, b3, b4, b5, b6, b7; cbn; congruence.
Qed.
Lemma digits_val_total : forall ds acc, forallb is_digit ds = true -> exists n, digits_val acc ds = Some n.
Proof.
  induction ds as [|c t IH]; intros acc H; [exists acc; reflexivity|]. cbn [forallb] in H. apply andb_true_iff in H. destruct H as [H1 H2].
  cbn [digits_val]. unfold is_digit in H1. destruct (digit_val c); [|discriminate]. apply IH. exact H2.
Qed.
Lemma render_head_token items : render items = [] \/ exists c r, render items = c :: r /\ is_token c = true /\ (c =? "_") = false.
Proof.
  destruct items as [|[a|ds a] t]; [left; reflexivity| |]; right; cbn [render flat_map render_item app].
  - exists (char_of a), (render t). destruct a; repeat split.
  - exists (char_of a), ("_" :: ds ++ render t). destruct a; repeat split.
Qed.
Lemma read_number_digits : forall ds r, forallb is_digit ds = true ->
  (r = [] \/ exists c r', r = c :: r' /\ is_token c = true) -> read_number true (ds ++ r) = Some (ds, r).
Proof.
  induction ds as [|c t IH]; intros r H Hr.
  - cbn [app]. destruct Hr as [->|[c [r' [-> Hc]]]]; [reflexivity|]. cbn [read_number]. rewrite Hc. reflexivity.
  - cbn [forallb] in H. apply andb_true_iff in H. destruct H as [H1 H2]. cbn [app read_number].
    rewrite (digit_not_token c H1). unfold is_number. rewrite H1. rewrite (IH r H2 Hr). reflexivity.
Qed.

Theorem parse_sparse : forall items acc fuel, Forall wf_item items -> (length (render items) <= fuel)%nat ->
  parse_ops true fuel (render items) acc = match expand acc items with Some p => POk p | None => PErr end.
Proof.
  induction items as [|it t IH]; intros acc fuel HW HF.
  - destruct fuel; reflexivity.
  - inversion HW as [|? ? Hit HW']; subst. destruct it as [a|ds a].
    + (* dense letter *)
      cbn [render flat_map render_item app] in *. fold (render t) in *.
      destruct fuel as [|f]; [cbn in HF; lia|]. cbn [parse_ops]. destruct (gate_char a) as [G1 [G2 _]]. rewrite G1, G2. cbn [negb expand].
      assert (R : parse_ops true f (render t) (acc ++ [a]) = match expand (acc ++ [a]) t with Some p => POk p | None => PErr end).
      { apply IH; [exact HW'|cbn in HF; lia]. }
      destruct (render_head_token t) as [E|[c [r [E [_ Hc]]]]]; rewrite E in *; [exact R|].
      destruct r as [|v r']; [exact R|]. rewrite Hc. exact R.
    + (* positioned letter *)
      destruct Hit as [Hne Hd]. destruct ds as [|d0 ds']; [congruence|].
      cbn [render flat_map render_item app] in *. fold (render t) in *.
      destruct fuel as [|f]; [cbn in HF; lia|]. cbn [parse_ops]. destruct (gate_char a) as [G1 [G2 _]]. rewrite G1, G2. cbn [negb].
      cbn [Ascii.eqb Bool.eqb andb].
      change (d0 :: ds' ++ render t) with ((d0 :: ds') ++ render t).
      rewrite (read_number_digits (d0 :: ds') (render t) Hd).
      2:{ destruct (render_head_token t) as [E|[c [r [E [Hc _]]]]]; [left; exact E|right; exists c, r; split; assumption]. }
      cbn [expand]. unfold to_int, to_int_fixed.
      destruct (digits_val_total (d0 :: ds') 0%N Hd) as [pos Hp]. rewrite Hp. cbn [option_map].
      destruct (Z.of_N pos - Z.of_nat (length acc) - 1 <? 0)%Z; [reflexivity|].
      apply IH; [exact HW'|]. cbn [length] in HF. rewrite app_length in HF. cbn [length] in HF. lia.
Qed.

Lemma find_s_none l : forallb (fun c => negb (c =? "s")) l = true -> find_s l = None.
Proof. induction l as [|c t IH]; [reflexivity|]. cbn [forallb find_s]. intros H. apply andb_true_iff in H. destruct H as [H1 H2].
  destruct (c =? "s"); [discriminate|]. rewrite IH by exact H2. reflexivity. Qed.
Lemma find_s_app l b : forallb (fun c => negb (c =? "s")) l = true -> find_s (l ++ "s" :: b) = Some (l, b).
Proof. induction l as [|c t IH]; [reflexivity|]. cbn [forallb app find_s]. intros H. apply andb_true_iff in H. destruct H as [H1 H2].
  destruct (c =? "s"); [discriminate|]. rewrite IH by exact H2. reflexivity. Qed.
Lemma digit_not_s c : is_digit c = true -> negb (c =? "s") = true.
Proof. intros H. pose proof (digit_not_token c H) as T. unfold is_token in T. destruct (c =? "s"); [rewrite orb_true_r in T; discriminate|reflexivity]. Qed.
Lemma render_no_s items : Forall wf_item items -> forallb (fun c => negb (c =? "s")) (render items) = true.
Proof.
  induction 1 as [|it t Hit _ IH]; [reflexivity|]. cbn [render flat_map]. fold (render t). rewrite forallb_app, IH, andb_true_r.
  destruct it as [a|ds a]; cbn [render_item forallb].
  - destruct a; reflexivity.
  - destruct Hit as [_ Hd]. assert (forallb (fun c => negb (c =? "s")) ds = true) as ->.
    { apply forallb_forall. intros c Hc. apply digit_not_s. rewrite forallb_forall in Hd. auto. }
    destruct a; reflexivity.
Qed.

(* the whole notation: items, optionally followed by 's' and a size *)
Theorem sparse_no_size items : Forall wf_item items ->
  parse_text true (render items) = match expand [] items with Some p => POk p | None => PErr end.
Proof.
  intros HW. unfold parse_text. rewrite (find_s_none _ (render_no_s items HW)). rewrite (parse_sparse items [] _ HW (le_n _)).
  destruct (expand [] items); reflexivity.
Qed.
Theorem sparse_with_size items sz : Forall wf_item items -> sz <> [] -> forallb is_digit sz = true ->
  parse_text true (render items ++ "s" :: sz) =
  match expand [] items, digits_val 0 sz with
  | Some p, Some n => if (Z.of_N n <? Z.of_nat (length p))%Z then PErr else POk (p ++ identity (Z.to_nat (Z.of_N n) - length p))
  | _, _ => PErr
  end.
Proof.
  intros HW Hne Hd. unfold parse_text. rewrite (find_s_app _ sz (render_no_s items HW)).
  destruct sz as [|s0 sz']; [congruence|]. unfold to_int, to_int_fixed.
  destruct (digits_val_total (s0 :: sz') 0%N Hd) as [n Hn]. rewrite Hn. cbn [option_map].
  rewrite (parse_sparse items [] _ HW (le_n _)). destruct (expand [] items); reflexivity.
Qed.

(* enough fuel: the result does not depend on the fuel once it covers the text (termination of the loops) *)
Lemma read_number_shorter fixed : forall l ds r, read_number fixed l = Some (ds, r) -> (length r <= length l)%nat.
Proof.
  induction l as [|c t IH]; intros ds r H; cbn [read_number] in H.
  - injection H as <- <-. cbn. lia.
  - destruct (is_token c); [injection H as <- <-; lia|]. destruct (is_number fixed c) as [[|]|]; try discriminate.
    destruct (read_number fixed t) as [[ds' r']|] eqn:E; [|discriminate]. injection H as <- <-. specialize (IH _ _ eq_refl). cbn. lia.
Qed.
Theorem fuel_enough fixed : forall fuel l acc, (length l <= fuel)%nat ->
  parse_ops fixed fuel l acc = parse_ops fixed (length l) l acc.
Proof.
  intros fuel l. remember (length l) as n eqn:En. revert fuel l En.
  induction n as [n IHn] using lt_wf_ind. intros fuel l En acc HL.
  destruct l as [|c rest].
  - cbn in En. subst n. destruct fuel; reflexivity.
  - cbn [length] in En. destruct n as [|m]; [discriminate|]. injection En as Em. destruct fuel as [|f]; [lia|].
    cbn [parse_ops]. destruct (is_gate c); [|reflexivity]. cbn [negb].
    assert (R : forall acc', parse_ops fixed f rest acc' = parse_ops fixed m rest acc').
    { intros acc'. rewrite (IHn (length rest)) with (fuel := f) by (try reflexivity; lia).
      rewrite (IHn (length rest)) with (fuel := m) by (try reflexivity; lia). reflexivity. }
    destruct rest as [|u [|v r2']]; try apply R.
    destruct (u =? "_"); [|apply R].
    destruct (read_number fixed (v :: r2')) as [[ds r3]|] eqn:ER; [|reflexivity].
    destruct (to_int fixed ds); [|reflexivity]. destruct (_ <? 0)%Z; [reflexivity|].
    pose proof (read_number_shorter fixed _ _ _ ER) as HS. cbn [length] in *.
    rewrite (IHn (length r3)) with (fuel := f) by (try reflexivity; lia).
    rewrite (IHn (length r3)) with (fuel := m) by (try reflexivity; lia). reflexivity.
Qed.

(* ---------- k-local expansion ---------- *)
Lemma pl_eqb_eq a b : pl_eqb a b = true <-> a = b.
Proof. destruct a, b; cbn; split; congruence. Qed.
Lemma pstr_eqb_eq : forall p q, pstr_eqb p q = true <-> p = q.
Proof.
  induction p as [|a p IH]; intros [|b q]; cbn; try (split; congruence).
  rewrite andb_true_iff, pl_eqb_eq, IH. split; [intros [-> ->]; reflexivity|intros [= -> ->]; auto].
Qed.
Lemma memL_In p l : memL p l = true <-> In p l.
Proof.
  unfold memL. rewrite existsb_exists. split.
  - intros [x [Hx E]]. apply pstr_eqb_eq in E. subst. exact Hx.
  - intros H. exists p. split; [exact H|apply pstr_eqb_eq; reflexivity].
Qed.
Definition add_new (st : list pstr * list pstr) (t : pstr) : list pstr * list pstr :=
  if memL t (fst st) then st else (t :: fst st, snd st ++ [t]).
Definition translate (n : nat) (p : pstr) (j : nat) : pstr := identity j ++ p ++ identity (n - length p - j).
Lemma k_local_fold n p : forall cnt k used out,
  k_local n p k cnt used out = fold_left add_new (map (translate n p) (seq k cnt)) (used, out).
Proof.
  induction cnt as [|c IH]; intros k used out; [reflexivity|]. cbn [k_local seq map fold_left]. unfold add_new at 2. cbn [fst snd].
  fold (translate n p k). destruct (memL (translate n p k) used); apply IH.
Qed.
Definition translates_of (n : nat) (p : pstr) : list pstr := map (translate n p) (seq 0 (n - length p + 1)).
Definition padL (m : nat) (g : pstr) : pstr := g ++ identity (m - length g).
Lemma padL_length m g : (length g <= m)%nat -> length (padL m g) = m.
Proof. intros H. unfold padL, identity. rewrite app_length, repeat_length. lia. Qed.
Lemma maxlenL_ge l g : In g l -> (length g <= maxlenL l)%nat.
Proof. induction l as [|a t IH]; [intros []|]. change (maxlenL (a :: t)) with (Nat.max (length a) (maxlenL t)). intros [<-|H]; [lia|]. specialize (IH H). lia. Qed.

(* the expansion is the list of all translates of all (padded) generators, each kept at its first occurrence *)
Theorem klocal_is_dedup_translates n gens : gens <> [] -> (maxlenL gens <= n)%nat ->
  k_local_generators n gens =
  Ok (snd (fold_left add_new (flat_map (fun g => translates_of n (padL (maxlenL gens) g)) gens) ([], []))).
Proof.
  intros Hne Hn. unfold k_local_generators. destruct gens as [|g0 gs] eqn:EG; [congruence|]. rewrite <- EG in *.
  assert (Nat.ltb n (maxlenL gens) = false) as -> by (apply Nat.ltb_ge; exact Hn). f_equal. f_equal.
  set (m := maxlenL gens) in *. assert (HG : forall g, In g gens -> (length g <= m)%nat) by (intros; apply maxlenL_ge; assumption).
  clearbody m. clear EG Hne g0 gs. generalize (@nil pstr, @nil pstr). induction gens as [|g t IH]; intros st; [reflexivity|].
  cbn [fold_left flat_map]. rewrite fold_left_app. rewrite IH by (intros; apply HG; right; assumption).
  f_equal. fold (padL m g). rewrite k_local_fold. unfold translates_of. rewrite padL_length by (apply HG; left; reflexivity).
  destruct st; reflexivity.
Qed.

(* what "kept at its first occurrence" gives: same members, no repetition *)
Definition st_ok (st : list pstr * list pstr) : Prop := (forall x, In x (fst st) <-> In x (snd st)) /\ NoDup (snd st).
Lemma NoDup_snoc (l : list pstr) t : NoDup l -> ~ In t l -> NoDup (l ++ [t]).
Proof.
  intros H1 H2. pose proof (Add_app t l []) as A. rewrite app_nil_r in A. apply (NoDup_Add A). split; assumption.
Qed.
Lemma add_new_ok st t : st_ok st -> st_ok (add_new st t) /\ (forall x, In x (snd (add_new st t)) <-> In x (snd st) \/ x = t).
Proof.
  intros [H1 H2]. unfold add_new. destruct (memL t (fst st)) eqn:E.
  - split; [split; assumption|]. intros x. split; [auto|]. intros [H| ->]; [exact H|]. apply H1. apply memL_In. exact E.
  - cbn [fst snd]. assert (Hn : ~ In t (snd st)).
    { intros Hin. apply H1 in Hin. apply memL_In in Hin. congruence. }
    split; [split|].
    + intros x. cbn [fst snd]. rewrite in_app_iff. cbn [In]. rewrite <- H1. intuition.
    + apply NoDup_snoc; assumption.
    + intros x. rewrite in_app_iff. cbn [In]. intuition.
Qed.
Lemma fold_add_new_ok l : forall st, st_ok st ->
  st_ok (fold_left add_new l st) /\ (forall x, In x (snd (fold_left add_new l st)) <-> In x (snd st) \/ In x l).
Proof.
  induction l as [|t l IH]; intros st Hst; cbn [fold_left].
  - split; [exact Hst|]. intros x. cbn [In]. intuition.
  - destruct (add_new_ok st t Hst) as [H1 H2]. destruct (IH _ H1) as [H3 H4]. split; [exact H3|].
    intros x. rewrite H4, H2. cbn [In]. intuition.
Qed.
Theorem klocal_members n gens out : gens <> [] -> (maxlenL gens <= n)%nat -> k_local_generators n gens = Ok out ->
  NoDup out /\
  (forall t, In t out <-> exists g j, In g gens /\ (j <= n - maxlenL gens)%nat /\ t = translate n (padL (maxlenL gens) g) j) /\
  (forall t, In t out -> length t = n).
Proof.
  intros Hne Hn H. rewrite (klocal_is_dedup_translates n gens Hne Hn) in H. injection H as <-.
  assert (S0 : st_ok (@nil pstr, @nil pstr)) by (split; [intros x; cbn; tauto|constructor]).
  destruct (fold_add_new_ok (flat_map (fun g => translates_of n (padL (maxlenL gens) g)) gens) _ S0) as [[_ ND] M].
  assert (Mem : forall t, In t (snd (fold_left add_new (flat_map (fun g => translates_of n (padL (maxlenL gens) g)) gens) ([], []))) <->
                exists g j, In g gens /\ (j <= n - maxlenL gens)%nat /\ t = translate n (padL (maxlenL gens) g) j).
  { intros t. rewrite M. cbn [snd In]. rewrite in_flat_map. split.
    - intros [F|[g [Hg Ht]]]; [destruct F|]. unfold translates_of in Ht. apply in_map_iff in Ht. destruct Ht as [j [<- Hj]].
      apply in_seq in Hj. rewrite padL_length in Hj by (apply maxlenL_ge; exact Hg). exists g, j. repeat split; [exact Hg|lia].
    - intros [g [j [Hg [Hj ->]]]]. right. exists g. split; [exact Hg|]. unfold translates_of. apply in_map. apply in_seq.
      rewrite padL_length by (apply maxlenL_ge; exact Hg). lia. }
  split; [exact ND|]. split; [exact Mem|].
  intros t Ht. apply Mem in Ht. destruct Ht as [g [j [Hg [Hj ->]]]]. unfold translate, identity.
  rewrite !app_length, !repeat_length, padL_length by (apply maxlenL_ge; exact Hg). lia.
Qed.
