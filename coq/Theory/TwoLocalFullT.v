(* Theory/TwoLocalFullT.v — two-local families whose algebra is su(2^n): once the translates generate every
   non-identity string at some n0 >= 2 they do so at every n >= n0 (one more qubit at a time, Theory/ExtendT.v);
   the base cases are computed with the verified closure.  Covers a12, a17, a18, a19, a21, a22, b4 of the table (C19). *)
From PauLie Require Import Pauli Sym SymT ClT ClSym Matrix MatrixT InvarT Parser ParserT Compiler CompilerT Linear LinearT
  Graph GraphT QuadraticT QuadInvT UniversalT ExtendT ClosureN ClosureT LeftFullT Families.
From Coq Require Import Lia.

(* the translates of two-letter generators along an open chain of n qubits *)
Definition TL (n : nat) (gens : list pstr) : pstr -> Prop :=
  fun t => exists g j, In g gens /\ (j <= n - 2)%nat /\ t = translate n g j.
Definition full_at (n : nat) (gens : list pstr) : Prop :=
  forall p, length p = n -> p <> identity n -> ClL (TL n gens) p.

Section Step.
Variable gens : list pstr.
Hypothesis Hlen : forall g, In g gens -> length g = 2%nat.
Variables (a1 l1 a2 l2 : pl).
Hypothesis Hg1 : In [a1; l1] gens.
Hypothesis Hg2 : In [a2; l2] gens.
Hypothesis Ha1 : a1 <> PI.
Hypothesis Ha2 : a2 <> PI.
Hypothesis Hl1 : l1 <> PI.
Hypothesis Hl2 : l2 <> PI.
Hypothesis Hl12 : l1 <> l2.

Lemma TL_len n t : (2 <= n)%nat -> TL n gens t -> length t = n.
Proof.
  intros Hn [g [j [Hg [Hj ->]]]]. unfold translate. rewrite !app_length, !identity_length, (Hlen g Hg). lia.
Qed.
Lemma last_not_id n a : (1 <= n)%nat -> a <> PI -> identity (n - 1) ++ [a] <> identity n.
Proof.
  intros Hn Ha E. replace n with (S (n - 1)) in E at 2 by lia. rewrite identity_snoc in E. apply app_inv_head in E. congruence.
Qed.
Theorem twolocal_step n : (2 <= n)%nat -> full_at n gens -> full_at (S n) gens.
Proof.
  intros Hn Hfull p Lp Np.
  apply (clL_mono (Gext2 (TL n gens) (identity (n - 1) ++ [a1]) (identity (n - 1) ++ [a2]) l1 l2)).
  - intros q [[h [[g [j [Hg [Hj ->]]]] ->]]|[->| ->]].
    + exists g, j. split; [exact Hg|]. split; [lia|]. unfold translate. rewrite (Hlen g Hg), <- !app_assoc.
      replace (S n - 2 - j)%nat with (S (n - 2 - j)) by lia. rewrite identity_snoc. reflexivity.
    + exists [a1; l1], (n - 1)%nat. split; [exact Hg1|]. split; [lia|]. unfold translate. cbn [length].
      replace (S n - 2 - (n - 1))%nat with 0%nat by lia. rewrite <- app_assoc. reflexivity.
    + exists [a2; l2], (n - 1)%nat. split; [exact Hg2|]. split; [lia|]. unfold translate. cbn [length].
      replace (S n - 2 - (n - 1))%nat with 0%nat by lia. rewrite <- app_assoc. reflexivity.
  - assert (Lw : forall a, length (identity (n - 1) ++ [a]) = n) by (intros a; rewrite app_length, identity_length; cbn [length]; lia).
    apply (extend2_full n (TL n gens)); try assumption; try apply Lw; try (apply last_not_id; [lia|assumption]).
    intros h Hh. apply TL_len; assumption.
Qed.
Theorem twolocal_full_from n0 : (2 <= n0)%nat -> full_at n0 gens -> forall n, (n0 <= n)%nat -> full_at n gens.
Proof.
  intros Hn0 H0 n Hn. replace n with (n0 + (n - n0))%nat by lia. generalize (n - n0)%nat as d. induction d as [|d IH].
  - rewrite Nat.add_0_r. exact H0.
  - replace (n0 + S d)%nat with (S (n0 + d)) by lia. apply twolocal_step; [lia|exact IH].
Qed.
End Step.

(* base cases: the verified closure contains every non-identity string *)
Definition full_check (n : nat) (gens : list pstr) : bool :=
  match k_local_generators n gens with
  | Ok out => match closure_strs n out with
              | Some L => forallb (fun p => is_identity p || memL p L) (all_strs n)
              | None => false
              end
  | ValueError => false
  end.
Lemma maxlen2 gens : gens <> [] -> (forall g, In g gens -> length g = 2%nat) -> maxlenL gens = 2%nat.
Proof.
  intros Hne Hl. induction gens as [|g gens IH]; [congruence|]. cbn [maxlenL fold_right]. fold (maxlenL gens). rewrite (Hl g (or_introl eq_refl)).
  destruct gens as [|g' gens']; [reflexivity|]. rewrite IH; [reflexivity|discriminate|intros x Hx; apply Hl; right; exact Hx].
Qed.
Theorem klocal_is_TL n gens out : gens <> [] -> (forall g, In g gens -> length g = 2%nat) -> (2 <= n)%nat ->
  k_local_generators n gens = Ok out -> forall t, In t out <-> TL n gens t.
Proof.
  intros Hne Hl Hn HK t. assert (M2 := maxlen2 gens Hne Hl).
  destruct (klocal_members n gens out Hne ltac:(lia) HK) as [_ [Mem _]]. rewrite (Mem t), M2. unfold TL.
  split; intros [g [j [Hg [Hj E]]]]; exists g, j; (split; [exact Hg|]); (split; [exact Hj|]); rewrite E; unfold padL; rewrite (Hl g Hg); cbn [Nat.sub identity repeat]; rewrite app_nil_r; reflexivity.
Qed.
Theorem full_check_sound n gens : gens <> [] -> (forall g, In g gens -> length g = 2%nat) -> (2 <= n)%nat ->
  full_check n gens = true -> full_at n gens.
Proof.
  intros Hne Hl Hn HC p Lp Np. unfold full_check in HC. destruct (k_local_generators n gens) as [out|] eqn:HK; [|discriminate].
  destruct (closure_strs n out) as [L|] eqn:HCl; [|discriminate]. rewrite forallb_forall in HC.
  assert (Hin : In p (all_strs n)) by (apply all_strs_In; exact Lp). specialize (HC p Hin).
  assert (Hid : is_identity p = false).
  { destruct (is_identity p) eqn:E; [|reflexivity]. exfalso. apply Np. rewrite <- Lp. apply is_identity_iff. exact E. }
  rewrite Hid in HC. cbn [orb] in HC. apply memL_In in HC.
  apply (closure_strs_spec n out L HCl p Lp) in HC.
  assert (Lout : forall g, In g out -> length g = n).
  { intros g Hg. apply (klocal_is_TL n gens out Hne Hl Hn HK) in Hg. destruct Hg as [g0 [j [Hg0 [Hj ->]]]]. unfold translate. rewrite !app_length, !identity_length, (Hl g0 Hg0). lia. }
  apply (clL_mono (fun g => In g out)); [intros g Hg; apply (klocal_is_TL n gens out Hne Hl Hn HK); exact Hg|].
  apply (ClL_enc n (fun g => In g out) Lout p Lp). unfold ClS. revert HC. apply cl_ext. intros a. unfold image. rewrite in_map_iff. split.
  - intros [g [Hg E]]. exists g. split; [symmetry; exact E|exact Hg].
  - intros [g [E Hg]]. exists g. split; [exact Hg|symmetry; exact E].
Qed.

Lemma cl_nonid n (G : pstr -> Prop) : (forall g, G g -> length g = n /\ g <> identity n) ->
  forall p, ClL G p -> length p = n /\ p <> identity n.
Proof.
  intros HG p. induction 1 as [g Hg|a b _ [La Na] _ [Lb Nb] Hab]; [apply HG; exact Hg|].
  split; [rewrite smul_length; congruence|]. rewrite <- Lb. apply smul_not_id; [congruence|exact Hab].
Qed.
Lemma translate_not_id n g j : length g = 2%nat -> (j <= n - 2)%nat -> (2 <= n)%nat -> g <> identity 2 -> translate n g j <> identity n.
Proof.
  intros Lg Hj Hn Ng E. unfold translate in E. rewrite Lg in E.
  replace (identity n) with (identity j ++ identity 2 ++ identity (n - 2 - j)) in E by (unfold identity; rewrite <- !repeat_app; f_equal; lia).
  apply app_inv_head in E. apply app_inj_len in E; [|rewrite Lg; reflexivity]. apply Ng. apply E.
Qed.

(* a family of two-letter generators, two of them with non-identity first letters and different non-identity last
   letters, that is full at n0: its translates generate exactly the non-identity strings at every n >= n0 *)
Theorem family_su gens a1 l1 a2 l2 n0 : (forall g, In g gens -> length g = 2%nat /\ g <> identity 2) ->
  In [a1; l1] gens -> In [a2; l2] gens -> a1 <> PI -> a2 <> PI -> l1 <> PI -> l2 <> PI -> l1 <> l2 ->
  (2 <= n0)%nat -> full_check n0 gens = true ->
  forall n out, (n0 <= n)%nat -> k_local_generators n gens = Ok out ->
  forall p, ClL (fun g => In g out) p <-> (length p = n /\ p <> identity n).
Proof.
  intros Hg H1 H2 Ha1 Ha2 Hl1 Hl2 Hl12 Hn0 HC n out Hn HK p.
  assert (Hne : gens <> []) by (intros E; rewrite E in H1; destruct H1).
  assert (Hl : forall g, In g gens -> length g = 2%nat) by (intros g Hgg; apply Hg; exact Hgg).
  assert (TLeq := klocal_is_TL n gens out Hne Hl ltac:(lia) HK).
  split.
  - apply cl_nonid. intros g Hgo. apply TLeq in Hgo. split; [apply (TL_len gens Hl n g); [lia|exact Hgo]|].
    destruct Hgo as [g0 [j [Hg0 [Hj ->]]]]. apply translate_not_id; [apply Hl; exact Hg0|exact Hj|lia|apply Hg; exact Hg0].
  - intros [Lp Np]. apply (clL_mono (TL n gens)); [intros g Hgt; apply TLeq; exact Hgt|].
    apply (twolocal_full_from gens Hl a1 l1 a2 l2 H1 H2 Ha1 Ha2 Hl1 Hl2 Hl12 n0 Hn0 (full_check_sound n0 gens Hne Hl Hn0 HC) n Hn); assumption.
Qed.

Ltac fam_tac gens l2 n0 :=
  intros n out Hn HK; apply (family_su gens PX PX PX l2 n0) with (n := n); try exact HK; try exact Hn; try discriminate; try lia;
  [intros g Hg; cbn [In] in Hg; repeat (destruct Hg as [<-|Hg]; [split; [reflexivity|discriminate]|]); destruct Hg
  |cbn; tauto|cbn; tauto|vm_compute; reflexivity].
Theorem a12_su : forall n out, (4 <= n)%nat -> k_local_generators n fam_a12 = Ok out -> forall p, ClL (fun g => In g out) p <-> (length p = n /\ p <> identity n).
Proof. fam_tac fam_a12 PY 4%nat. Qed.
Theorem a17_su : forall n out, (4 <= n)%nat -> k_local_generators n fam_a17 = Ok out -> forall p, ClL (fun g => In g out) p <-> (length p = n /\ p <> identity n).
Proof. fam_tac fam_a17 PY 4%nat. Qed.
Theorem a18_su : forall n out, (3 <= n)%nat -> k_local_generators n fam_a18 = Ok out -> forall p, ClL (fun g => In g out) p <-> (length p = n /\ p <> identity n).
Proof. fam_tac fam_a18 PZ 3%nat. Qed.
Theorem a19_su : forall n out, (3 <= n)%nat -> k_local_generators n fam_a19 = Ok out -> forall p, ClL (fun g => In g out) p <-> (length p = n /\ p <> identity n).
Proof. fam_tac fam_a19 PY 3%nat. Qed.
Theorem a21_su : forall n out, (3 <= n)%nat -> k_local_generators n fam_a21 = Ok out -> forall p, ClL (fun g => In g out) p <-> (length p = n /\ p <> identity n).
Proof. fam_tac fam_a21 PY 3%nat. Qed.
Theorem a22_su : forall n out, (3 <= n)%nat -> k_local_generators n fam_a22 = Ok out -> forall p, ClL (fun g => In g out) p <-> (length p = n /\ p <> identity n).
Proof. fam_tac fam_a22 PY 3%nat. Qed.

