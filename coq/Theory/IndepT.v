(* Theory/IndepT.v — the optimiser's contractions keep an independent generator list independent, hence its strings
   pairwise distinct and different from the identity (C20: "a set of ... distinct strings"). *)
From Coq Require Import List Bool Lia Arith NArith.
Import ListNotations.
From PauLie Require Import Pauli Sym SymT ClT ClSym Optimise OptimiseT GraphDetT.
Open Scope nat_scope.

Notation sp := (prod P mul pid).
Lemma sp_xor gs s t : length s = length gs -> length t = length gs -> sprod (bxor s t) gs = mul (sprod s gs) (sprod t gs).
Proof. apply (prod_xor P mul pid mul_assoc mul_comm s_mul_e s_mul_inv). Qed.
Lemma mul_pid_r a : mul a pid = a.
Proof. rewrite mul_comm. apply s_mul_e. Qed.
(* changing one generator g_k into g_k . y multiplies the selection product by y exactly when k is selected *)
Lemma sprod_set : forall l k y s, length s = length l -> k < length l ->
  sprod s (set_nthP k (mul (nth k l pid) y) l) = mul (sprod s l) (if nth k s false then y else pid).
Proof.
  induction l as [|g l IH]; intros k y s Ls Hk; [cbn in Hk; lia|]. destruct s as [|b s]; [discriminate|]. injection Ls as Ls.
  destruct k as [|k]; cbn [set_nthP nth].
  - unfold sprod. cbn [prod]. fold (sprod s l). destruct b; [|rewrite mul_pid_r; reflexivity].
    rewrite (mul_assoc g y (sprod s l)), (mul_comm y (sprod s l)), <- mul_assoc. reflexivity.
  - unfold sprod in *. cbn [prod]. cbn [length] in Hk. rewrite (IH k y s Ls ltac:(lia)). destruct b; [rewrite mul_assoc; reflexivity|reflexivity].
Qed.
Definition unitv (m j : nat) : list bool := map (Nat.eqb j) (seq 0 m).
Lemma unitv_length m j : length (unitv m j) = m.
Proof. unfold unitv. rewrite map_length, seq_length. reflexivity. Qed.
Lemma unitv_nth m j k : k < m -> nth k (unitv m j) false = Nat.eqb j k.
Proof. intros H. unfold unitv. rewrite (nth_indep _ false (Nat.eqb j 0)) by (rewrite map_length, seq_length; exact H). rewrite map_nth, seq_nth by exact H. reflexivity. Qed.
Lemma sprod_unit_gen : forall l off j, sprod (map (Nat.eqb j) (seq off (length l))) l = if (off <=? j) && (j <? off + length l) then nth (j - off) l pid else pid.
Proof.
  induction l as [|g l IH]; intros off j; cbn [length seq map]; [unfold sprod; cbn [prod nth]; destruct ((off <=? j) && (j <? off + 0)); [destruct (j - off); reflexivity|reflexivity]|].
  unfold sprod in *. cbn [prod]. rewrite (IH (S off) j). destruct (Nat.eqb_spec j off) as [->|Hne].
  - rewrite Nat.leb_refl. replace (off <? off + S (length l)) with true by (symmetry; apply Nat.ltb_lt; lia). rewrite Nat.sub_diag. cbn [nth andb].
    replace (S off <=? off) with false by (symmetry; apply Nat.leb_gt; lia). cbn [andb]. apply mul_pid_r.
  - destruct (off <=? j) eqn:E1.
    + apply Nat.leb_le in E1. replace (S off <=? j) with true by (symmetry; apply Nat.leb_le; lia).
      replace (j <? off + S (length l)) with (j <? S off + length l) by (f_equal; lia). destruct (j <? S off + length l); cbn [andb]; [|reflexivity].
      replace (j - off) with (S (j - S off)) by lia. reflexivity.
    + apply Nat.leb_gt in E1. replace (S off <=? j) with false by (symmetry; apply Nat.leb_gt; lia). reflexivity.
Qed.
Lemma sprod_unit l j : j < length l -> sprod (unitv (length l) j) l = nth j l pid.
Proof. intros H. unfold unitv. rewrite (sprod_unit_gen l 0 j). cbn [Nat.leb andb]. replace (j <? 0 + length l) with true by (symmetry; apply Nat.ltb_lt; lia). rewrite Nat.sub_0_r. reflexivity. Qed.
Lemma bxor_nth : forall s t k, length s = length t -> nth k (bxor s t) false = xorb (nth k s false) (nth k t false).
Proof. induction s as [|a s IH]; intros [|b t] k H; try discriminate; [destruct k; reflexivity|]. injection H as H. destruct k; cbn; [reflexivity|apply IH; exact H]. Qed.
Lemma bxor_cancel : forall s t u, length s = length u -> length t = length u -> bxor s u = bxor t u -> s = t.
Proof.
  induction s as [|a s IH]; intros [|b t] [|c u] Hs Ht E; try discriminate; [reflexivity|]. cbn in E. injection E as E1 E2. injection Hs as Hs. injection Ht as Ht.
  f_equal; [destruct a, b, c; cbn in E1; congruence|apply (IH t u Hs Ht E2)].
Qed.
Lemma zeros_sprod l : sprod (repeat false (length l)) l = pid.
Proof. induction l as [|g l IH]; [reflexivity|]. unfold sprod in *. cbn. exact IH. Qed.
Lemma zeros_nth m k : nth k (repeat false m) false = false.
Proof. revert k; induction m; intros [|k]; cbn; auto. Qed.

Theorem contract_keeps_independent l k j y : independent l -> k < length l -> j < length l -> j <> k -> y = nth j l pid ->
  independent (set_nthP k (mul (nth k l pid) y) l).
Proof.
  intros Ind Hk Hj Hjk Hy s t Ls Lt E. rewrite set_nthP_length in Ls, Lt.
  rewrite !sprod_set in E by assumption.
  set (mask := fun (b : bool) => if b then unitv (length l) j else repeat false (length l)).
  assert (Lm : forall b, length (mask b) = length l) by (intros [|]; unfold mask; [apply unitv_length|apply repeat_length]).
  assert (Pm : forall b, sprod (mask b) l = if b then y else pid).
  { intros [|]; unfold mask; [rewrite Hy; apply sprod_unit; exact Hj|apply zeros_sprod]. }
  assert (Km : forall b, nth k (mask b) false = false).
  { intros [|]; unfold mask; [rewrite unitv_nth by exact Hk; apply Nat.eqb_neq; exact Hjk|apply zeros_nth]. }
  rewrite <- !Pm, <- !sp_xor in E by (rewrite ?Lm; congruence).
  apply Ind in E; [|rewrite bxor_length; rewrite ?Lm; congruence|rewrite bxor_length; rewrite ?Lm; congruence].
  (* the k-th bits agree, so the masks agree, so s = t *)
  assert (Ek : nth k s false = nth k t false).
  { assert (F := f_equal (fun v => nth k v false) E). cbn beta in F. rewrite !bxor_nth, !Km in F by (rewrite ?Lm; congruence).
    destruct (nth k s false), (nth k t false); cbn in F; congruence. }
  rewrite Ek in E. apply (bxor_cancel s t (mask (nth k t false))); rewrite ?Lm; congruence.
Qed.

Lemma findP_nth : forall l a k, findP a l = Some k -> k < length l /\ nth k l pid = a.
Proof.
  induction l as [|b t IH]; intros a k H; [discriminate|]. cbn [findP] in H. destruct (P_eqb a b) eqn:E.
  - injection H as <-. apply P_eqb_eq in E. subst. split; [cbn; lia|reflexivity].
  - destruct (findP a t) as [k'|] eqn:EF; [|discriminate]. injection H as <-. destruct (IH a k' EF) as [H1 H2]. split; [cbn; lia|exact H2].
Qed.
Theorem contract1_independent l xy : independent l -> independent (contract1 l xy).
Proof.
  intros Ind. destruct xy as [x y]. unfold contract1. destruct (memPl x l && memPl y l && anti x y) eqn:E; [|exact Ind].
  apply andb_true_iff in E. destruct E as [E Ha]. apply andb_true_iff in E. destruct E as [Ex Ey]. apply memPl_In in Ex, Ey.
  destruct (findP x l) as [k|] eqn:EF; [|exact Ind]. destruct (findP_nth l x k EF) as [Hk Hx].
  destruct (In_nth l y pid Ey) as [j [Hj Hy]].
  assert (Hjk : j <> k) by (intros ->; rewrite Hx in Hy; subst y; rewrite anti_self in Ha; discriminate).
  rewrite <- Hx. apply (contract_keeps_independent l k j y Ind Hk Hj Hjk). symmetry. exact Hy.
Qed.
Theorem run_contractions_independent choices : forall l, independent l -> independent (run_contractions l choices).
Proof.
  induction choices as [|xy t IH]; intros l Ind; [exact Ind|]. unfold run_contractions in *. cbn [fold_left]. apply IH. apply contract1_independent. exact Ind.
Qed.
(* independent strings are pairwise distinct and none is the identity *)
Theorem independent_distinct l : independent l -> NoDup l /\ ~ In pid l.
Proof.
  intros Ind. split.
  - (* two equal entries would give two different unit selections with the same product *)
    assert (Hinj : forall i j, i < length l -> j < length l -> nth i l pid = nth j l pid -> i = j).
    { intros i j Hi Hj E. assert (U : unitv (length l) i = unitv (length l) j).
      { apply Ind; [apply unitv_length|apply unitv_length|]. rewrite !sprod_unit by assumption. exact E. }
      assert (F := f_equal (fun v => nth i v false) U). cbn beta in F. rewrite !unitv_nth in F by assumption. rewrite Nat.eqb_refl in F.
      symmetry in F. apply Nat.eqb_eq in F. congruence. }
    apply (NoDup_nth l pid). intros i j Hi Hj E. apply Hinj; assumption.
  - intros Hin. destruct (In_nth l pid pid Hin) as [j [Hj Ej]].
    assert (U : unitv (length l) j = repeat false (length l)).
    { apply Ind; [apply unitv_length|apply repeat_length|]. rewrite sprod_unit by exact Hj. rewrite zeros_sprod. exact Ej. }
    assert (F := f_equal (fun v => nth j v false) U). cbn beta in F. rewrite unitv_nth, zeros_nth, Nat.eqb_refl in F by exact Hj. discriminate.
Qed.
