(* Theory/MinGenT.v — an F2-independent list of at least three Pauli strings never generates its whole span (a
   quadratic form vanishes on some product), hence a list generating all 4^n - 1 non-identity strings on n >= 2 qubits
   has at least 2n+1 members: the lower bound of C20 / C07. *)
From Coq Require Import List Bool Lia Arith NArith.
Import ListNotations.
From PauLie Require Import Pauli Sym SymT ClT ClSym Optimise OptimiseT GraphDetT IndepT.
Open Scope nat_scope.

(* the quadratic form with value 1 on every generator, on selections *)
Fixpoint qsel (s : list bool) (gs : list P) : bool :=
  match s, gs with
  | b :: s', g :: gs' => if b then negb (xorb (qsel s' gs') (anti g (sprod s' gs'))) else qsel s' gs'
  | _, _ => false
  end.
Lemma sprod_cons b s g gs : sprod (b :: s) (g :: gs) = if b then mul g (sprod s gs) else sprod s gs.
Proof. reflexivity. Qed.
Lemma qsel_xor : forall gs s t, length s = length gs -> length t = length gs ->
  qsel (bxor s t) gs = xorb (xorb (qsel s gs) (qsel t gs)) (anti (sprod s gs) (sprod t gs)).
Proof.
  induction gs as [|g gs IH]; intros [|a s] [|b t] Hs Ht; try discriminate; [vm_compute; reflexivity|].
  injection Hs as Hs. injection Ht as Ht. cbn [bxor qsel]. rewrite !sprod_cons. assert (I := IH s t Hs Ht). assert (X := sp_xor gs s t Hs Ht).
  set (S := sprod s gs) in *. set (T := sprod t gs) in *. set (qs := qsel s gs) in *. set (qt := qsel t gs) in *.
  assert (AL : forall a b c, anti (mul a b) c = xorb (anti a c) (anti b c)) by (intros; rewrite anti_sym, anti_mul_r, (anti_sym c a0), (anti_sym c b0); reflexivity).
  destruct a, b; cbn [xorb]; rewrite ?I, ?X.
  - rewrite AL, !anti_mul_r, anti_self, (anti_sym S g). destruct qs, qt, (anti S T), (anti g S), (anti g T); reflexivity.
  - rewrite AL, !anti_mul_r. destruct qs, qt, (anti S T), (anti g S), (anti g T); reflexivity.
  - rewrite !anti_mul_r, (anti_sym S g). destruct qs, qt, (anti S T), (anti g S), (anti g T); reflexivity.
  - reflexivity.
Qed.
Lemma qsel_unit_gen : forall l off j, qsel (map (Nat.eqb j) (seq off (length l))) l = (off <=? j) && (j <? off + length l).
Proof.
  induction l as [|g l IH]; intros off j; cbn [length seq map qsel]; [destruct (Nat.leb_spec off j) as [H|H]; cbn [andb]; [symmetry; apply Nat.ltb_ge; lia|reflexivity]|].
  rewrite (IH (S off) j). destruct (Nat.eqb_spec j off) as [->|Hne].
  - rewrite (sprod_unit_gen l (S off) off). replace (S off <=? off) with false by (symmetry; apply Nat.leb_gt; lia). cbn [andb]. rewrite s_anti_e.
    rewrite Nat.leb_refl. symmetry. apply Nat.ltb_lt. lia.
  - destruct (off <=? j) eqn:E1.
    + apply Nat.leb_le in E1. replace (S off <=? j) with true by (symmetry; apply Nat.leb_le; lia). cbn [andb]. f_equal. lia.
    + apply Nat.leb_gt in E1. replace (S off <=? j) with false by (symmetry; apply Nat.leb_gt; lia). reflexivity.
Qed.
Lemma qsel_unit l j : j < length l -> qsel (unitv (length l) j) l = true.
Proof. intros H. unfold unitv. rewrite qsel_unit_gen. cbn [Nat.leb andb]. apply Nat.ltb_lt. lia. Qed.

(* every closure member is the product of a selection on which the form is 1 *)
Lemma cl_qsel gs p : ClS (fun g => In g gs) p -> exists s, length s = length gs /\ p = sprod s gs /\ qsel s gs = true.
Proof.
  induction 1 as [g Hg|a b _ [s [Ls [Ea Qa]]] _ [t [Lt [Eb Qb]]] Hab].
  - destruct (In_nth gs g pid Hg) as [j [Hj Ej]]. exists (unitv (length gs) j). split; [apply unitv_length|]. split; [rewrite sprod_unit by exact Hj; symmetry; exact Ej|apply qsel_unit; exact Hj].
  - exists (bxor s t). split; [rewrite bxor_length; congruence|]. split; [rewrite sp_xor by assumption; congruence|].
    rewrite qsel_xor by assumption. rewrite Qa, Qb, <- Ea, <- Eb, Hab. reflexivity.
Qed.

(* a selection of two commuting generators, or of three pairwise anticommuting ones, has form 0 *)
Theorem independent_never_full gs : independent gs -> 3 <= length gs ->
  exists u, length u = length gs /\ sprod u gs <> pid /\ ~ ClS (fun g => In g gs) (sprod u gs).
Proof.
  intros Ind Hm. set (m := length gs). assert (Em : length gs = m) by reflexivity.
  assert (U : forall j, j < m -> length (unitv m j) = m /\ sprod (unitv m j) gs = nth j gs pid /\ qsel (unitv m j) gs = true).
  { intros j Hj. split; [apply unitv_length|]. split; [apply sprod_unit; exact Hj|apply qsel_unit; exact Hj]. }
  destruct (U 0 ltac:(unfold m; lia)) as [L0 [P0 Q0]], (U 1 ltac:(unfold m; lia)) as [L1 [P1 Q1]], (U 2 ltac:(unfold m; lia)) as [L2 [P2 Q2]].
  set (g0 := nth 0 gs pid) in *. set (g1 := nth 1 gs pid) in *. set (g2 := nth 2 gs pid) in *.
  assert (L01 : length (bxor (unitv m 0) (unitv m 1)) = m) by (rewrite bxor_length; congruence).
  (* a selection u with qsel u = false and a true bit *)
  assert (Ex : exists u, length u = m /\ qsel u gs = false /\ exists k, k < m /\ nth k u false = true).
  { destruct (anti g0 g1) eqn:A01.
    - destruct (anti g0 g2) eqn:A02.
      + destruct (anti g1 g2) eqn:A12.
        * exists (bxor (bxor (unitv m 0) (unitv m 1)) (unitv m 2)). split; [rewrite bxor_length; congruence|]. split.
          -- rewrite qsel_xor by congruence. rewrite qsel_xor by congruence. rewrite sp_xor by congruence.
             rewrite Q0, Q1, Q2, P0, P1, P2. rewrite (anti_sym (mul g0 g1) g2), anti_mul_r, (anti_sym g2 g0), (anti_sym g2 g1), A01, A02, A12. reflexivity.
          -- exists 0. split; [unfold m; lia|]. rewrite bxor_nth by congruence. rewrite bxor_nth by congruence. rewrite !unitv_nth by (unfold m; lia). reflexivity.
        * exists (bxor (unitv m 1) (unitv m 2)). split; [rewrite bxor_length; congruence|]. split.
          -- rewrite qsel_xor by congruence. rewrite Q1, Q2, P1, P2, A12. reflexivity.
          -- exists 1. split; [unfold m; lia|]. rewrite bxor_nth by congruence. rewrite !unitv_nth by (unfold m; lia). reflexivity.
      + exists (bxor (unitv m 0) (unitv m 2)). split; [rewrite bxor_length; congruence|]. split.
        * rewrite qsel_xor by congruence. rewrite Q0, Q2, P0, P2, A02. reflexivity.
        * exists 0. split; [unfold m; lia|]. rewrite bxor_nth by congruence. rewrite !unitv_nth by (unfold m; lia). reflexivity.
    - exists (bxor (unitv m 0) (unitv m 1)). split; [rewrite bxor_length; congruence|]. split.
      + rewrite qsel_xor by congruence. rewrite Q0, Q1, P0, P1, A01. reflexivity.
      + exists 0. split; [unfold m; lia|]. rewrite bxor_nth by congruence. rewrite !unitv_nth by (unfold m; lia). reflexivity. }
  destruct Ex as [u [Lu [Qu [k [Hk Bk]]]]]. exists u. split; [exact Lu|]. split.
  - intros E. assert (Z : u = repeat false m) by (apply Ind; [exact Lu|apply repeat_length|rewrite E; symmetry; apply zeros_sprod]).
    rewrite Z, zeros_nth in Bk. discriminate.
  - intros HC. destruct (cl_qsel gs _ HC) as [s [Ls [Es Qs]]]. assert (u = s) by (apply Ind; congruence). subst s. congruence.
Qed.

(* ---------- counting: a generating list of su(2^n) has at least 2n+1 members ---------- *)
From PauLie Require Import ClosureGen ClosureN ClosureT Graph GraphT CensusT.
Lemma sels_length m : length (sels m) = 2 ^ m.
Proof. induction m as [|m IH]; [reflexivity|]. cbn [sels]. rewrite app_length, !map_length, IH. cbn [Nat.pow]. lia. Qed.
Lemma all_strs_length n : length (all_strs n) = 4 ^ n.
Proof.
  induction n as [|n IH]; [reflexivity|].
  change (all_strs (S n)) with (map (cons PI) (all_strs n) ++ map (cons PZ) (all_strs n) ++ map (cons PX) (all_strs n) ++ map (cons PY) (all_strs n) ++ []).
  rewrite !app_length, !map_length. cbn [Nat.pow length]. unfold pstr in *. lia.
Qed.
Lemma NoDup_map_inv' {A B} (f : A -> B) l : NoDup (map f l) -> forall x y, In x l -> In y l -> f x = f y -> x = y.
Proof.
  induction l as [|a l IH]; intros H x y Hx Hy E; [destruct Hx|]. cbn [map] in H. inversion H as [|? ? Hn Hnd]; subst.
  destruct Hx as [<-|Hx], Hy as [<-|Hy]; [reflexivity| | |apply IH; assumption].
  - exfalso. apply Hn. rewrite E. apply in_map. exact Hy.
  - exfalso. apply Hn. rewrite <- E. apply in_map. exact Hx.
Qed.
Lemma sprod_DN n l : (forall g, In g l -> DN n g) -> forall s, DN n (sprod s l).
Proof.
  intros Hl. assert (Dp : DN n pid) by (split; cbn; apply N.neq_0_lt_0; apply N.pow_nonzero; discriminate).
  induction l as [|g l IH]; intros s; [destruct s; exact Dp|]. destruct s as [|b s]; [exact Dp|]. rewrite sprod_cons.
  assert (IH' := IH (fun x Hx => Hl x (or_intror Hx)) s). destruct b; [apply DN_mul; [apply Hl; left; reflexivity|exact IH']|exact IH'].
Qed.
Theorem min_generators n l : 2 <= n -> (forall g, In g l -> DN (N.of_nat n) g) ->
  (forall p, DN (N.of_nat n) p -> p <> pid -> ClS (fun g => In g l) p) -> 2 * n + 1 <= length l.
Proof.
  intros Hn Hl Hfull. set (m := length l).
  set (I := map (fun s => sprod s l) (sels m)). set (U := map enc (all_strs n)).
  assert (LI : length I = 2 ^ m) by (unfold I; rewrite map_length; apply sels_length).
  assert (LU : length U = 4 ^ n) by (unfold U; rewrite map_length; apply all_strs_length).
  assert (NU : NoDup U).
  { unfold U. apply NoDup_map_on'; [|apply all_strs_NoDup]. intros x y Hx Hy E. apply all_strs_In in Hx, Hy. apply enc_inj; congruence. }
  assert (Inc : incl U I).
  { intros a Ha. unfold U in Ha. apply in_map_iff in Ha. destruct Ha as [p [<- Hp]]. apply all_strs_In in Hp.
    assert (Da : DN (N.of_nat n) (enc p)) by (rewrite <- Hp; apply enc_DN).
    unfold I. apply in_map_iff. destruct (P_eq_dec (enc p) pid) as [E|Ne].
    - exists (repeat false m). split; [rewrite E; apply zeros_sprod|apply sels_all; apply repeat_length].
    - destruct (cl_qsel l _ (Hfull _ Da Ne)) as [s [Ls [Es _]]]. exists s. split; [symmetry; exact Es|apply sels_all; exact Ls]. }
  assert (Card : 4 ^ n <= 2 ^ m) by (rewrite <- LU, <- LI; apply NoDup_incl_length; assumption).
  assert (P4 : 4 ^ n = 2 ^ (2 * n)) by (rewrite Nat.pow_mul_r; reflexivity).
  destruct (le_lt_dec (2 * n + 1) m) as [Hok|Hlt]; [exact Hok|exfalso].
  assert (Hm : m = 2 * n).
  { assert (2 * n <= m); [|lia]. apply (Nat.pow_le_mono_r_iff 2); [lia|]. rewrite <- P4. exact Card. }
  (* then the selection products are pairwise different: the list is independent, which is impossible *)
  assert (NI : NoDup I) by (apply (NoDup_incl_NoDup NU); [rewrite LI, LU, P4, Hm; lia|exact Inc]).
  assert (Ind : independent l).
  { intros s t Ls Lt E. apply (NoDup_map_inv' (fun s => sprod s l) (sels m) NI); [apply sels_all; exact Ls|apply sels_all; exact Lt|exact E]. }
  destruct (independent_never_full l Ind ltac:(fold m; lia)) as [u [Lu [Nu Hu]]].
  apply Hu. apply Hfull; [apply sprod_DN; exact Hl|exact Nu].
Qed.

(* the same for strings: no list of fewer than 2N+1 strings generates all non-identity strings on N >= 2 qubits *)
From PauLie Require Import InvarT.
Theorem min_generators_strs N (G : list pstr) : 2 <= N -> (forall g, In g G -> length g = N) ->
  (forall p, length p = N -> p <> identity N -> ClL (fun g => In g G) p) -> 2 * N + 1 <= length G.
Proof.
  intros HN HL Hfull. rewrite <- (map_length enc G). apply (min_generators N (map enc G) HN).
  - intros a Ha. apply in_map_iff in Ha. destruct Ha as [g [<- Hg]]. rewrite <- (HL g Hg). apply enc_DN.
  - intros a Da Na. set (p := dec N a). assert (Lp : length p = N) by apply dec_length. assert (Ep : enc p = a) by (apply enc_dec; exact Da).
    assert (Np : p <> identity N) by (intros E; apply Na; rewrite <- Ep, E; apply enc_identity).
    assert (C := Hfull p Lp Np). apply (ClL_enc N (fun g => In g G) HL p Lp) in C. rewrite Ep in C. revert C. apply s_ext.
    intros b. unfold image. rewrite in_map_iff. split.
    + intros [g [E Hg]]. exists g. split; [exact Hg|symmetry; exact E].
    + intros [g [Hg E]]. exists g. split; [symmetry; exact E|exact Hg].
Qed.
