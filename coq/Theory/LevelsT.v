(* Theory/LevelsT.v — the level-by-level BFS of average_graph_complexity labels every vertex of the orbit of v with
   its shortest-path distance from v in the commutator graph, each vertex once (C15, graph-complexity clause). *)
From PauLie Require Import Pauli Sym SymT ClT ClSym Orbit OtocGen OrbitT GraphT.
From Coq Require Import Lia Permutation.

Section L.
Variable G : list P.
Variable v : P.
(* walks from v: path k t = t is reached from v by k commutations with generators *)
Inductive path : nat -> P -> Prop :=
| path_0 : path 0 v
| path_S k t x : path k t -> In x (nbrs G t) -> path (S k) x.
Definition dist (t : P) (k : nat) : Prop := path k t /\ forall j, path j t -> (k <= j)%nat.

Lemma path_orbit k t : path k t -> OrbL G v t.
Proof. induction 1 as [|k t x _ IH Hx]; [constructor|]. apply nbrs_In in Hx. destruct Hx as [g [Hg [Ha ->]]]. econstructor; eassumption. Qed.
Lemma orbit_path t : OrbL G v t -> exists k, path k t.
Proof. induction 1 as [|t g _ [k IH] Hg Ha]; [exists 0%nat; constructor|]. exists (S k). apply (path_S k t); [exact IH|]. apply nbrs_In. exists g. tauto. Qed.

(* the de-duplicating fold that builds the next frontier *)
Definition nextf (seen cands nx0 : list P) : list P :=
  fold_left (fun nx c => if memO c seen || memO c nx then nx else nx ++ [c]) cands nx0.
Lemma nextf_spec seen : forall cands nx0, NoDup nx0 -> (forall x, In x nx0 -> ~ In x seen) ->
  NoDup (nextf seen cands nx0) /\ (forall x, In x (nextf seen cands nx0) <-> In x nx0 \/ (In x cands /\ ~ In x seen)).
Proof.
  induction cands as [|c cands IH]; intros nx0 Hnd Hdis; cbn [nextf fold_left].
  - split; [exact Hnd|]. intros x. split; [intros H; left; exact H|intros [H|[[] _]]; exact H].
  - fold (nextf seen cands (if memO c seen || memO c nx0 then nx0 else nx0 ++ [c])).
    destruct (memO c seen) eqn:Es; cbn [orb].
    + apply memO_In in Es. destruct (IH nx0 Hnd Hdis) as [N S]. split; [exact N|]. intros x. rewrite S. split.
      * intros [H|[H1 H2]]; [left; exact H|right; split; [right; exact H1|exact H2]].
      * intros [H|[[<-|H1] H2]]; [left; exact H|contradiction|right; split; assumption].
    + apply memO_false in Es. destruct (memO c nx0) eqn:En.
      * apply memO_In in En. destruct (IH nx0 Hnd Hdis) as [N S]. split; [exact N|]. intros x. rewrite S. split.
        -- intros [H|[H1 H2]]; [left; exact H|right; split; [right; exact H1|exact H2]].
        -- intros [H|[[<-|H1] H2]]; [left; exact H|left; exact En|right; split; assumption].
      * apply memO_false in En. destruct (IH (nx0 ++ [c])) as [N S].
        -- apply NoDup_app_intro; [exact Hnd|constructor; [intros []|constructor]|]. intros x Hx [<-|[]]. exact (En Hx).
        -- intros x Hx. apply in_app_or in Hx. destruct Hx as [Hx|[<-|[]]]; [apply Hdis; exact Hx|exact Es].
        -- split; [exact N|]. intros x. rewrite S, in_app_iff. cbn [In]. split.
           ++ intros [[H|[<-|[]]]|[H1 H2]]; [left; exact H|right; split; [left; reflexivity|exact Es]|right; split; [right; exact H1|exact H2]].
           ++ intros [H|[[<-|H1] H2]]; [left; left; exact H|left; right; left; reflexivity|right; split; assumption].
Qed.

Definition LInv (frontier seen : list P) (d : nat) (acc : list (P * nat)) : Prop :=
  (forall t, In t frontier <-> In (t, d) acc) /\
  (forall t k, path k t -> (k <= d)%nat -> In t seen) /\
  (forall t, In t seen -> exists k, In (t, k) acc) /\
  (forall t k, In (t, k) acc -> (k <= d)%nat /\ dist t k) /\
  (forall t k, In (t, k) acc -> In t seen) /\
  NoDup (map fst acc).

Lemma levels_inv : forall fuel frontier seen d acc l, LInv frontier seen d acc ->
  levels G fuel frontier seen d acc = Some l ->
  (forall t k, In (t, k) l <-> dist t k) /\ NoDup (map fst l) /\ (forall j t, path j t -> exists k, In (t, k) l).
Proof.
  induction fuel as [|f IH]; intros frontier seen d acc l [I1 [I2 [I3 [I4 [I5 I6]]]]] H; [discriminate|]. cbn [levels] in H.
  destruct frontier as [|f0 fr].
  - injection H as <-.
    assert (Hall : forall j t, path j t -> In t seen).
    { induction 1 as [|j t x Hp IHp Hx]; [apply (I2 v 0%nat); [constructor|lia]|].
      destruct (I3 t IHp) as [k' Hk']. destruct (I4 t k' Hk') as [Hle [Hpk _]].
      destruct (Nat.eq_dec k' d) as [->|Hne]; [apply I1 in Hk'; destruct Hk'|].
      apply (I2 x (S k')); [apply (path_S k' t); assumption|lia]. }
    split; [|split; [exact I6|intros j t Hp; apply I3; apply (Hall j t Hp)]].
    intros t k. split; [intros Hin; apply (I4 t k Hin)|]. intros [Hp Hmin].
    destruct (I3 t (Hall k t Hp)) as [k' Hk']. destruct (I4 t k' Hk') as [_ [Hp' Hmin']].
    assert (k' = k) as <- by (apply Nat.le_antisymm; [apply Hmin'; exact Hp|apply Hmin; exact Hp']). exact Hk'.
  - set (frontier := f0 :: fr) in *.
    set (next := fold_left (fun nx c => if memO c seen || memO c nx then nx else nx ++ [c]) (flat_map (nbrs G) frontier) []) in *.
    destruct (nextf_spec seen (flat_map (nbrs G) frontier) [] ltac:(constructor) ltac:(intros x [])) as [Nn Sn].
    unfold nextf in Nn, Sn. fold next in Nn, Sn.
    assert (Sn' : forall x, In x next <-> In x (flat_map (nbrs G) frontier) /\ ~ In x seen).
    { intros x. rewrite Sn. split; [intros [[]|Hx]; exact Hx|intros Hx; right; exact Hx]. }
    apply (IH next (seen ++ next) (S d) (acc ++ map (fun c => (c, S d)) next) l); [|exact H]. clear H IH.
    assert (Hnew : forall x, In x next -> dist x (S d)).
    { intros x Hx. apply Sn' in Hx. destruct Hx as [Hx Hns]. apply in_flat_map in Hx. destruct Hx as [t [Ht Hx]].
      apply I1 in Ht. destruct (I4 t d Ht) as [_ [Hp _]]. split; [apply (path_S d t); assumption|].
      intros j Hj. destruct (le_lt_dec j d) as [Hle|Hlt]; [exfalso; apply Hns; apply (I2 x j); assumption|lia]. }
    repeat split.
    + intros Ht. apply in_or_app. right. apply in_map_iff. exists t. split; [reflexivity|exact Ht].
    + intros Ht. apply in_app_or in Ht. destruct Ht as [Ht|Ht]; [destruct (I4 t (S d) Ht); lia|].
      apply in_map_iff in Ht. destruct Ht as [c [E Hc]]. injection E as ->. exact Hc.
    + intros t k Hp Hk. apply in_or_app. destruct (le_lt_dec k d) as [Hle|Hlt]; [left; apply (I2 t k); assumption|].
      assert (k = S d) as -> by lia. inversion Hp as [|k0 u x Hu Hx]; subst.
      assert (Hus : In u seen) by (apply (I2 u d); [exact Hu|lia]).
      destruct (I3 u Hus) as [k' Hk']. destruct (I4 u k' Hk') as [Hle' [Hpk' _]].
      destruct (Nat.eq_dec k' d) as [->|Hne].
      * apply I1 in Hk'. destruct (memO t seen) eqn:Es; [apply memO_In in Es; left; exact Es|apply memO_false in Es].
        right. apply Sn'. split; [|exact Es]. apply in_flat_map. exists u. split; assumption.
      * left. apply (I2 t (S k')); [apply (path_S k' u); assumption|lia].
    + intros t Ht. apply in_app_or in Ht. destruct Ht as [Ht|Ht].
      * destruct (I3 t Ht) as [k Hk]. exists k. apply in_or_app. left. exact Hk.
      * exists (S d). apply in_or_app. right. apply in_map_iff. exists t. split; [reflexivity|exact Ht].
    + apply in_app_or in H. destruct H as [H|H]; [destruct (I4 t k H); lia|].
      apply in_map_iff in H. destruct H as [c [E Hc]]. injection E as -> <-. lia.
    + apply in_app_or in H. destruct H as [H|H]; [apply (I4 t k H)|].
      apply in_map_iff in H. destruct H as [c [E Hc]]. injection E as -> <-. apply Hnew. exact Hc.
    + apply in_app_or in H. destruct H as [H|H]; [apply (I4 t k H)|].
      apply in_map_iff in H. destruct H as [c [E Hc]]. injection E as -> <-. apply Hnew. exact Hc.
    + intros t k Ht. apply in_or_app. apply in_app_or in Ht. destruct Ht as [Ht|Ht]; [left; apply (I5 t k Ht)|].
      apply in_map_iff in Ht. destruct Ht as [c [E Hc]]. injection E as -> <-. right. exact Hc.
    + rewrite map_app, map_map. cbn [fst]. rewrite map_id. apply NoDup_app_intro; [exact I6|exact Nn|].
      intros x Hx Hn. apply in_map_iff in Hx. destruct Hx as [[t k] [<- Htk]]. cbn [fst] in Hn.
      apply Sn' in Hn. destruct Hn as [_ Hns]. apply Hns. apply (I5 t k Htk).
Qed.

(* the labelled list returned by the level BFS: exactly the pairs (t, shortest distance from v to t), t ranging
   over the orbit of v, each vertex once *)
Theorem levels_dist fuel l : levels G fuel [v] [v] 0 [(v, 0%nat)] = Some l ->
  (forall t k, In (t, k) l <-> dist t k) /\ NoDup (map fst l) /\ (forall t, In t (map fst l) <-> OrbL G v t).
Proof.
  intros H. assert (R : (forall t k, In (t, k) l <-> dist t k) /\ NoDup (map fst l) /\ (forall j t, path j t -> exists k, In (t, k) l)).
  { apply (levels_inv fuel [v] [v] 0%nat [(v, 0%nat)] l); [|exact H].
    split; [|split; [|split; [|split; [|split]]]].
    - intros t. split; [intros [<-|[]]; left; reflexivity|intros [E|[]]; injection E as <-; left; reflexivity].
    - intros t k Hp Hk. assert (k = 0%nat) as -> by lia. inversion Hp; subst. left. reflexivity.
    - intros t [<-|[]]. exists 0%nat. left. reflexivity.
    - intros t k [E|[]]. injection E as <- <-. split; [lia|]. split; [constructor|intros j _; lia].
    - intros t k [E|[]]. injection E as <- <-. left. reflexivity.
    - constructor; [intros []|constructor]. }
  destruct R as [R1 [R2 R3]]. split; [exact R1|]. split; [exact R2|]. intros t. split.
  - intros Ht. apply in_map_iff in Ht. destruct Ht as [[t' k] [<- Htk]]. apply R1 in Htk. destruct Htk as [Hp _]. apply (path_orbit k). exact Hp.
  - intros Ho. apply orbit_path in Ho. destruct Ho as [k Hp].
    destruct (R3 k t Hp) as [k' Hk']. apply in_map_iff. exists (t, k'). split; [reflexivity|exact Hk'].
Qed.
End L.

Lemma fold_sum_snd (l : list (P * nat)) : forall s0, fold_left (fun s x => (s + snd x)%nat) l s0 = (s0 + list_sum (map snd l))%nat.
Proof.
  induction l as [|a l IH]; intros s0; [cbn; lia|]. cbn [fold_left]. rewrite IH.
  change (list_sum (map snd (a :: l))) with (snd a + list_sum (map snd l))%nat. lia.
Qed.
(* average_graph_complexity = (sum of shortest distances from V over its orbit) / (size of the orbit) *)
Theorem complexity_spec n G v s z : complexity_counts n G v = Some (s, z) ->
  exists l, (forall t k, In (t, k) l <-> dist (map enc G) (enc v) t k) /\ NoDup (map fst l) /\
            (forall t, In t (map fst l) <-> OrbL (map enc G) (enc v) t) /\
            s = list_sum (map snd l) /\ z = length l.
Proof.
  unfold complexity_counts. destruct (levels (map enc G) (Nat.pow 4 n + 2) [enc v] [enc v] 0 [(enc v, 0%nat)]) as [l|] eqn:E; [|discriminate].
  intros H. injection H as <- <-. exists l. destruct (levels_dist (map enc G) (enc v) _ l E) as [R1 [R2 R3]].
  split; [exact R1|]. split; [exact R2|]. split; [exact R3|]. split; [|reflexivity]. apply fold_sum_snd.
Qed.
