(* Theory/DecompT.v — the butterfly computes tr(M(P) A) at the index the string P looks up, and the weights
   reconstruct the matrix (C13).  All vectors are 2^n times the source's (see Model/Decomp.v). *)
From PauLie Require Import Pauli Matrix MatrixT Decomp.
From Coq Require Import Lia.

Definition T (p : pstr) (A : mat) : gi := mtrace (length p) (mmul (length p) (M p) A).

Lemma gsum2 (f : bool -> gi) : gsum [false; true] f = gadd (f false) (f true).
Proof. cbn. gring. Qed.
Lemma gsum_bv_S n (f : list bool -> gi) : gsum (bv (S n)) f = gadd (gsum (bv n) (fun k => f (false :: k))) (gsum (bv n) (fun k => f (true :: k))).
Proof. cbn [bv]. rewrite gsum_app, !gsum_map. reflexivity. Qed.
Lemma T_cons a p A :
  T (a :: p) A = gadd (gadd (gmul (sig a false false) (T p (blk A false false))) (gmul (sig a false true) (T p (blk A true false))))
                      (gadd (gmul (sig a true false) (T p (blk A false true))) (gmul (sig a true true) (T p (blk A true true)))).
Proof.
  unfold T, mtrace. cbn [length]. set (n := length p). rewrite gsum_bv_S.
  assert (E : forall b r, mmul (S n) (M (a :: p)) A (b :: r) (b :: r) =
              gadd (gmul (sig a b false) (mmul n (M p) (blk A false b) r r)) (gmul (sig a b true) (mmul n (M p) (blk A true b) r r))).
  { intros b r. unfold mmul. rewrite gsum_bv_S. cbn [M]. unfold blk. rewrite <- !gsum_scale. f_equal; apply gsum_ext; intros; gring. }
  rewrite (gsum_ext _ _ (fun k => gadd (gmul (sig a false false) (mmul n (M p) (blk A false false) k k)) (gmul (sig a false true) (mmul n (M p) (blk A true false) k k)))) by (intros; apply E).
  rewrite (gsum_ext (bv n) (fun k => mmul (S n) (M (a :: p)) A (true :: k) (true :: k)) (fun k => gadd (gmul (sig a true false) (mmul n (M p) (blk A false true) k k)) (gmul (sig a true true) (mmul n (M p) (blk A true true) k k)))) by (intros; apply E).
  rewrite !gsum_add, !gsum_scale. reflexivity.
Qed.

(* ---------- list plumbing ---------- *)
Lemma vadd_length x y : length (vadd x y) = Nat.min (length x) (length y).
Proof. unfold vadd. rewrite map_length, combine_length. reflexivity. Qed.
Lemma vsub_length x y : length (vsub x y) = Nat.min (length x) (length y).
Proof. unfold vsub. rewrite map_length, combine_length. reflexivity. Qed.
Lemma vimul_length x : length (vimul x) = length x.
Proof. apply map_length. Qed.
Lemma nth_vadd x y j : (j < length x)%nat -> (j < length y)%nat -> nth j (vadd x y) g0 = gadd (nth j x g0) (nth j y g0).
Proof.
  revert y j; induction x as [|a x IH]; intros [|b y] [|j] Hx Hy; cbn in *; try lia; try reflexivity. apply IH; lia.
Qed.
Lemma nth_vsub x y j : (j < length x)%nat -> (j < length y)%nat -> nth j (vsub x y) g0 = gsub (nth j x g0) (nth j y g0).
Proof.
  revert y j; induction x as [|a x IH]; intros [|b y] [|j] Hx Hy; cbn in *; try lia; try reflexivity. apply IH; lia.
Qed.
Lemma nth_vimul x j : (j < length x)%nat -> nth j (vimul x) g0 = gmul gI (nth j x g0).
Proof. revert j; induction x as [|a x IH]; intros [|j] H; cbn in *; try lia; try reflexivity. apply IH; lia. Qed.
Lemma vec_length n : forall A, length (vec n A) = Nat.pow 4 n.
Proof. induction n as [|n IH]; intros A; [reflexivity|]. cbn [vec]. rewrite !app_length, !IH. cbn [Nat.pow]. lia. Qed.
Lemma firstn_app_exact {X} (a r : list X) q : length a = q -> firstn q (a ++ r) = a.
Proof. intros <-. rewrite firstn_app, Nat.sub_diag, firstn_all. cbn [firstn]. apply app_nil_r. Qed.
Lemma skipn_app_exact {X} (a r : list X) q : length a = q -> skipn q (a ++ r) = r.
Proof. intros <-. rewrite skipn_app, Nat.sub_diag, skipn_all. reflexivity. Qed.
Lemma four_blocks {X} (a b c d : list X) q : length a = q -> length b = q -> length c = q -> length d = q ->
  firstn q (a ++ b ++ c ++ d) = a /\ firstn q (skipn q (a ++ b ++ c ++ d)) = b /\
  firstn q (skipn (2 * q) (a ++ b ++ c ++ d)) = c /\ firstn q (skipn (3 * q) (a ++ b ++ c ++ d)) = d.
Proof.
  intros Ha Hb Hc Hd. repeat split.
  - apply firstn_app_exact. exact Ha.
  - rewrite (skipn_app_exact a _ q Ha). apply firstn_app_exact. exact Hb.
  - replace (a ++ b ++ c ++ d) with ((a ++ b) ++ c ++ d) by (rewrite <- app_assoc; reflexivity).
    rewrite (skipn_app_exact (a ++ b) _ (2 * q)) by (rewrite app_length; lia). apply firstn_app_exact. exact Hc.
  - replace (a ++ b ++ c ++ d) with ((a ++ b ++ c) ++ d) by (rewrite <- !app_assoc; reflexivity).
    rewrite (skipn_app_exact (a ++ b ++ c) _ (3 * q)) by (rewrite !app_length; lia). rewrite <- Hd. apply firstn_all.
Qed.
Lemma bfly_length n : forall v, length v = Nat.pow 4 n -> length (bfly n v) = Nat.pow 4 n.
Proof.
  induction n as [|n IH]; intros v Hv; [exact Hv|]. cbn [bfly]. set (q := Nat.pow 4 n).
  assert (Hq : length v = (4 * q)%nat) by (rewrite Hv; cbn [Nat.pow]; lia).
  rewrite !app_length, vimul_length, !vadd_length, !vsub_length.
  rewrite !IH by (rewrite firstn_length, ?skipn_length; lia). cbn [Nat.pow]. fold q. lia.
Qed.
Lemma decompose_S n A :
  decompose (S n) A =
  let u0 := decompose n (blk A false false) in let u1 := decompose n (blk A true true) in
  let u2 := decompose n (blk A false true) in let u3 := decompose n (blk A true false) in
  vadd u0 u1 ++ vsub u0 u1 ++ vadd u2 u3 ++ vimul (vsub u2 u3).
Proof.
  unfold decompose. cbn [vec bfly].
  destruct (four_blocks (vec n (blk A false false)) (vec n (blk A true true)) (vec n (blk A false true)) (vec n (blk A true false)) (Nat.pow 4 n)
              (vec_length n _) (vec_length n _) (vec_length n _) (vec_length n _)) as [E0 [E1 [E2 E3]]].
  rewrite E0, E1, E2, E3. reflexivity.
Qed.
Lemma decompose_length n A : length (decompose n A) = Nat.pow 4 n.
Proof. unfold decompose. apply bfly_length. apply vec_length. Qed.
Lemma index_lt p : (index p < Nat.pow 4 (length p))%nat.
Proof.
  induction p as [|a p IH]; [cbn; lia|]. cbn [index length Nat.pow]. destruct a; cbn [digit]; lia.
Qed.
Lemma nth_block {X} (a b c d : list X) q j k (z : X) : length a = q -> length b = q -> length c = q -> length d = q -> (j < q)%nat -> (k < 4)%nat ->
  nth (k * q + j) (a ++ b ++ c ++ d) z = nth j (match k with 0 => a | 1 => b | 2 => c | _ => d end)%nat z.
Proof.
  intros Ha Hb Hc Hd Hj Hk. destruct k as [|[|[|[|k]]]]; try lia.
  - rewrite app_nth1 by lia. f_equal.
  - rewrite app_nth2 by lia. rewrite app_nth1 by lia. f_equal. lia.
  - rewrite app_nth2 by lia. rewrite app_nth2 by lia. rewrite app_nth1 by lia. f_equal. lia.
  - rewrite app_nth2 by lia. rewrite app_nth2 by lia. rewrite app_nth2 by lia. f_equal. lia.
Qed.

(* the entry the string P looks up is the trace of M(P) A *)
Theorem decompose_coeff : forall p A, nth (index p) (decompose (length p) A) g0 = T p A.
Proof.
  induction p as [|a p IH]; intros A.
  - cbn. unfold T, mtrace, mmul. cbn. gring.
  - cbn [length]. rewrite decompose_S. cbv zeta. set (n := length p). set (q := Nat.pow 4 n).
    set (u0 := decompose n (blk A false false)). set (u1 := decompose n (blk A true true)).
    set (u2 := decompose n (blk A false true)). set (u3 := decompose n (blk A true false)).
    assert (L0 : length u0 = q) by apply decompose_length. assert (L1 : length u1 = q) by apply decompose_length.
    assert (L2 : length u2 = q) by apply decompose_length. assert (L3 : length u3 = q) by apply decompose_length.
    pose proof (index_lt p) as Hj. fold n in Hj. fold q in Hj.
    cbn [index]. fold n. fold q.
    rewrite (nth_block (vadd u0 u1) (vsub u0 u1) (vadd u2 u3) (vimul (vsub u2 u3)) q (index p) (digit a) g0)
      by (rewrite ?vimul_length, ?vadd_length, ?vsub_length; try lia; destruct a; cbn; lia).
    rewrite T_cons. rewrite <- !IH. fold n. fold u0 u1 u2 u3.
    destruct a; cbn [digit sig].
    + rewrite nth_vadd by lia. gring.
    + rewrite nth_vadd by lia. gring.
    + rewrite nth_vimul, nth_vsub by (rewrite ?vsub_length; lia). gring.
    + rewrite nth_vsub by lia. gring.
Qed.

(* ---------- reconstruction ---------- *)
From PauLie Require Import Graph GraphT.
Definition S_ (n : nat) (A : mat) (r c : list bool) : gi := gsum (all_strs n) (fun p => gmul (T p A) (M p r c)).
Lemma all_strs_S n (f : pstr -> gi) :
  gsum (all_strs (S n)) f = gadd (gsum (all_strs n) (fun p => f (PI :: p))) (gadd (gsum (all_strs n) (fun p => f (PZ :: p)))
                            (gadd (gsum (all_strs n) (fun p => f (PX :: p))) (gsum (all_strs n) (fun p => f (PY :: p))))).
Proof. cbn [all_strs flat_map]. rewrite app_nil_r, !gsum_app, !gsum_map. reflexivity. Qed.
Lemma letter_sum n a A rb cb r c :
  gsum (all_strs n) (fun p => gmul (T (a :: p) A) (M (a :: p) (rb :: r) (cb :: c))) =
  gmul (sig a rb cb) (gadd (gadd (gmul (sig a false false) (S_ n (blk A false false) r c)) (gmul (sig a false true) (S_ n (blk A true false) r c)))
                            (gadd (gmul (sig a true false) (S_ n (blk A false true) r c)) (gmul (sig a true true) (S_ n (blk A true true) r c)))).
Proof.
  unfold S_. rewrite <- !gsum_scale, <- !gsum_add, <- gsum_scale. apply gsum_ext. intros p _. rewrite T_cons. cbn [M]. gring.
Qed.
Definition two_pow (n : nat) : gi := (Z.pow 2 (Z.of_nat n), 0%Z).
Theorem reconstruct : forall n A r c, length r = n -> length c = n -> S_ n A r c = gmul (two_pow n) (A r c).
Proof.
  induction n as [|n IH]; intros A r c Hr Hc.
  - destruct r, c; try discriminate. unfold S_, T, mtrace, mmul, two_pow. cbn. gring.
  - destruct r as [|rb r]; [discriminate|]. destruct c as [|cb c]; [discriminate|]. injection Hr as Hr. injection Hc as Hc.
    unfold S_. rewrite all_strs_S, !letter_sum. rewrite !(IH _ r c Hr Hc). unfold blk, two_pow.
    rewrite Nat2Z.inj_succ, Z.pow_succ_r by lia. destruct rb, cb; cbn [sig]; gring.
Qed.
(* in terms of the weight vector: sum over all strings of w[index P] M(P) = 2^n A *)
Theorem reconstruct_from_weights n A r c : length r = n -> length c = n ->
  gsum (all_strs n) (fun p => gmul (nth (index p) (decompose n A) g0) (M p r c)) = gmul (two_pow n) (A r c).
Proof.
  intros Hr Hc. rewrite <- (reconstruct n A r c Hr Hc). unfold S_. apply gsum_ext. intros p Hp.
  apply GraphT.all_strs_In in Hp. rewrite <- Hp. rewrite decompose_coeff. reflexivity.
Qed.

(* ---------- the weight table ---------- *)
Lemma index_snoc p a : index (p ++ [a]) = (4 * index p + digit a)%nat.
Proof.
  induction p as [|b p IH]; [cbn; lia|]. cbn [app index length]. rewrite IH, app_length. cbn [length].
  replace (length p + 1)%nat with (S (length p)) by lia. cbn [Nat.pow]. lia.
Qed.
Lemma wt_snoc p a : wt (p ++ [a]) = (wt p + (if is_id1 a then 0 else 1))%nat.
Proof. unfold wt. rewrite filter_app, app_length. cbn [filter]. destruct (is_id1 a); cbn; lia. Qed.
Theorem weights_are_wt : forall p, digits_ne (length p) (index p) 0 = wt p.
Proof.
  induction p as [|a p IH] using rev_ind; [reflexivity|].
  rewrite app_length, index_snoc, wt_snoc. cbn [length]. replace (length p + 1)%nat with (S (length p)) by lia. cbn [digits_ne].
  assert (D : (digit a < 4)%nat) by (destruct a; cbn; lia).
  replace ((4 * index p + digit a) mod 4)%nat with (digit a) by (rewrite Nat.add_comm, Nat.mul_comm, Nat.mod_add by lia; symmetry; apply Nat.mod_small; exact D).
  replace ((4 * index p + digit a) / 4)%nat with (index p) by (rewrite Nat.add_comm, Nat.mul_comm, Nat.div_add by lia; rewrite Nat.div_small by exact D; reflexivity).
  rewrite IH. destruct a; cbn; lia.
Qed.
Theorem weight_table_entry p : nth (index p) (pauli_weights (length p) 0) 0%nat = wt p.
Proof.
  unfold pauli_weights. pose proof (index_lt p) as H.
  rewrite (nth_indep _ 0%nat (digits_ne (length p) 0 0)) by (rewrite map_length, seq_length; exact H).
  rewrite (map_nth (fun i => digits_ne (length p) i 0) (seq 0 (Nat.pow 4 (length p))) 0%nat (index p)).
  rewrite seq_nth by exact H. cbn [Nat.add]. apply weights_are_wt.
Qed.

(* ---------- diagonal matrices ---------- *)
Fixpoint bits_eqb (r c : list bool) : bool :=
  match r, c with [], [] => true | a :: r', b :: c' => Bool.eqb a b && bits_eqb r' c' | _, _ => false end.
Definition diagm (d : list bool -> gi) : mat := fun r c => if bits_eqb r c then d r else g0.
Lemma T_ext p A B : (forall r c, A r c = B r c) -> T p A = T p B.
Proof. intros H. unfold T, mtrace, mmul. apply gsum_ext. intros k _. apply gsum_ext. intros j _. rewrite H. reflexivity. Qed.
Lemma T_zero p : T p mzero = g0.
Proof.
  unfold T, mtrace. rewrite (gsum_ext _ _ (fun _ => g0)); [apply gsum_zero|]. intros k _. unfold mmul, mzero.
  rewrite (gsum_ext _ _ (fun _ => g0)); [apply gsum_zero|]. intros; gring.
Qed.
Lemma blk_diag_same d b r c : blk (diagm d) b b r c = diagm (fun k => d (b :: k)) r c.
Proof. unfold blk, diagm. cbn [bits_eqb]. destruct b; reflexivity. Qed.
Lemma blk_diag_off d b r c : blk (diagm d) b (negb b) r c = mzero r c.
Proof. unfold blk, diagm, mzero. cbn [bits_eqb]. destruct b; reflexivity. Qed.
Lemma T_diag_cons a p d :
  T (a :: p) (diagm d) = gadd (gmul (sig a false false) (T p (diagm (fun k => d (false :: k))))) (gmul (sig a true true) (T p (diagm (fun k => d (true :: k))))).
Proof.
  rewrite T_cons.
  rewrite (T_ext p (blk (diagm d) false false) _ (blk_diag_same d false)), (T_ext p (blk (diagm d) true true) _ (blk_diag_same d true)).
  rewrite (T_ext p (blk (diagm d) true false) mzero (blk_diag_off d true)), (T_ext p (blk (diagm d) false true) mzero (blk_diag_off d false)).
  rewrite !T_zero. gring.
Qed.
(* a string with an X or Y letter has weight 0 in a diagonal matrix *)
Theorem diag_offdiag_zero : forall p d, dindex p = None -> T p (diagm d) = g0.
Proof.
  induction p as [|a p IH]; intros d H; [discriminate|]. cbn [dindex] in H. rewrite T_diag_cons. destruct (xb a) eqn:Ex.
  - destruct a; try discriminate; cbn [sig]; gring.
  - destruct (dindex p) eqn:Ed; [discriminate|]. rewrite !IH by reflexivity. gring.
Qed.
Lemma dvec_length n : forall d, length (dvec n d) = Nat.pow 2 n.
Proof. induction n as [|n IH]; intros d; [reflexivity|]. cbn [dvec]. rewrite app_length, !IH. cbn [Nat.pow]. lia. Qed.
Lemma dbfly_length n : forall v, length v = Nat.pow 2 n -> length (dbfly n v) = Nat.pow 2 n.
Proof.
  induction n as [|n IH]; intros v Hv; [exact Hv|]. cbn [dbfly]. set (q := Nat.pow 2 n).
  assert (Hq : length v = (2 * q)%nat) by (rewrite Hv; cbn [Nat.pow]; lia).
  rewrite app_length, vadd_length, vsub_length, !IH by (rewrite firstn_length, ?skipn_length; lia). cbn [Nat.pow]. fold q. lia.
Qed.
Lemma decompose_diag_S n d :
  decompose_diag (S n) d = vadd (decompose_diag n (fun k => d (false :: k))) (decompose_diag n (fun k => d (true :: k)))
                        ++ vsub (decompose_diag n (fun k => d (false :: k))) (decompose_diag n (fun k => d (true :: k))).
Proof.
  unfold decompose_diag. cbn [dvec dbfly]. rewrite (firstn_app_exact _ _ _ (dvec_length n _)), (skipn_app_exact _ _ _ (dvec_length n _)).
  assert (E : firstn (Nat.pow 2 n) (dvec n (fun r => d (true :: r))) = dvec n (fun r => d (true :: r))).
  { rewrite <- (dvec_length n (fun r => d (true :: r))) at 1. apply firstn_all. }
  rewrite E. reflexivity.
Qed.
Lemma decompose_diag_length n d : length (decompose_diag n d) = Nat.pow 2 n.
Proof. unfold decompose_diag. apply dbfly_length. apply dvec_length. Qed.
Lemma dindex_lt : forall p k, dindex p = Some k -> (k < Nat.pow 2 (length p))%nat.
Proof.
  induction p as [|a p IH]; intros k H; [injection H as <-; cbn; lia|]. cbn [dindex] in H. destruct (xb a); [discriminate|].
  destruct (dindex p) as [j|] eqn:E; [|discriminate]. injection H as <-. specialize (IH j eq_refl). cbn [length Nat.pow]. destruct (zb a); lia.
Qed.
(* the diagonal variant agrees with the general one on diagonal matrices *)
Theorem diag_coeff : forall p d k, dindex p = Some k -> nth k (decompose_diag (length p) d) g0 = T p (diagm d).
Proof.
  induction p as [|a p IH]; intros d k H.
  - injection H as <-. cbn. unfold T, mtrace, mmul, diagm. cbn. gring.
  - cbn [dindex] in H. destruct (xb a) eqn:Ex; [discriminate|]. destruct (dindex p) as [j|] eqn:Ed; [|discriminate]. injection H as <-.
    cbn [length]. rewrite decompose_diag_S, T_diag_cons. rewrite <- !(IH _ j eq_refl).
    pose proof (dindex_lt p j Ed) as Hj. set (q := Nat.pow 2 (length p)) in *.
    set (u0 := decompose_diag (length p) (fun k => d (false :: k))). set (u1 := decompose_diag (length p) (fun k => d (true :: k))).
    assert (L0 : length u0 = q) by apply decompose_diag_length. assert (L1 : length u1 = q) by apply decompose_diag_length.
    destruct a; try discriminate; cbn [zb sig].
    + rewrite Nat.mul_0_l, Nat.add_0_l. rewrite app_nth1 by (rewrite vadd_length; lia). rewrite nth_vadd by lia. gring.
    + rewrite Nat.mul_1_l. rewrite app_nth2 by (rewrite vadd_length; lia). rewrite vadd_length, L0, L1, Nat.min_id.
      replace (q + j - q)%nat with j by lia. rewrite nth_vsub by lia. gring.
Qed.

(* ---------- input validation ---------- *)
Theorem shape_ok_spec ndim rows cols : shape_ok ndim rows cols = true <->
  ndim = 2%nat /\ rows = cols /\ rows <> 1%nat /\ exists e, rows = Nat.pow 2 e.
Proof.
  unfold shape_ok. rewrite !andb_true_iff, !Nat.eqb_eq, negb_true_iff, Nat.eqb_neq. unfold is_pow2. rewrite existsb_exists. split.
  - intros [[[H1 H2] H3] [e [_ He]]]. apply Nat.eqb_eq in He. repeat split; auto. exists e. exact He.
  - intros [H1 [H2 [H3 [e He]]]]. repeat split; auto. exists e. split; [|apply Nat.eqb_eq; exact He].
    apply in_seq. split; [lia|]. cbn [Nat.add]. assert (e < Nat.pow 2 e)%nat by (apply Nat.pow_gt_lin_r; lia). lia.
Qed.
Theorem weight_in_spec p b : weight_in p b =
  if Nat.eqb (length b) (Nat.pow 2 (length p)) then Ok (match dindex p with Some k => nth k b g0 | None => g0 end)
  else if Nat.eqb (length b) (Nat.pow 4 (length p)) then Ok (nth (index p) b g0) else ValueError.
Proof. reflexivity. Qed.
