(* Theory/GenAllT.v — the enumeration the source uses for "all Pauli strings of length n" (PauliString.gen_all_pauli_strings:
   repeated inc() from the all-zero string until the all-one string, Model/PauliBits.gen_all) IS the index-ordered list
   all_strs n that the graph model (Model/Graph.v: commutants, commutator graph) quantifies over — for every n.
   (Theory/GraphT.v had this by computation for n <= 5 only.) *)
From PauLie Require Import Pauli PauliBits Graph MatrixT PauliBitsT GraphT.
From Coq Require Import Lia ZifyBool.
Open Scope Z_scope.

Lemma zseq_app : forall l1 l2 k, zseq k (l1 + l2) = zseq k l1 ++ zseq (k + Z.of_nat l1) l2.
Proof.
  induction l1 as [|l1 IH]; intros l2 k; cbn [zseq Nat.add app].
  - f_equal. lia.
  - f_equal. rewrite IH. f_equal. f_equal. lia.
Qed.
Lemma zseq_shift : forall len k d, map (fun x => d + x) (zseq k len) = zseq (d + k) len.
Proof. induction len as [|len IH]; intros k d; cbn [zseq map]; [reflexivity|]. f_equal. rewrite IH. f_equal. lia. Qed.
Lemma zseq_length : forall len k, length (zseq k len) = len.
Proof. induction len as [|len IH]; intros k; cbn; [reflexivity|]. rewrite IH. reflexivity. Qed.

Lemma le2int_app l b : le2int (l ++ [b]) = le2int l + (if b : bool then 1 else 0) * 2 ^ Z.of_nat (length l).
Proof.
  induction l as [|a t IH]; cbn [app le2int length]; [destruct b; reflexivity|].
  rewrite IH, Nat2Z.inj_succ, Z.pow_succ_r by lia. destruct a, b; lia.
Qed.
Lemma ba2int_cons (b : bool) l : ba2int (b :: l) = (if b then 1 else 0) * 2 ^ Z.of_nat (length l) + ba2int l.
Proof. rewrite !ba2int_le. cbn [rev]. rewrite le2int_app, rev_length. lia. Qed.

Definition lrank (a : pl) : Z := match a with PI => 0 | PZ => 1 | PX => 2 | PY => 3 end.
Definition idx (p : pstr) : Z := ba2int (bits p).
Lemma idx_cons a p : idx (a :: p) = lrank a * 4 ^ Z.of_nat (length p) + idx p.
Proof.
  unfold idx. cbn [bits flat_map app]. rewrite !ba2int_cons. cbn [length]. rewrite bits_length.
  assert (E0 : 2 ^ Z.of_nat (2 * length p) = 4 ^ Z.of_nat (length p)).
  { replace (Z.of_nat (2 * length p)) with (2 * Z.of_nat (length p)) by lia. rewrite Z.pow_mul_r by lia. reflexivity. }
  assert (E1 : 2 ^ Z.of_nat (S (2 * length p)) = 2 * 4 ^ Z.of_nat (length p)).
  { rewrite Nat2Z.inj_succ, Z.pow_succ_r by lia. rewrite E0. reflexivity. }
  rewrite E0, E1. fold (bits p). generalize (4 ^ Z.of_nat (length p)) as e. intros e. destruct a; cbn [xb zb lrank]; lia.
Qed.

Lemma all_strs_length n p : In p (all_strs n) -> length p = n.
Proof. apply all_strs_In. Qed.
Lemma all_strs_S n : all_strs (S n) = map (cons PI) (all_strs n) ++ map (cons PZ) (all_strs n) ++ map (cons PX) (all_strs n) ++ map (cons PY) (all_strs n).
Proof. cbn [all_strs flat_map]. rewrite app_nil_r. reflexivity. Qed.
Lemma all_strs_count n : length (all_strs n) = Nat.pow 4 n.
Proof.
  induction n as [|n IH]; [reflexivity|]. rewrite all_strs_S, !app_length, !map_length. unfold pstr in *. rewrite IH. cbn [length Nat.pow]. lia.
Qed.

Lemma all_strs_idx n : map idx (all_strs n) = zseq 0 (Nat.pow 4 n).
Proof.
  induction n as [|n IH]; [reflexivity|].
  rewrite all_strs_S, !map_app, !map_map.
  assert (E : forall a, map (fun x => idx (a :: x)) (all_strs n) = zseq (lrank a * 4 ^ Z.of_nat n) (Nat.pow 4 n)).
  { intros a. rewrite <- (Z.add_0_r (lrank a * 4 ^ Z.of_nat n)), <- zseq_shift, <- IH, map_map.
    apply map_ext_in. intros p Hp. rewrite idx_cons, (all_strs_length n p Hp). reflexivity. }
  rewrite !E. cbn [lrank].
  replace (Nat.pow 4 (S n)) with (Nat.pow 4 n + (Nat.pow 4 n + (Nat.pow 4 n + Nat.pow 4 n)))%nat by (cbn [Nat.pow]; lia).
  rewrite !zseq_app. assert (P : Z.of_nat (Nat.pow 4 n) = 4 ^ Z.of_nat n) by (rewrite Nat2Z.inj_pow; reflexivity).
  rewrite P. generalize (4 ^ Z.of_nat n) as e. intros e.
  replace (0 * e) with 0 by lia. replace (1 * e) with (0 + e) by lia. replace (2 * e) with (0 + e + e) by lia. replace (3 * e) with (0 + e + e + e) by lia. reflexivity.
Qed.

(* big-endian value is injective on bit lists of one length *)
Lemma ba2int_bound l : 0 <= ba2int l < 2 ^ Z.of_nat (length l).
Proof. rewrite ba2int_le, <- (rev_length l). apply le2int_bound. Qed.
Lemma ba2int_inj : forall a b, length a = length b -> ba2int a = ba2int b -> a = b.
Proof.
  induction a as [|x a IH]; intros [|y b] HL HE; try discriminate; [reflexivity|].
  injection HL as HL. rewrite !ba2int_cons, HL in HE.
  pose proof (ba2int_bound a) as Ba. pose proof (ba2int_bound b) as Bb. rewrite HL in Ba.
  assert (x = y) by (destruct x, y; try reflexivity; lia). subst y. f_equal. apply IH; [exact HL|lia].
Qed.

Lemma gen_loop_lengths : forall fuel b x, In x (gen_loop fuel b) -> length x = length b.
Proof.
  induction fuel as [|f IH]; intros b x; cbn [gen_loop]; [intros []|].
  destruct (all_ones b); cbn [In]; intros [<-|H]; try reflexivity; [destruct H|].
  rewrite (IH _ _ H). apply inc_bits_length.
Qed.

Lemma lists_eq_by_idx : forall (A B : list (list bool)) m,
  (forall x, In x A -> length x = m) -> (forall x, In x B -> length x = m) -> map ba2int A = map ba2int B -> A = B.
Proof.
  induction A as [|a A IH]; intros [|b B] m HA HB E; try discriminate; [reflexivity|].
  cbn [map] in E. injection E as E1 E2. f_equal.
  - apply ba2int_inj; [rewrite (HA a), (HB b) by (left; reflexivity); reflexivity|exact E1].
  - apply (IH B m); [intros x Hx; apply HA; right; exact Hx|intros x Hx; apply HB; right; exact Hx|exact E2].
Qed.

Theorem gen_all_is_all_strs n : gen_all n = all_strs n.
Proof.
  unfold gen_all.
  assert (E : gen_loop (Nat.pow 4 n) (repeat false (2 * n)) = map bits (all_strs n)).
  { apply (lists_eq_by_idx _ _ (2 * n)%nat).
    - intros x Hx. rewrite (gen_loop_lengths _ _ _ Hx), repeat_length. reflexivity.
    - intros x Hx. apply in_map_iff in Hx as [p [<- Hp]]. rewrite bits_length, (all_strs_length n p Hp). reflexivity.
    - rewrite gen_all_indices, map_map. symmetry. apply all_strs_idx. }
  rewrite E, map_map. rewrite <- (map_id (all_strs n)) at 2. apply map_ext. intros p. apply of_bits_bits.
Qed.

Corollary gen_all_In n p : In p (gen_all n) <-> length p = n.
Proof. rewrite gen_all_is_all_strs. apply all_strs_In. Qed.
Corollary gen_all_NoDup n : NoDup (gen_all n).
Proof. rewrite gen_all_is_all_strs. apply all_strs_NoDup. Qed.
