(* Theory/CollFactsT.v — facts about the collection model on lists of strings of one length, used by the refinement files:
   the constructor keeps such a list, append adds at the end, contract replaces the first occurrence of x by x.y. *)
From PauLie Require Import Pauli Collection MatrixT ParserT CollectionT OtocLoopT.
From Coq Require Import Lia.

Lemma mk_keeps n l : all_len n l -> gens (mk l) = l.
Proof.
  intros H. cbn [mk gens]. transitivity (map (fun g : pstr => g) l); [|apply map_id]. apply map_ext_in. intros g Hg.
  pose proof (uniform_of_const l n H g Hg) as U. unfold pad. rewrite U, Nat.sub_diag. apply app_nil_r.
Qed.
Lemma maxlen_of_const n g l : all_len n (g :: l) -> maxlen (g :: l) = n.
Proof. intros H. rewrite <- (uniform_of_const (g :: l) n H g (or_introl eq_refl)). apply H. left. reflexivity. Qed.
Lemma processing_same n l p : all_len n l -> length p = n -> processing true l p = (l, p).
Proof.
  intros Hl Hp. unfold processing. destruct l as [|g l]; [reflexivity|]. rewrite (maxlen_of_const n g l Hl), Hp, Nat.ltb_irrefl. reflexivity.
Qed.
Definition contract_list (l : list pstr) (x y : pstr) : list pstr := gens (fst (step true {| gens := l; cache := None |} (Contract x y))).
Lemma contract_list_eq n l x y : all_len n l -> length x = n -> length y = n ->
  contract_list l x y = match find x l with Some k => Collection.set_nth k (smul x y) l | None => l end.
Proof.
  intros Hl Hx Hy. unfold contract_list. cbn [step gens]. rewrite Hx, Hy, Nat.eqb_refl.
  destruct (find x l) as [k|]; [|reflexivity]. rewrite (processing_same n l (smul x y) Hl) by (rewrite smul_length; congruence). reflexivity.
Qed.
Lemma set_nth_In (v : pstr) l p : forall k, In p (Collection.set_nth k v l) -> p = v \/ In p l.
Proof.
  induction l as [|a l IH]; intros k H; [destruct k; destruct H|]. destruct k as [|k]; cbn [Collection.set_nth In] in *.
  - destruct H as [<-|H]; tauto.
  - destruct H as [<-|H]; [tauto|]. destruct (IH k H); tauto.
Qed.
Lemma contract_list_len n l x y : all_len n l -> length x = n -> length y = n -> all_len n (contract_list l x y).
Proof.
  intros Hl Hx Hy. rewrite (contract_list_eq n l x y Hl Hx Hy). destruct (find x l) as [k|]; [|exact Hl].
  intros p Hp. apply set_nth_In in Hp. destruct Hp as [->|Hp]; [rewrite smul_length; congruence|apply Hl; exact Hp].
Qed.
