(* Theory/StarClosureT.v — the commutator closure of a star of single legs: a centre c and pairwise commuting legs
   l_1..l_k, each anticommuting with c.  The closure is exactly
       { l_U : U an odd subset }  union  { c . l_S : S any subset },
   i.e. (when the legs are independent) 2^(k-1) + 2^k = 3 * 2^(k-1) strings = 2^(k-1) copies of so(3):
   what the repaired census reports for k single legs. *)
From Coq Require Import List Bool Lia.
From PauLie Require Import ClT.
Import ListNotations.
Section S.
Variable P : Type.
Variable mul : P -> P -> P.
Variable anti : P -> P -> bool.
Variable e : P.   (* the identity string *)
Hypothesis mul_assoc : forall a b c, mul (mul a b) c = mul a (mul b c).
Hypothesis mul_comm : forall a b, mul a b = mul b a.
Hypothesis mul_self : forall a b, mul (mul a b) b = a.
Hypothesis mul_e_r : forall a, mul a e = a.
Hypothesis anti_sym : forall a b, anti a b = anti b a.
Hypothesis anti_mul_r : forall a b c, anti a (mul b c) = xorb (anti a b) (anti a c).
Hypothesis anti_e : forall a, anti a e = false.

Variable c : P.
Variable ls : list P.
Hypothesis legs_commute : forall a b, In a ls -> In b ls -> anti a b = false.
Hypothesis legs_anti_centre : forall a, In a ls -> anti c a = true.
Hypothesis centre_self : anti c c = false.

(* product of the legs selected by a mask *)
Fixpoint prodm (l : list P) (m : list bool) : P :=
  match l, m with
  | a :: l', true :: m' => mul a (prodm l' m')
  | _ :: l', false :: m' => prodm l' m'
  | _, _ => e
  end.
Fixpoint parity (m : list bool) : bool := match m with [] => false | b :: m' => xorb b (parity m') end.
Fixpoint mxor (a b : list bool) : list bool := match a, b with x :: a', y :: b' => xorb x y :: mxor a' b' | _, _ => [] end.

Lemma mul_e_l a : mul e a = a. Proof. rewrite mul_comm. apply mul_e_r. Qed.
Lemma mul_same a : mul a a = e.
Proof. rewrite <- (mul_e_l a) at 1. rewrite mul_self. reflexivity. Qed.
Lemma anti_mul_l a b d : anti (mul a b) d = xorb (anti a d) (anti b d).
Proof. rewrite anti_sym, anti_mul_r, (anti_sym d a), (anti_sym d b); reflexivity. Qed.
Lemma parity_mxor : forall a b, length a = length b -> parity (mxor a b) = xorb (parity a) (parity b).
Proof.
  induction a as [|x a IH]; intros [|y b] H; try discriminate; [reflexivity|]. cbn. rewrite IH by (injection H; auto).
  destruct x, y, (parity a), (parity b); reflexivity.
Qed.
Lemma mxor_length : forall a b, length a = length b -> length (mxor a b) = length a.
Proof. induction a as [|x a IH]; intros [|y b] H; try discriminate; [reflexivity|]. cbn. f_equal. apply IH. injection H; auto. Qed.
Lemma prodm_mxor : forall l a b, length a = length l -> length b = length l ->
  prodm l (mxor a b) = mul (prodm l a) (prodm l b).
Proof.
  induction l as [|p l IH]; intros [|x a] [|y b] Ha Hb; try discriminate; cbn [prodm mxor]; [rewrite mul_e_r; reflexivity|].
  injection Ha as Ha. injection Hb as Hb. rewrite (IH a b Ha Hb). destruct x, y; cbn [xorb].
  - (* both: p.A . p.B = A.B *)
    rewrite mul_assoc, (mul_comm (prodm l a) (mul p (prodm l b))), mul_assoc, <- (mul_assoc p p), mul_same, mul_e_l. apply mul_comm.
  - apply mul_assoc || (symmetry; apply mul_assoc).
  - rewrite (mul_comm (prodm l a) (mul p (prodm l b))), mul_assoc, (mul_comm (prodm l b)). reflexivity.
  - reflexivity.
Qed.
(* commutation of leg products *)
Lemma anti_leg_prodm l : (forall a, In a l -> In a ls) -> forall m a, In a ls -> anti a (prodm l m) = false.
Proof.
  intros Hl. induction l as [|p l IH]; intros [|x m] a Ha; cbn [prodm]; try apply anti_e.
  assert (Hl' : forall b, In b l -> In b ls) by (intros b Hb; apply Hl; right; exact Hb).
  destruct x; [rewrite anti_mul_r, (IH Hl' m a Ha), (legs_commute a p Ha (Hl p (or_introl eq_refl))); reflexivity|apply (IH Hl' m a Ha)].
Qed.
Lemma anti_prodm_prodm l l' : (forall a, In a l -> In a ls) -> (forall a, In a l' -> In a ls) ->
  forall m m', anti (prodm l m) (prodm l' m') = false.
Proof.
  intros Hl Hl'. induction l as [|p l IH]; intros m m'; destruct m as [|x m]; cbn [prodm]; try (rewrite anti_sym; apply anti_e).
  assert (Hl2 : forall b, In b l -> In b ls) by (intros b Hb; apply Hl; right; exact Hb).
  destruct x; [|apply (IH Hl2)]. rewrite anti_mul_l, (IH Hl2), (anti_leg_prodm l' Hl' m' p (Hl p (or_introl eq_refl))). reflexivity.
Qed.
Lemma anti_centre_prodm l : (forall a, In a l -> In a ls) -> forall m, length m = length l -> anti c (prodm l m) = parity m.
Proof.
  intros Hl. induction l as [|p l IH]; intros [|x m] H; try discriminate; cbn [prodm parity]; [apply anti_e|].
  injection H as H. assert (Hl' : forall b, In b l -> In b ls) by (intros b Hb; apply Hl; right; exact Hb).
  destruct x; cbn [xorb].
  - rewrite anti_mul_r, (legs_anti_centre p (Hl p (or_introl eq_refl))), (IH Hl' m H). reflexivity.
  - rewrite (IH Hl' m H). destruct (parity m); reflexivity.
Qed.

Definition G (p : P) : Prop := p = c \/ In p ls.
Definition k := length ls.
Definition InStar (p : P) : Prop :=
  (exists m, length m = k /\ parity m = true /\ p = prodm ls m) \/ (exists m, length m = k /\ p = mul c (prodm ls m)).
Let Hid : forall a, In a ls -> In a ls := fun a H => H.

(* masks: all false, and the unit mask of the i-th leg *)
Lemma prodm_zeros l : prodm l (repeat false (length l)) = e.
Proof. induction l as [|p l IH]; [reflexivity|]. cbn. exact IH. Qed.
Lemma parity_zeros n : parity (repeat false n) = false.
Proof. induction n; [reflexivity|]. cbn [repeat parity]. rewrite IHn. reflexivity. Qed.
Fixpoint unit_mask (l : list P) (i : nat) : list bool :=
  match l, i with [], _ => [] | _ :: l', O => true :: repeat false (length l') | _ :: l', S i' => false :: unit_mask l' i' end.
Lemma unit_mask_spec : forall l i a, nth_error l i = Some a ->
  length (unit_mask l i) = length l /\ parity (unit_mask l i) = true /\ prodm l (unit_mask l i) = a.
Proof.
  induction l as [|p l IH]; intros [|i] a H; try discriminate; cbn in H.
  - injection H as <-. cbn [unit_mask length parity prodm]. rewrite repeat_length, parity_zeros, prodm_zeros, mul_e_r. auto.
  - destruct (IH i a H) as [A [B C]]. cbn [unit_mask length parity prodm]. rewrite A, B, C. auto.
Qed.

Lemma c_prod l : (forall a, In a l -> In a ls) -> forall m, Cl P mul anti G (mul c (prodm l m)).
Proof.
  intros Hl. induction l as [|p l IH]; intros m.
  - destruct m as [|[] m]; cbn [prodm]; rewrite mul_e_r; constructor; left; reflexivity.
  - assert (Hl' : forall b, In b l -> In b ls) by (intros b Hb; apply Hl; right; exact Hb).
    destruct m as [|x m]; cbn [prodm]; [rewrite mul_e_r; constructor; left; reflexivity|]. destruct x; [|apply (IH Hl')].
    replace (mul c (mul p (prodm l m))) with (mul (mul c (prodm l m)) p).
    2:{ rewrite mul_assoc. f_equal. apply mul_comm. }
    apply cl_br; [apply (IH Hl')|constructor; right; apply Hl; left; reflexivity|].
    rewrite anti_mul_l, (legs_anti_centre p (Hl p (or_introl eq_refl))).
    rewrite (anti_sym (prodm l m) p), (anti_leg_prodm l Hl' m p (Hl p (or_introl eq_refl))). reflexivity.
Qed.
Theorem star_closure p : Cl P mul anti G p <-> InStar p.
Proof.
  split.
  - induction 1 as [g [->|Hg]|a b _ IHa _ IHb Hab].
    + right. exists (repeat false k). split; [apply repeat_length|]. unfold k. rewrite prodm_zeros, mul_e_r. reflexivity.
    + left. apply In_nth_error in Hg. destruct Hg as [i Hi]. destruct (unit_mask_spec ls i g Hi) as [A [B C]]. exists (unit_mask ls i). unfold k. auto.
    + destruct IHa as [[m [Lm [Pm ->]]]|[m [Lm ->]]], IHb as [[m' [Lm' [Pm' ->]]]|[m' [Lm' ->]]].
      * rewrite (anti_prodm_prodm ls ls Hid Hid) in Hab. discriminate.
      * right. exists (mxor m m'). split; [rewrite mxor_length; congruence|]. rewrite prodm_mxor by (unfold k in *; congruence).
        rewrite <- mul_assoc, (mul_comm (prodm ls m) c), mul_assoc. reflexivity.
      * right. exists (mxor m m'). split; [rewrite mxor_length; congruence|]. rewrite prodm_mxor by (unfold k in *; congruence). apply mul_assoc.
      * left. exists (mxor m m'). split; [rewrite mxor_length; congruence|]. split.
        -- rewrite parity_mxor by congruence.
           rewrite anti_mul_l, !anti_mul_r, centre_self, (anti_sym (prodm ls m) c), (anti_prodm_prodm ls ls Hid Hid) in Hab.
           rewrite !(anti_centre_prodm ls Hid) in Hab by (unfold k in *; congruence).
           destruct (parity m), (parity m'); cbn in *; congruence.
        -- rewrite prodm_mxor by (unfold k in *; congruence).
           (* (c A)(c B) = A B *)
           rewrite mul_assoc, (mul_comm (prodm ls m) (mul c (prodm ls m'))), mul_assoc, <- (mul_assoc c c), mul_same, mul_e_l. apply mul_comm.
  - intros [[m [Lm [Pm ->]]]|[m [Lm ->]]].
    + replace (prodm ls m) with (mul (mul c (prodm ls m)) c).
      2:{ rewrite (mul_comm c (prodm ls m)). apply mul_self. }
      apply cl_br; [apply (c_prod ls Hid)|constructor; left; reflexivity|].
      rewrite anti_mul_l, centre_self, (anti_sym (prodm ls m) c), (anti_centre_prodm ls Hid m Lm), Pm. reflexivity.
    + apply (c_prod ls Hid).
Qed.
End S.
