(* Theory/ClosureT.v — the executable closure of Model/ClosureN.v computes exactly
   the generator-step reachability set, which by the orbit lemma is the commutator
   closure Cl; and it never runs out of fuel. *)
From PauLie Require Import Pauli Sym SymT ClT ClosureGen ClosureN.
From Coq Require Import Lia.
Open Scope N_scope.

Definition DN (n : N) (a : P) : Prop := fst a < 2 ^ n /\ snd a < 2 ^ n.

Lemma lxor_lt_pow2 a b n : a < 2 ^ n -> b < 2 ^ n -> N.lxor a b < 2 ^ n.
Proof.
  intros Ha Hb. destruct (N.eq_dec (N.lxor a b) 0) as [E|E].
  - rewrite E. apply N.neq_0_lt_0. apply N.pow_nonzero. discriminate.
  - apply N.log2_lt_pow2; [apply N.neq_0_lt_0; exact E|].
    eapply N.le_lt_trans; [apply N.log2_lxor|].
    destruct (N.eq_dec a 0) as [->|Ea]; destruct (N.eq_dec b 0) as [->|Eb].
    + rewrite N.lxor_0_l in E. congruence.
    + rewrite N.max_r by (cbn; apply N.le_0_l). apply N.log2_lt_pow2; [apply N.neq_0_lt_0; exact Eb|exact Hb].
    + rewrite N.max_l by (cbn; apply N.le_0_l). apply N.log2_lt_pow2; [apply N.neq_0_lt_0; exact Ea|exact Ha].
    + apply N.max_lub_lt; apply N.log2_lt_pow2; try assumption; apply N.neq_0_lt_0; assumption.
Qed.
Lemma DN_mul n a b : DN n a -> DN n b -> DN n (mul a b).
Proof. intros [A1 A2] [B1 B2]. split; cbn [mul fst snd]; apply lxor_lt_pow2; assumption. Qed.

Lemma decode_code n a : DN n a -> decodeN n (codeN n a) = a.
Proof.
  intros [Hx Hz]. destruct a as [x z]; cbn [fst snd] in *. unfold decodeN, codeN; cbn [fst snd].
  rewrite N.pos_pred_succ. rewrite N.shiftl_mul_pow2, N.shiftr_div_pow2, N.land_ones.
  assert (Hp : 2 ^ n <> 0) by (apply N.pow_nonzero; discriminate).
  f_equal.
  - rewrite N.div_add_l by exact Hp. rewrite N.div_small by exact Hz. apply N.add_0_r.
  - rewrite N.add_comm, N.mod_add by exact Hp. apply N.mod_small; exact Hz.
Qed.

Lemma range_keeps k : forall acc c' (c : positive), In c acc -> In c (range k acc c').
Proof. induction k as [|k IHk]; intros acc c' c Hin; cbn [range]; [exact Hin|]. apply IHk. right. exact Hin. Qed.
Lemma range_in k : forall acc c x, (Npos c <= Npos x < Npos c + N.of_nat k) -> In x (range k acc c).
Proof.
  induction k as [|k IH]; intros acc c x [H1 H2].
  - exfalso. cbn in H2. lia.
  - cbn [range]. destruct (Pos.eq_dec x c) as [->|Hne].
    + apply range_keeps. left. reflexivity.
    + apply IH. lia.
Qed.
Lemma range_length k : forall acc c, length (range k acc c) = (k + length acc)%nat.
Proof. induction k as [|k IH]; intros acc c; cbn [range]; [reflexivity|]. rewrite IH. cbn [length]. lia. Qed.

Lemma universe_all n a : DN n a -> In (codeN n a) (universeN n).
Proof.
  intros [Hx Hz]. unfold universeN, codeN. apply range_in.
  rewrite N.succ_pos_spec, N2Nat.id, N.shiftl_mul_pow2, N.shiftl_1_l.
  assert (E : 2 ^ (2 * n) = 2 ^ n * 2 ^ n) by (rewrite <- N.pow_add_r; f_equal; lia).
  rewrite E. nia.
Qed.

Section Inst.
Variable n : N.
Variable G : list P.
Hypothesis G_D : forall g, In g G -> DN n g.

Theorem closureN_total : closureN n G <> None.
Proof. unfold closureN. apply (closure_total P mul anti (codeN n) (decodeN n) (DN n) (DN_mul n) (decode_code n) (universeN n) (universe_all n) G G_D). Qed.

Theorem closureN_reach R : closureN n G = Some R -> forall a, DN n a ->
  (PS.In (codeN n a) R <-> Reach P mul anti G a).
Proof. unfold closureN. apply (closure_spec P mul anti (codeN n) (decodeN n) (DN n) (DN_mul n) (decode_code n) (universeN n) G G_D). Qed.

(* Reach (generator steps from a generator) = commutator closure Cl *)
Lemma reach_iff_cl a : Reach P mul anti G a <-> Cl P mul anti (fun g => In g G) a.
Proof.
  rewrite (cl_is_orbits P mul anti mul_assoc mul_comm anti_sym anti_mul_r). split.
  - induction 1 as [g Hg | t g Ht [g0 [Hg0 IH]] Hg Ha].
    + exists g. split; [exact Hg|constructor].
    + exists g0. split; [exact Hg0|]. econstructor; eauto.
  - intros [g [Hg O]]. induction O as [|t h Ht IH Hh Hth]; [constructor; exact Hg|]. apply r_step; assumption.
Qed.

Theorem closureN_spec R : closureN n G = Some R -> forall a, DN n a ->
  (PS.In (codeN n a) R <-> Cl P mul anti (fun g => In g G) a).
Proof. intros H a Da. rewrite (closureN_reach R H a Da). apply reach_iff_cl. Qed.

Lemma cl_DN a : Cl P mul anti (fun g => In g G) a -> DN n a.
Proof. induction 1 as [g Hg|a b _ IHa _ IHb _]; [apply G_D; exact Hg|apply DN_mul; assumption]. Qed.
End Inst.

(* ---------- letters ---------- *)
Lemma encx_lt p : encx p < 2 ^ N.of_nat (length p).
Proof.
  induction p as [|a p IH]; [cbn; lia|]. cbn [length encx]. rewrite Nat2N.inj_succ, N.pow_succ_r'.
  destruct (xb a); [rewrite N.succ_double_spec|rewrite N.double_spec]; lia.
Qed.
Lemma encz_lt p : encz p < 2 ^ N.of_nat (length p).
Proof.
  induction p as [|a p IH]; [cbn; lia|]. cbn [length encz]. rewrite Nat2N.inj_succ, N.pow_succ_r'.
  destruct (zb a); [rewrite N.succ_double_spec|rewrite N.double_spec]; lia.
Qed.
Lemma enc_DN p : DN (N.of_nat (length p)) (enc p).
Proof. split; [apply encx_lt|apply encz_lt]. Qed.

Lemma enc_dec n : forall a, DN (N.of_nat n) a -> enc (dec n a) = a.
Proof.
  induction n as [|n IH]; intros [x z] [Hx Hz]; cbn [fst snd] in *.
  - cbn in Hx, Hz. assert (x = 0) by lia. assert (z = 0) by lia. subst. reflexivity.
  - rewrite Nat2N.inj_succ, N.pow_succ_r' in Hx, Hz. cbn [dec fst snd]. unfold enc. cbn [encx encz].
    assert (IH' := IH (N.div2 x, N.div2 z)). unfold enc in IH'. cbn [fst snd] in IH'.
    assert (Dx : N.div2 x < 2 ^ N.of_nat n) by (rewrite N.div2_div; apply N.div_lt_upper_bound; lia).
    assert (Dz : N.div2 z < 2 ^ N.of_nat n) by (rewrite N.div2_div; apply N.div_lt_upper_bound; lia).
    specialize (IH' (conj Dx Dz)). injection IH' as Ex Ez.
    assert (Lx : forall b, xb (ofb b (N.odd z)) = b) by (intros []; destruct (N.odd z); reflexivity).
    assert (Lz : forall b, zb (ofb (N.odd x) b) = b) by (intros []; destruct (N.odd x); reflexivity).
    rewrite Lx, Lz, Ex, Ez. f_equal.
    + destruct x as [|[q|q|]]; reflexivity.
    + destruct z as [|[q|q|]]; reflexivity.
Qed.

(* closure_strs: sound and complete w.r.t. Cl on the encoded generators, total on equal-length input *)
Theorem closure_strs_total n G : (forall g, In g G -> length g = n) -> closure_strs n G <> None.
Proof.
  intros HL. unfold closure_strs.
  replace (forallb (fun g => Nat.eqb (length g) n) G) with true.
  2:{ symmetry. apply forallb_forall. intros g Hg. apply Nat.eqb_eq. auto. }
  assert (HD : forall a, In a (map enc G) -> DN (N.of_nat n) a).
  { intros a Ha. apply in_map_iff in Ha. destruct Ha as [g [<- Hg]]. rewrite <- (HL g Hg). apply enc_DN. }
  pose proof (closureN_total (N.of_nat n) (map enc G) HD) as T.
  destruct (closureN (N.of_nat n) (map enc G)); [discriminate|contradiction].
Qed.

Theorem closure_strs_spec n G L : closure_strs n G = Some L ->
  forall p, length p = n -> (In p L <-> Cl P mul anti (fun a => In a (map enc G)) (enc p)).
Proof.
  unfold closure_strs. destruct (forallb (fun g => Nat.eqb (length g) n) G) eqn:HF; [|discriminate].
  assert (HL : forall g, In g G -> length g = n).
  { intros g Hg. rewrite forallb_forall in HF. apply Nat.eqb_eq. auto. }
  assert (HD : forall a, In a (map enc G) -> DN (N.of_nat n) a).
  { intros a Ha. apply in_map_iff in Ha. destruct Ha as [g [<- Hg]]. rewrite <- (HL g Hg). apply enc_DN. }
  destruct (closureN (N.of_nat n) (map enc G)) as [R|] eqn:HC; [|discriminate].
  intros [= <-] p Hp.
  assert (Dp : DN (N.of_nat n) (enc p)) by (rewrite <- Hp; apply enc_DN).
  rewrite <- (closureN_spec (N.of_nat n) (map enc G) HD R HC (enc p) Dp).
  rewrite in_map_iff. split.
  - intros [c [Hc Hin]].
    assert (Hin' : PS.In c R).
    { apply PSF.elements_iff. apply SetoidList.InA_alt. exists c; auto. }
    (* c is the code of a reachable element *)
    destruct (iter_sound P mul anti (codeN (N.of_nat n)) (decodeN (N.of_nat n)) (DN (N.of_nat n)) (DN_mul _) (decode_code _) (map enc G) HD _ _ _
               (init_sound P mul anti (codeN (N.of_nat n)) (map enc G)) HC) as [HS _].
    destruct (HS c Hin') as [a [Ra ->]].
    assert (Da : DN (N.of_nat n) a) by (apply (Reach_D P mul anti (DN (N.of_nat n)) (DN_mul _) (map enc G) HD a Ra)).
    rewrite decode_code in Hc by exact Da.
    assert (enc p = a) as -> by (rewrite <- Hc; apply enc_dec; exact Da). exact Hin'.
  - intros Hin. exists (codeN (N.of_nat n) (enc p)). split.
    + rewrite decode_code by exact Dp. rewrite <- Hp. apply dec_enc.
    + apply PSF.elements_iff in Hin. apply SetoidList.InA_alt in Hin. destruct Hin as [y [<- Hy]]. exact Hy.
Qed.
