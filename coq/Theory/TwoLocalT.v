(* Theory/TwoLocalT.v — facts about two-local families (C19). *)
From PauLie Require Import Pauli Sym ClT ClSym InvarT Parser ParserT ClosureN MatrixT.
From Coq Require Import Lia.

(* a set of pairwise commuting strings is its own commutator closure *)
Theorem cl_commuting (G : pstr -> Prop) : (forall a b, G a -> G b -> anti_l a b = false) -> forall p, ClL G p <-> G p.
Proof.
  intros HC p. split; [|intros H; constructor; exact H].
  induction 1 as [g Hg|a b _ IHa _ IHb Hab]; [exact Hg|]. rewrite (HC a b IHa IHb) in Hab. discriminate.
Qed.
(* strings over {I, X} commute with each other *)
Definition isIX (a : pl) : bool := match a with PI | PX => true | _ => false end.
Lemma anti_IX : forall p q, forallb isIX p = true -> forallb isIX q = true -> anti_l p q = false.
Proof.
  induction p as [|a p IH]; intros [|b q] Hp Hq; try reflexivity. cbn [forallb] in Hp, Hq.
  apply andb_true_iff in Hp, Hq. destruct Hp as [Ha Hp], Hq as [Hb Hq]. cbn [anti_l]. rewrite (IH q Hp Hq).
  destruct a, b; try discriminate; reflexivity.
Qed.
Lemma identity_IX m : forallb isIX (identity m) = true.
Proof. unfold identity. induction m; [reflexivity|]. cbn. exact IHm. Qed.
(* every family whose generators use only I and X (a0, b0, b1 of the table) generates, for EVERY n, exactly its own
   translates: an abelian algebra u(1)^m with m the number of distinct translates *)
Theorem IX_family_closure n gens out : (forall g, In g gens -> forallb isIX g = true) ->
  gens <> [] -> (maxlenL gens <= n)%nat -> k_local_generators n gens = Ok out ->
  forall p, ClL (fun g => In g out) p <-> In p out.
Proof.
  intros HIX Hne Hn HK. apply cl_commuting. intros a b Ha Hb.
  destruct (klocal_members n gens out Hne Hn HK) as [_ [Mem _]].
  apply Mem in Ha, Hb. destruct Ha as [ga [ja [Hga [_ ->]]]], Hb as [gb [jb [Hgb [_ ->]]]].
  apply anti_IX; unfold translate, padL; rewrite !forallb_app, !identity_IX, HIX by assumption; reflexivity.
Qed.
