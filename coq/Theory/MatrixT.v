(* Theory/MatrixT.v — the product theorem M(p)M(q) = phase * M(p.q) and the
   refinement of the bit-level formulas of the source to it. *)
From PauLie Require Import Pauli Matrix.
From Coq Require Import Lia.

Lemma gi_eq (a b: gi) : fst a = fst b -> snd a = snd b -> a = b.
Proof. destruct a, b; simpl; congruence. Qed.
Ltac gring := apply gi_eq; cbv beta iota delta [gmul gadd gneg gsub gconj g0 g1 gI fst snd]; ring.

Lemma gsum_app {A} (l1 l2: list A) f : gsum (l1 ++ l2) f = gadd (gsum l1 f) (gsum l2 f).
Proof. induction l1; simpl. - destruct (gsum l2 f); reflexivity. - rewrite IHl1. gring. Qed.
Lemma gsum_map {A B} (g: A -> B) l f : gsum (map g l) f = gsum l (fun x => f (g x)).
Proof. induction l; simpl; congruence. Qed.
Lemma gsum_scale {A} (l: list A) f c : gsum l (fun x => gmul c (f x)) = gmul c (gsum l f).
Proof. induction l; simpl. - gring. - rewrite IHl. gring. Qed.
Lemma gsum_ext {A} (l: list A) f g : (forall x, In x l -> f x = g x) -> gsum l f = gsum l g.
Proof. induction l; simpl; intros H; [reflexivity|]. rewrite H by auto. rewrite IHl; auto. Qed.
Lemma gsum_add {A} (l : list A) f g : gsum l (fun x => gadd (f x) (g x)) = gadd (gsum l f) (gsum l g).
Proof. induction l; simpl; [gring|]. rewrite IHl. gring. Qed.
Lemma gsum_zero {A} (l : list A) : gsum l (fun _ => g0) = g0.
Proof. induction l; simpl; [reflexivity|]. rewrite IHl. reflexivity. Qed.
Lemma bv_len n k : In k (bv n) -> length k = n.
Proof. revert k; induction n; simpl; intros k H. - destruct H as [<-|[]]; reflexivity.
  - apply in_app_or in H. destruct H as [H|H]; apply in_map_iff in H; destruct H as [k' [<- H]]; simpl; f_equal; auto. Qed.
Lemma bv_all n k : length k = n -> In k (bv n).
Proof. revert k; induction n; intros [|b k] H; try discriminate; simpl.
  - auto.
  - injection H as H. apply in_or_app. destruct b; [right|left]; apply in_map; auto. Qed.
Lemma sig_mul a b r c : gadd (gmul (sig a r false) (sig b false c)) (gmul (sig a r true) (sig b true c)) = gmul (ph1 a b) (sig (pm a b) r c).
Proof. destruct a, b, r, c; reflexivity. Qed.

Theorem M_mul : forall n p q r c, length p = n -> length q = n -> length r = n -> length c = n ->
  mmul n (M p) (M q) r c = gmul (phase p q) (M (smul p q) r c).
Proof.
  induction n; intros p q r c Hp Hq Hr Hc.
  - destruct p, q, r, c; try discriminate. reflexivity.
  - destruct p as [|a p], q as [|b q], r as [|r0 r], c as [|c0 c]; try discriminate.
    injection Hp as Hp; injection Hq as Hq; injection Hr as Hr; injection Hc as Hc.
    unfold mmul. simpl bv. rewrite gsum_app, !gsum_map. cbn [M smul phase].
    specialize (IHn p q r c Hp Hq Hr Hc). unfold mmul in IHn.
    rewrite (gsum_ext _ _ (fun k => gmul (gmul (sig a r0 false) (sig b false c0)) (gmul (M p r k) (M q k c)))).
    2:{ intros; gring. }
    rewrite (gsum_ext (bv n) (fun x => gmul (gmul (sig a r0 true) (M p r x)) _) (fun k => gmul (gmul (sig a r0 true) (sig b true c0)) (gmul (M p r k) (M q k c)))).
    2:{ intros; gring. }
    rewrite !gsum_scale, IHn.
    replace (gmul (gmul (ph1 a b) (phase p q)) (gmul (sig (pm a b) r0 c0) (M (smul p q) r c)))
      with (gmul (gmul (ph1 a b) (sig (pm a b) r0 c0)) (gmul (phase p q) (M (smul p q) r c))) by gring.
    rewrite <- (sig_mul a b r0 c0).
    gring.
Qed.

(* ---------- bit views ---------- *)
Lemma bits_cons a p : bits (a :: p) = xb a :: zb a :: bits p. Proof. reflexivity. Qed.
Lemma evens_bits p : evens (bits p) = map xb p.
Proof. induction p as [|a p IH]; [reflexivity|]. rewrite bits_cons. cbn [evens map]. f_equal. exact IH. Qed.
Lemma odds_bits p : odds (bits p) = map zb p.
Proof. induction p as [|a p IH]; [reflexivity|]. rewrite bits_cons. cbn [odds map]. f_equal. exact IH. Qed.
Lemma bits_length p : length (bits p) = (2 * length p)%nat.
Proof. induction p as [|a p IH]; [reflexivity|]. rewrite bits_cons. cbn [length]. rewrite IH. lia. Qed.
Lemma of_bits_bits p : of_bits (bits p) = p.
Proof. induction p as [|a p IH]; [reflexivity|]. rewrite bits_cons. cbn [of_bits]. rewrite IH. destruct a; reflexivity. Qed.
Lemma bxor_bits p q : length p = length q -> of_bits (bxor (bits p) (bits q)) = smul p q.
Proof. revert q; induction p as [|a p IH]; intros [|b q] H; try discriminate; [reflexivity|].
  injection H as H. rewrite !bits_cons. cbn [bxor of_bits smul]. rewrite IH by assumption. reflexivity. Qed.
Lemma smul_length p q : length p = length q -> length (smul p q) = length p.
Proof. revert q; induction p as [|a p IH]; intros [|b q] H; try discriminate; [reflexivity|]. simpl. f_equal. apply IH. injection H; auto. Qed.

(* ---------- phase exponent ---------- *)
Lemma mi_pow_add a b : mi_pow (a + b) = gmul (mi_pow a) (mi_pow b).
Proof.
  unfold mi_pow. rewrite Z.add_mod by lia.
  pose proof (Z.mod_pos_bound a 4 ltac:(lia)) as Ha. pose proof (Z.mod_pos_bound b 4 ltac:(lia)) as Hb.
  assert (Ea : a mod 4 = 0 \/ a mod 4 = 1 \/ a mod 4 = 2 \/ a mod 4 = 3) by lia.
  assert (Eb : b mod 4 = 0 \/ b mod 4 = 1 \/ b mod 4 = 2 \/ b mod 4 = 3) by lia.
  destruct Ea as [-> | [-> | [-> | ->]]]; destruct Eb as [-> | [-> | [-> | ->]]]; reflexivity.
Qed.
Definition f1 (a b : pl) : Z :=
  2 * (if xb a && zb b then 1 else 0) + (if zb a && xb a then 1 else 0) + (if zb b && xb b then 1 else 0)
  - (if xorb (xb a) (xb b) && xorb (zb a) (zb b) then 1 else 0).
Lemma f1_phase a b : mi_pow (f1 a b) = ph1 a b.
Proof. destruct a, b; reflexivity. Qed.
Lemma sign_exp_cons a p b q : sign_exp (a :: p) (b :: q) = f1 a b + sign_exp p q.
Proof. unfold sign_exp, f1. rewrite !evens_bits, !odds_bits. cbn [map bxor count_and]. ring. Qed.
Lemma sign_exp_nil : sign_exp [] [] = 0. Proof. reflexivity. Qed.
Lemma sign_exp_phase p q : length p = length q -> mi_pow (sign_exp p q) = phase p q.
Proof.
  revert q; induction p as [|a p IH]; intros [|b q] H; try discriminate; [reflexivity|].
  injection H as H. rewrite sign_exp_cons, mi_pow_add, f1_phase, IH by assumption. reflexivity.
Qed.
Theorem sign_code_ok p q : length p = length q -> sign_code p q = Ok (phase p q).
Proof. intros H. unfold sign_code. rewrite H, Nat.eqb_refl, sign_exp_phase by assumption. reflexivity. Qed.
Theorem multiply_code_ok p q : length p = length q -> multiply_code p q = Ok (smul p q).
Proof. intros H. unfold multiply_code. rewrite !bits_length, H, Nat.eqb_refl, bxor_bits by assumption. reflexivity. Qed.

(* ---------- commutation ---------- *)
Lemma count_and_par (p q : pstr) : length p = length q ->
  Z.eqb (count_and (map xb p) (map zb q) mod 2) (count_and (map xb q) (map zb p) mod 2) = negb (anti_l p q).
Proof.
  revert q; induction p as [|a p IH]; intros [|b q] H; try discriminate; [reflexivity|].
  injection H as H. specialize (IH q H). cbn [map count_and anti_l].
  set (u := count_and (map xb p) (map zb q)) in *. set (v := count_and (map xb q) (map zb p)) in *.
  assert (Hu : u mod 2 = 0 \/ u mod 2 = 1) by (pose proof (Z.mod_pos_bound u 2); lia).
  assert (Hv : v mod 2 = 0 \/ v mod 2 = 1) by (pose proof (Z.mod_pos_bound v 2); lia).
  rewrite (Z.add_mod _ u), (Z.add_mod _ v) by lia.
  destruct (anti_l p q); unfold anti1;
  destruct Hu as [Hu|Hu], Hv as [Hv|Hv]; rewrite Hu, Hv in *; cbn in IH; try discriminate;
  destruct a, b; reflexivity.
Qed.
Theorem commutes_code_ok p q : length p = length q -> commutes_code p q = Ok (negb (anti_l p q)).
Proof. intros H. unfold commutes_code. rewrite H, Nat.eqb_refl, !evens_bits, !odds_bits, count_and_par by assumption. reflexivity. Qed.
Theorem adjoint_code_ok p q : length p = length q ->
  adjoint_code p q = Ok (if anti_l p q then Some (smul p q) else None).
Proof. intros H. unfold adjoint_code. rewrite commutes_code_ok, multiply_code_ok by assumption. destruct (anti_l p q); reflexivity. Qed.
Theorem reject_unequal p q : length p <> length q ->
  sign_code p q = ValueError /\ commutes_code p q = ValueError /\ multiply_code p q = ValueError /\ adjoint_code p q = ValueError.
Proof.
  intros H. unfold adjoint_code, sign_code, commutes_code, multiply_code. rewrite !bits_length.
  apply Nat.eqb_neq in H. rewrite H. replace (2 * length p =? 2 * length q)%nat with false; [auto|].
  symmetry. apply Nat.eqb_neq. apply Nat.eqb_neq in H. lia.
Qed.

(* ---------- units, non-vanishing ---------- *)
Definition gnorm (a : gi) : Z := fst a * fst a + snd a * snd a.
Lemma gnorm_mul a b : gnorm (gmul a b) = gnorm a * gnorm b.
Proof. unfold gnorm, gmul; simpl; ring. Qed.
Lemma phase_unit p q : gnorm (phase p q) = 1.
Proof. revert q; induction p as [|a p IH]; intros [|b q]; try reflexivity. cbn [phase]. rewrite gnorm_mul, IH. destruct a, b; reflexivity. Qed.
Definition row0 (p : pstr) : list bool := map (fun _ => false) p.
Lemma M_entry_unit p : gnorm (M p (row0 p) (map xb p)) = 1.
Proof. induction p as [|a p IH]; [reflexivity|]. cbn [row0 map M]. rewrite gnorm_mul. fold (row0 p). rewrite IH. destruct a; reflexivity. Qed.
Lemma row0_length p : length (row0 p) = length p. Proof. apply map_length. Qed.

Lemma ph1_swap a b : ph1 a b = if anti1 a b then gneg (ph1 b a) else ph1 b a.
Proof. destruct a, b; reflexivity. Qed.
Lemma phase_swap p q : phase p q = if anti_l p q then gneg (phase q p) else phase q p.
Proof.
  revert q; induction p as [|a p IH]; intros [|b q]; try reflexivity.
  cbn [phase anti_l]. rewrite IH, ph1_swap. destruct (anti1 a b), (anti_l p q); cbn [xorb]; gring.
Qed.
Lemma pm_comm a b : pm a b = pm b a. Proof. destruct a, b; reflexivity. Qed.
Lemma smul_comm p q : smul p q = smul q p.
Proof. revert q; induction p as [|a p IH]; intros [|b q]; try reflexivity. cbn [smul]. rewrite pm_comm, IH. reflexivity. Qed.

Theorem commute_iff n p q : length p = n -> length q = n ->
  (anti_l p q = false <-> meq n (mmul n (M p) (M q)) (mmul n (M q) (M p))).
Proof.
  intros Hp Hq. split.
  - intros Ha r c Hr Hc. rewrite !M_mul by assumption. rewrite (phase_swap p q), Ha, (smul_comm p q). reflexivity.
  - intros Heq. destruct (anti_l p q) eqn:Ha; [exfalso|reflexivity].
    set (R := smul p q). assert (HR : length R = n) by (unfold R; rewrite smul_length; congruence).
    specialize (Heq (row0 R) (map xb R)). rewrite row0_length, map_length in Heq. specialize (Heq HR HR).
    rewrite !M_mul in Heq by (try assumption; rewrite ?row0_length, ?map_length; assumption).
    rewrite (phase_swap p q), Ha, (smul_comm q p) in Heq. fold R in Heq.
    pose proof (M_entry_unit R) as HU. pose proof (phase_unit q p) as HP.
    set (x := M R (row0 R) (map xb R)) in *. set (s := phase q p) in *.
    assert (Hz : gmul s x = g0).
    { apply gi_eq; [assert (E := f_equal fst Heq)|assert (E := f_equal snd Heq)];
      unfold gmul, gneg, g0 in *; simpl in *; lia. }
    assert (gnorm (gmul s x) = 1) by (rewrite gnorm_mul, HU, HP; reflexivity).
    rewrite Hz in H. discriminate.
Qed.

Lemma anti1_sym a b : anti1 a b = anti1 b a. Proof. destruct a, b; reflexivity. Qed.
Lemma anti_l_sym p q : anti_l p q = anti_l q p.
Proof. revert q; induction p as [|a p IH]; intros [|b q]; try reflexivity. cbn [anti_l]. rewrite anti1_sym, IH. reflexivity. Qed.

(* commutator when they anticommute: [M p, M q] = 2 phase M(pq) *)
Theorem commutator_anti n p q r c : length p = n -> length q = n -> length r = n -> length c = n ->
  anti_l p q = true ->
  gsub (mmul n (M p) (M q) r c) (mmul n (M q) (M p) r c) = gmul (2,0) (gmul (phase p q) (M (smul p q) r c)).
Proof.
  intros Hp Hq Hr Hc Ha. rewrite !M_mul by assumption. rewrite (phase_swap q p), (smul_comm q p), (anti_l_sym q p), Ha.
  gring.
Qed.
Theorem commutator_comm n p q r c : length p = n -> length q = n -> length r = n -> length c = n ->
  anti_l p q = false ->
  gsub (mmul n (M p) (M q) r c) (mmul n (M q) (M p) r c) = g0.
Proof.
  intros Hp Hq Hr Hc Ha. rewrite !M_mul by assumption. rewrite (phase_swap q p), (smul_comm q p), (anti_l_sym q p), Ha.
  gring.
Qed.

(* ---------- complex conjugation ---------- *)
Lemma sig_conj a r c : gconj (sig a r c) = gmul (if xb a && zb a then (-1,0) else g1) (sig a r c).
Proof. destruct a, r, c; reflexivity. Qed.
Fixpoint ysign (p : pstr) : Z := match p with [] => 1 | a :: p' => (if xb a && zb a then -1 else 1) * ysign p' end.
Lemma gconj_mul a b : gconj (gmul a b) = gmul (gconj a) (gconj b). Proof. gring. Qed.
Lemma M_conj p : forall r c, gconj (M p r c) = gmul (ysign p, 0) (M p r c).
Proof.
  induction p as [|a p IH]; intros [|r0 r] [|c0 c]; cbn [M ysign]; try (gring).
  rewrite gconj_mul, IH, sig_conj. destruct (xb a && zb a); gring.
Qed.
Lemma conj_code_ysign p : conj_code p = ysign p.
Proof.
  unfold conj_code. rewrite evens_bits, odds_bits. induction p as [|a p IH]; [reflexivity|].
  cbn [map count_and ysign]. rewrite <- IH. rewrite Z.even_add.
  destruct (zb a && xb a) eqn:E; rewrite (andb_comm (xb a)), E; cbn [Z.even Bool.eqb];
  destruct (Z.even (count_and (map zb p) (map xb p))); reflexivity.
Qed.
Theorem conj_code_ok p r c : gconj (M p r c) = gmul (conj_code p, 0) (M p r c).
Proof. rewrite conj_code_ysign. apply M_conj. Qed.
