(* Theory/UnionT.v — the commutator closure of mutually commuting generating sets is the union of their closures:
   the algebra of a collection is the direct sum of the algebras of the connected components of its anticommutation
   graph (one canonical graph per component: C01, C02). *)
From Coq Require Import List Bool Lia.
Import ListNotations.
From PauLie Require Import ClT GraphT.

Section U.
Variable P : Type.
Variable mul : P -> P -> P.
Variable anti : P -> P -> bool.
Hypothesis anti_sym : forall a b, anti a b = anti b a.
Hypothesis anti_mul_r : forall a b c, anti a (mul b c) = xorb (anti a b) (anti a c).
Notation Cl := (Cl P mul anti).

Lemma anti_mul_l' a b c : anti (mul a b) c = xorb (anti a c) (anti b c).
Proof. rewrite anti_sym, anti_mul_r, (anti_sym c a), (anti_sym c b); reflexivity. Qed.
(* the closures of two mutually commuting sets commute *)
Lemma cl_commute (G1 G2 : P -> Prop) : (forall a b, G1 a -> G2 b -> anti a b = false) ->
  forall a b, Cl G1 a -> Cl G2 b -> anti a b = false.
Proof.
  intros H a b Ha. revert b. induction Ha as [g Hg|x y _ IHx _ IHy _]; intros b Hb.
  - induction Hb as [h Hh|u v _ IHu _ IHv _]; [apply H; assumption|]. rewrite anti_mul_r, IHu, IHv. reflexivity.
  - rewrite anti_mul_l', (IHx b Hb), (IHy b Hb). reflexivity.
Qed.
Theorem cl_union_commuting (G1 G2 : P -> Prop) : (forall a b, G1 a -> G2 b -> anti a b = false) ->
  forall p, Cl (fun g => G1 g \/ G2 g) p <-> Cl G1 p \/ Cl G2 p.
Proof.
  intros H p. split.
  - induction 1 as [g [Hg|Hg]|a b _ IHa _ IHb Hab]; [left; apply cl_gen; exact Hg|right; apply cl_gen; exact Hg|].
    destruct IHa as [A1|A2], IHb as [B1|B2].
    + left. apply cl_br; assumption.
    + rewrite (cl_commute G1 G2 H a b A1 B2) in Hab. discriminate.
    + rewrite anti_sym, (cl_commute G1 G2 H b a B1 A2) in Hab. discriminate.
    + right. apply cl_br; assumption.
  - intros [H1|H2]; [revert H1|revert H2]; apply cl_mono; intros g Hg; apply cl_gen; [left|right]; exact Hg.
Qed.
(* any number of classes with no anticommuting pair across two of them (GraphT.separated) *)
Theorem cl_classes_commuting (cs : list (list P)) : separated P anti cs ->
  forall p, Cl (fun g => In g (concat cs)) p <-> exists c, In c cs /\ Cl (fun g => In g c) p.
Proof.
  induction cs as [|c0 rest IH]; intros Hs p.
  - cbn [concat]. split; [|intros [c [[] _]]]. intros Hp. exfalso. induction Hp as [g []|]; assumption.
  - cbn [separated] in Hs. destruct Hs as [H0 Hr].
    assert (E : forall q, Cl (fun g => In g (concat (c0 :: rest))) q <-> Cl (fun g => In g c0 \/ In g (concat rest)) q).
    { apply cl_ext. intros g. cbn [concat]. apply in_app_iff. }
    rewrite E, cl_union_commuting; [|exact H0].
    rewrite (IH Hr). split.
    + intros [Hc|[c [Hc Hp]]]; [exists c0; split; [left; reflexivity|exact Hc]|exists c; split; [right; exact Hc|exact Hp]].
    + intros [c [[<-|Hc] Hp]]; [left; exact Hp|right; exists c; split; assumption].
Qed.
End U.

(* ---------- the model's generator components (Model/LieInv.v: gen_components) ---------- *)
From PauLie Require Import Pauli Sym SymT ClSym Graph LieInv.
From Coq Require Import Permutation.

Lemma lie_grow_eq : forall fuel comp rest, LieInv.grow fuel comp rest = Graph.grow P anti fuel comp rest.
Proof. induction fuel as [|f IH]; intros comp rest; [reflexivity|]. cbn [LieInv.grow Graph.grow]. destruct (partition _ rest) as [adj far]. destruct adj; [reflexivity|apply IH]. Qed.
Lemma lie_components_eq : forall fuel l, LieInv.components fuel l = Graph.components P anti fuel l.
Proof.
  induction fuel as [|f IH]; intros l; [reflexivity|]. cbn [LieInv.components Graph.components]. destruct l as [|a t]; [reflexivity|].
  rewrite lie_grow_eq. destruct (Graph.grow P anti (length t) [a] t) as [c rest]. rewrite IH. reflexivity.
Qed.
Lemma memP_In a l : memP a l = true <-> In a l.
Proof. unfold memP. rewrite existsb_exists. split; [intros [x [Hx E]]; apply P_eqb_eq in E; subst; exact Hx|intros H; exists a; split; [exact H|apply P_eqb_eq; reflexivity]]. Qed.
Lemma dedup_In l : forall a, In a (dedup l) <-> In a l.
Proof.
  induction l as [|b t IH]; intros a; [reflexivity|]. cbn [dedup]. destruct (memP b t) eqn:E.
  - rewrite IH. apply memP_In in E. split; [intros H; right; exact H|intros [<-|H]; assumption].
  - cbn [In]. rewrite IH. reflexivity.
Qed.
Lemma dedup_NoDup l : NoDup (dedup l).
Proof.
  induction l as [|b t IH]; [constructor|]. cbn [dedup]. destruct (memP b t) eqn:E; [exact IH|]. constructor; [|exact IH].
  rewrite dedup_In. intros H. apply memP_In in H. congruence.
Qed.
(* the generator components: a partition of the distinct generators into classes that are connected in the
   anticommutation graph, with no anticommuting pair across two classes *)
Theorem gen_components_spec G :
  Permutation (concat (gen_components G)) (dedup G) /\
  Forall (fun c => exists seed, In seed c /\ forall x, In x c -> conn P anti (fun x => In x G) seed x) (gen_components G) /\
  separated P anti (gen_components G).
Proof.
  unfold gen_components. rewrite lie_components_eq.
  apply (components_spec P anti (fun x => In x G) (length (dedup G)) (dedup G) (le_n _)). intros x Hx. apply dedup_In. exact Hx.
Qed.
(* the algebra of a collection is the union (direct sum) of the algebras of its generator components *)
Theorem components_closure G p : ClS (fun g => In g G) p <-> exists c, In c (gen_components G) /\ ClS (fun g => In g c) p.
Proof.
  destruct (gen_components_spec G) as [Pm [_ Sep]].
  rewrite <- (cl_classes_commuting P mul anti anti_sym anti_mul_r (gen_components G) Sep p).
  apply s_ext. intros g. rewrite <- dedup_In. split; intros H; [apply (Permutation_in g (Permutation_sym Pm))|apply (Permutation_in g Pm)]; exact H.
Qed.
