(* Theory/CollectionT.v — invariants of the collection state machine over all edit histories (C10). *)
From PauLie Require Import Pauli Collection MatrixT.
From Coq Require Import Lia Permutation.

Definition Inv (s : coll) : Prop := cache s = None \/ exists c, cache s = Some c /\ Permutation c (gens s).
Definition uniform (l : list pstr) : Prop := forall g, In g l -> length g = maxlen l.

Lemma insert_sorted_perm x l : Permutation (insert_sorted x l) (x :: l).
Proof.
  induction l as [|a t IH]; cbn [insert_sorted]; [reflexivity|].
  destruct (pstr_ltb x a); [reflexivity|]. rewrite IH. apply perm_swap.
Qed.
Lemma sort_perm l : Permutation (sort_strs l) l.
Proof. unfold sort_strs. induction l as [|a t IH]; cbn [fold_right]; [reflexivity|]. rewrite insert_sorted_perm, IH. reflexivity. Qed.

Lemma inv_step s o : Inv s -> Inv (fst (step true s o)).
Proof.
  intros HI. destruct o; cbn [step].
  - destruct (processing true (gens s) p). left. reflexivity.
  - destruct (processing true (gens s) p). left. reflexivity.
  - left. reflexivity.
  - destruct (norm_index _ _); left; reflexivity.
  - destruct (find p (gens s)); [|exact HI]. destruct (processing true (gens s) q). left. reflexivity.
  - destruct (Nat.eqb _ _); [|exact HI]. destruct (find p (gens s)); [|exact HI]. destruct (processing true (gens s) (smul p q)). left. reflexivity.
  - destruct (expand_to true n (gens s)); left; reflexivity.
  - cbn [fst]. destruct HI as [HI|[c [HI HP]]]; [left; exact HI|]. right. exists c. cbn [cache gens]. split; [exact HI|].
    rewrite HP. symmetry. apply sort_perm.
  - destruct (cache s) eqn:E; cbn [fst]; [exact HI|]. right. exists (gens s). split; reflexivity.
Qed.
Lemma answer_step s o c : Inv s -> snd (step true s o) = Answer c -> Permutation c (gens s).
Proof.
  intros HI. destruct o; cbn [step]; try discriminate.
  - destruct (processing true (gens s) p); discriminate.
  - destruct (processing true (gens s) p); discriminate.
  - destruct (norm_index _ _); discriminate.
  - destruct (find p (gens s)); [destruct (processing true (gens s) q)|]; discriminate.
  - destruct (Nat.eqb _ _); [destruct (find p (gens s)); [destruct (processing true (gens s) (smul p q))|]|]; discriminate.
  - destruct (expand_to true n (gens s)); discriminate.
  - destruct (cache s) as [c0|] eqn:E; cbn [snd]; intros [= <-]; [|reflexivity].
    destruct HI as [HI|[c1 [HI HP]]]; [congruence|]. rewrite E in HI. injection HI as <-. exact HP.
Qed.

(* (state before the step, output of the step) along a history *)
Fixpoint trace (fixed : bool) (s : coll) (ops : list op) : list (coll * out) :=
  match ops with [] => [] | o :: t => (s, snd (step fixed s o)) :: trace fixed (fst (step fixed s o)) t end.
Definition fresh_answer (x : coll * out) : Prop :=
  match snd x with Answer c => Permutation c (gens (fst x)) | _ => True end.

Theorem fresh_along_history ops : forall s, Inv s -> Forall fresh_answer (trace true s ops).
Proof.
  induction ops as [|o t IH]; intros s HI; cbn [trace]; constructor.
  - unfold fresh_answer. cbn [fst snd]. destruct (snd (step true s o)) eqn:E; try exact I. apply (answer_step s o from HI E).
  - apply IH. apply inv_step. exact HI.
Qed.
Lemma inv_mk l : Inv (mk l). Proof. left. reflexivity. Qed.

(* queries are read-only on the strings, and a repeated query answers the same *)
Lemma query_readonly s : gens (fst (step true s Query)) = gens s.
Proof. cbn. destruct (cache s); reflexivity. Qed.
Lemma query_stable s : snd (step true (fst (step true s Query)) Query) = snd (step true s Query).
Proof. cbn. destruct (cache s) eqn:E; cbn; rewrite ?E; reflexivity. Qed.

(* ---------- all strings keep one common length ---------- *)
Lemma pad_length n p : (length p <= n)%nat -> length (pad n p) = n.
Proof. intros H. unfold pad, identity. rewrite app_length, repeat_length. lia. Qed.
Lemma maxlen_cons a t : maxlen (a :: t) = Nat.max (length a) (maxlen t). Proof. reflexivity. Qed.
Lemma maxlen_ge l g : In g l -> (length g <= maxlen l)%nat.
Proof. induction l as [|a t IH]; [intros []|]. rewrite maxlen_cons. intros [<-|H]; [lia|]. specialize (IH H). lia. Qed.
Lemma maxlen_const l n : l <> [] -> (forall g, In g l -> length g = n) -> maxlen l = n.
Proof.
  induction l as [|a t IH]; [congruence|]. intros _ H. rewrite maxlen_cons. destruct t as [|b t'].
  - change (maxlen []) with 0%nat. rewrite (H a) by (left; reflexivity). lia.
  - rewrite IH; [|discriminate|intros g Hg; apply H; right; exact Hg]. rewrite (H a) by (left; reflexivity). lia.
Qed.
Lemma uniform_of_const l n : (forall g, In g l -> length g = n) -> uniform l.
Proof.
  intros H g Hg. destruct l as [|a t]; [destruct Hg|]. rewrite (maxlen_const (a :: t) n); [apply H; exact Hg|discriminate|exact H].
Qed.
Lemma uniform_const l : uniform l -> forall g, In g l -> length g = maxlen l.
Proof. auto. Qed.
Lemma uniform_mk l : uniform (gens (mk l)).
Proof.
  apply (uniform_of_const _ (maxlen l)). cbn [mk gens]. intros g Hg. apply in_map_iff in Hg. destruct Hg as [h [<- Hh]].
  apply pad_length. apply maxlen_ge. exact Hh.
Qed.
Lemma In_set_nth k x l g : In g (set_nth k x l) -> g = x \/ In g l.
Proof.
  revert k; induction l as [|a t IH]; intros k H; [destruct k; destruct H|]. destruct k; cbn in H.
  - destruct H as [<-|H]; [left; reflexivity|right; right; exact H].
  - destruct H as [<-|H]; [right; left; reflexivity|]. destruct (IH k H) as [->|H']; [left; reflexivity|right; right; exact H'].
Qed.
Lemma In_insert_at k x l g : In g (insert_at k x l) -> g = x \/ In g l.
Proof.
  revert l; induction k as [|k IH]; intros l H; cbn in H.
  - destruct H as [<-|H]; auto.
  - destruct l as [|a t]; cbn in H.
    + destruct H as [<-|[]]; auto.
    + destruct H as [<-|H]; [right; left; reflexivity|]. destruct (IH t H) as [->|H']; [left; reflexivity|right; right; exact H'].
Qed.
Lemma In_remove1 p l g : In g (remove1 p l) -> In g l.
Proof. induction l as [|a t IH]; cbn; [auto|]. destruct (pstr_eqb p a); [auto|]. intros [<-|H]; auto. Qed.
Lemma In_delete_at k l g : In g (delete_at k l) -> In g l.
Proof. revert k; induction l as [|a t IH]; intros k H; [destruct k; destruct H|]. destruct k; cbn in H; [right; exact H|]. destruct H as [<-|H]; [left; reflexivity|right; eapply IH; exact H]. Qed.
Lemma In_insert_sorted x l g : In g (insert_sorted x l) -> g = x \/ In g l.
Proof. intros H. apply (Permutation_in g (insert_sorted_perm x l)) in H. destruct H as [<-|H]; auto. Qed.

(* the result of `processing`: a uniform list and an argument of the common length *)
Lemma processing_uniform l p l' p' : uniform l -> processing true l p = (l', p') ->
  exists n, (forall g, In g l' -> length g = n) /\ (l' <> [] -> length p' = n).
Proof.
  intros HU. unfold processing. destruct l as [|a t] eqn:El.
  - intros [= <- <-]. exists 0%nat. split; [intros g []|congruence].
  - rewrite <- El in *. set (m := maxlen l) in *.
    destruct (Nat.ltb (length p) m) eqn:E1.
    + intros [= <- <-]. exists m. apply Nat.ltb_lt in E1. split; [exact HU|intros _; apply pad_length; lia].
    + destruct (Nat.ltb m (length p)) eqn:E2.
      * unfold expand_to. apply Nat.ltb_lt in E2.
        assert (HF : forallb (fun g => Nat.leb (length g) (length p)) l = true).
        { apply forallb_forall. intros g Hg. apply Nat.leb_le. rewrite (HU g Hg). fold m. lia. }
        rewrite HF. intros [= <- <-]. exists (length p). split; [|reflexivity].
        intros g Hg. apply in_map_iff in Hg. destruct Hg as [h [<- Hh]]. apply pad_length. rewrite (HU h Hh). fold m. lia.
      * intros [= <- <-]. apply Nat.ltb_ge in E1, E2. exists m. split; [exact HU|intros _; lia].
Qed.

Theorem uniform_step s o : uniform (gens s) -> uniform (gens (fst (step true s o))).
Proof.
  intros HU. destruct o; cbn [step].
  - destruct (processing true (gens s) p) as [l p'] eqn:EP. cbn [fst gens].
    destruct (processing_uniform _ _ _ _ HU EP) as [n [H1 H2]].
    destruct (memS p' l); [apply (uniform_of_const _ n H1)|].
    destruct l as [|a t].
    + apply (uniform_of_const _ (length p')). intros g [<-|[]]. reflexivity.
    + apply (uniform_of_const _ n). intros g Hg. apply in_app_or in Hg. destruct Hg as [Hg|[<-|[]]]; [auto|apply H2; discriminate].
  - destruct (processing true (gens s) p) as [l p'] eqn:EP. cbn [fst gens].
    destruct (processing_uniform _ _ _ _ HU EP) as [n [H1 H2]].
    destruct (memS p' l); [apply (uniform_of_const _ n H1)|].
    destruct l as [|a t].
    + apply (uniform_of_const _ (length p')). intros g Hg. apply In_insert_at in Hg. destruct Hg as [->|[]]. reflexivity.
    + apply (uniform_of_const _ n). intros g Hg. apply In_insert_at in Hg. destruct Hg as [->|Hg]; [apply H2; discriminate|auto].
  - cbn [fst gens]. apply (uniform_of_const _ (maxlen (gens s))). intros g Hg. apply HU. eapply In_remove1; exact Hg.
  - destruct (norm_index _ _); cbn [fst gens]; [|exact HU].
    apply (uniform_of_const _ (maxlen (gens s))). intros g Hg. apply HU. eapply In_delete_at; exact Hg.
  - destruct (find p (gens s)) as [k|] eqn:EF; [|exact HU].
    destruct (processing true (gens s) q) as [l q'] eqn:EP. cbn [fst gens].
    destruct (processing_uniform _ _ _ _ HU EP) as [n [H1 H2]].
    destruct l as [|a t]; [destruct k; intros g []|].
    apply (uniform_of_const _ n). intros g Hg. apply In_set_nth in Hg. destruct Hg as [->|Hg]; [apply H2; discriminate|auto].
  - destruct (Nat.eqb (length p) (length q)) eqn:EL; [|exact HU]. destruct (find p (gens s)) as [k|] eqn:EF; [|exact HU].
    destruct (processing true (gens s) (smul p q)) as [l q'] eqn:EP. cbn [fst gens].
    destruct (processing_uniform _ _ _ _ HU EP) as [n [H1 H2]].
    destruct l as [|a t]; [destruct k; intros g []|].
    apply (uniform_of_const _ n). intros g Hg. apply In_set_nth in Hg. destruct Hg as [->|Hg]; [apply H2; discriminate|auto].
  - destruct (expand_to true n (gens s)) as [l|] eqn:EE; cbn [fst gens]; [|exact HU].
    unfold expand_to in EE. destruct (forallb (fun g => Nat.leb (length g) n) (gens s)) eqn:EF; [|discriminate]. injection EE as <-.
    apply (uniform_of_const _ n). intros g Hg. apply in_map_iff in Hg. destruct Hg as [h [<- Hh]]. apply pad_length.
    rewrite forallb_forall in EF. apply Nat.leb_le. apply EF. exact Hh.
  - cbn [fst gens]. apply (uniform_of_const _ (maxlen (gens s))). intros g Hg. apply HU.
    apply (Permutation_in g (sort_perm (gens s))). exact Hg.
  - destruct (cache s); exact HU.
Qed.
Theorem uniform_along_history ops : forall s, uniform (gens s) ->
  uniform (gens (fold_left (fun s o => fst (step true s o)) ops s)).
Proof. induction ops as [|o t IH]; intros s H; cbn [fold_left]; [exact H|]. apply IH. apply uniform_step. exact H. Qed.

(* append never loses a string: every old string is still there, padded to the new common length *)
Theorem append_keeps s p g : uniform (gens s) -> In g (gens s) ->
  exists g', In g' (gens (fst (step true s (Append p)))) /\ exists k, g' = g ++ identity k.
Proof.
  intros HU Hg. cbn [step]. destruct (processing true (gens s) p) as [l p'] eqn:EP. cbn [fst gens].
  assert (HL : exists g', In g' l /\ exists k, g' = g ++ identity k).
  { unfold processing in EP. destruct (gens s) as [|a t] eqn:El; [destruct Hg|]. rewrite <- El in *.
    destruct (Nat.ltb (length p) (maxlen (gens s))); [injection EP as <- <-; exists g; split; [exact Hg|exists 0%nat; cbn; rewrite app_nil_r; reflexivity]|].
    destruct (Nat.ltb (maxlen (gens s)) (length p)) eqn:E2; [|injection EP as <- <-; exists g; split; [exact Hg|exists 0%nat; cbn; rewrite app_nil_r; reflexivity]].
    unfold expand_to in EP. destruct (forallb (fun g0 => Nat.leb (length g0) (length p)) (gens s)); injection EP as <- <-.
    - exists (pad (length p) g). split; [apply in_map; exact Hg|]. exists (length p - length g)%nat. reflexivity.
    - exists g; split; [exact Hg|exists 0%nat; cbn; rewrite app_nil_r; reflexivity]. }
  destruct HL as [g' [Hg' Hk]]. exists g'. split; [|exact Hk].
  destruct (memS p' l); [exact Hg'|apply in_or_app; left; exact Hg'].
Qed.
