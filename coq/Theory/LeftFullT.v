(* Theory/LeftFullT.v — for even k the left set {X_i, Z_i (i < k), Z^k} generates every non-identity string on k
   qubits; with Theory/ExtendT.v: for every N and every even k the universal set generates all 4^N - 1 non-identity
   strings (C07, the clause that fails for every odd k). *)
From PauLie Require Import Pauli Sym SymT ClT ClSym Matrix MatrixT InvarT Compiler CompilerT Linear LinearT QuadraticT QuadInvT UniversalT ExtendT.
From Coq Require Import Lia.

Lemma pl_eq_dec (a b : pl) : {a = b} + {a <> b}.
Proof. decide equality. Qed.
Definition Lk (k : nat) : pstr -> Prop := fun g => In g (left_a_minimal k).
Lemma single_gen k i a : (i < k)%nat -> a = PX \/ a = PZ -> Lk k (get_single k i a).
Proof.
  intros Hi Ha. unfold Lk, left_a_minimal. apply in_or_app. left. apply in_flat_map. exists i. split; [apply in_seq; lia|].
  destruct Ha as [->| ->]; [left|right; left]; reflexivity.
Qed.
Lemma single_unfold k i a : get_single k i a = identity i ++ a :: identity (k - i - 1).
Proof. reflexivity. Qed.
Lemma smul_single_at pre a c post : smul (identity (length pre) ++ c :: identity (length post)) (pre ++ a :: post) = pre ++ pm c a :: post.
Proof. rewrite smul_app by apply identity_length. cbn [smul]. rewrite !smul_id_l. reflexivity. Qed.
Lemma anti_single_at pre a c post : anti_l (identity (length pre) ++ c :: identity (length post)) (pre ++ a :: post) = anti1 c a.
Proof. rewrite anti_l_app by apply identity_length. cbn [anti_l]. rewrite !anti_identity_l. destruct (anti1 c a); reflexivity. Qed.
Lemma single_cl k i a : (i < k)%nat -> a <> PI -> ClL (Lk k) (get_single k i a).
Proof.
  intros Hi Ha. destruct a; try congruence; try (apply cl_gen; apply single_gen; [exact Hi|tauto]).
  (* Y = X . Z *)
  replace (get_single k i PY) with (smul (get_single k i PX) (get_single k i PZ)).
  - apply cl_br; try (apply cl_gen; apply single_gen; [exact Hi|tauto]).
    rewrite !single_unfold. rewrite <- (identity_length i) at 1. rewrite <- (identity_length (k - i - 1)) at 1. rewrite anti_single_at. reflexivity.
  - rewrite !single_unfold. rewrite <- (identity_length i) at 1. rewrite <- (identity_length (k - i - 1)) at 1. rewrite smul_single_at. reflexivity.
Qed.

(* relabelling the non-identity letters stays inside the closure *)
Lemma relabel k : forall p pre q, (length pre + length p = k)%nat -> map is_id1 p = map is_id1 q ->
  ClL (Lk k) (pre ++ p) -> ClL (Lk k) (pre ++ q).
Proof.
  induction p as [|a p IH]; intros pre [|b q] Hk Hs Hc; try discriminate; [exact Hc|].
  cbn [map] in Hs. injection Hs as Hab Hs. cbn [length] in Hk.
  assert (Step : ClL (Lk k) (pre ++ b :: p)).
  { destruct (pl_eq_dec a b) as [->|Hne]; [exact Hc|].
    assert (Ha : a <> PI) by (intros ->; destruct b; try discriminate; congruence).
    assert (Hb : b <> PI) by (intros ->; destruct a; try discriminate; congruence).
    replace (pre ++ b :: p) with (smul (get_single k (length pre) (pm a b)) (pre ++ a :: p)).
    - apply cl_br; [apply single_cl; [lia|destruct a, b; try congruence; cbn; discriminate]|exact Hc|].
      rewrite single_unfold. replace (k - length pre - 1)%nat with (length p) by lia. rewrite anti_single_at. destruct a, b; try congruence; reflexivity.
    - rewrite single_unfold. replace (k - length pre - 1)%nat with (length p) by lia. rewrite smul_single_at. f_equal. f_equal. destruct a, b; try congruence; reflexivity. }
  replace (pre ++ b :: q) with ((pre ++ [b]) ++ q) by (rewrite <- app_assoc; reflexivity).
  apply (IH (pre ++ [b]) q); [rewrite app_length; cbn [length]; lia|exact Hs|]. rewrite <- app_assoc. exact Step.
Qed.

(* full-weight strings *)
Lemma full_cl k q : (1 <= k)%nat -> length q = k -> forallb (fun a => negb (is_id1 a)) q = true -> ClL (Lk k) q.
Proof.
  intros Hk Lq Hq. apply (relabel k (repeat PZ k) [] q); [cbn [length]; rewrite repeat_length; reflexivity| |].
  - subst k. clear Hk. induction q as [|a q IH]; [reflexivity|]. cbn [forallb] in Hq. apply andb_true_iff in Hq. destruct Hq as [Ha Hq].
    cbn [length repeat map]. rewrite (IH Hq). destruct a; try discriminate; reflexivity.
  - cbn [app]. apply cl_gen. unfold Lk, left_a_minimal. apply in_or_app. right. left. reflexivity.
Qed.
(* odd support: product of two full-weight strings *)
Definition la (l : pl) : pl := match l with PI => PZ | PX => PY | PY => PZ | PZ => PX end.
Definition lb (l : pl) : pl := match l with PI => PZ | PX => PZ | PY => PX | PZ => PY end.
Fixpoint oddw (p : pstr) : bool := match p with [] => false | a :: t => xorb (negb (is_id1 a)) (oddw t) end.
Lemma lab_mul p : smul (map la p) (map lb p) = p.
Proof. induction p as [|a p IH]; [reflexivity|]. cbn [map smul]. rewrite IH. destruct a; reflexivity. Qed.
Lemma lab_anti p : anti_l (map la p) (map lb p) = oddw p.
Proof. induction p as [|a p IH]; [reflexivity|]. cbn [map anti_l oddw]. rewrite IH. destruct a; reflexivity. Qed.
Lemma la_full p : forallb (fun a => negb (is_id1 a)) (map la p) = true.
Proof. induction p as [|a p IH]; [reflexivity|]. cbn [map forallb]. rewrite IH. destruct a; reflexivity. Qed.
Lemma lb_full p : forallb (fun a => negb (is_id1 a)) (map lb p) = true.
Proof. induction p as [|a p IH]; [reflexivity|]. cbn [map forallb]. rewrite IH. destruct a; reflexivity. Qed.
Lemma odd_cl k p : (1 <= k)%nat -> length p = k -> oddw p = true -> ClL (Lk k) p.
Proof.
  intros Hk Lp Ho. rewrite <- (lab_mul p). apply cl_br; [apply full_cl; [exact Hk|rewrite map_length; exact Lp|apply la_full]|apply full_cl; [exact Hk|rewrite map_length; exact Lp|apply lb_full]|].
  rewrite lab_anti. exact Ho.
Qed.
(* even non-empty support, k even: a full-weight string times an odd-support string *)
Fixpoint ea (seen : bool) (p : pstr) : pstr :=
  match p with [] => [] | l :: t => if is_id1 l then PZ :: ea seen t else if seen then l :: ea true t else la l :: ea true t end.
Fixpoint eb (seen : bool) (p : pstr) : pstr :=
  match p with [] => [] | l :: t => if is_id1 l then PZ :: eb seen t else if seen then PI :: eb true t else lb l :: eb true t end.
Lemma eab_mul : forall p s, smul (ea s p) (eb s p) = p.
Proof. induction p as [|a p IH]; intros s; [reflexivity|]. cbn [ea eb]. destruct a, s; cbn [is_id1 smul]; rewrite IH; reflexivity. Qed.
Lemma ea_full : forall p s, forallb (fun a => negb (is_id1 a)) (ea s p) = true.
Proof. induction p as [|a p IH]; intros s; [reflexivity|]. cbn [ea]. destruct a, s; cbn [is_id1 forallb la]; rewrite IH; reflexivity. Qed.
Lemma ea_length : forall p s, length (ea s p) = length p.
Proof. induction p as [|a p IH]; intros s; [reflexivity|]. cbn [ea]. destruct a, s; cbn [is_id1 length]; rewrite IH; reflexivity. Qed.
Lemma eb_length : forall p s, length (eb s p) = length p.
Proof. induction p as [|a p IH]; intros s; [reflexivity|]. cbn [eb]. destruct a, s; cbn [is_id1 length]; rewrite IH; reflexivity. Qed.
Lemma eab_anti : forall p s, anti_l (ea s p) (eb s p) = if s then false else negb (is_identity p).
Proof.
  induction p as [|a p IH]; intros s; [destruct s; reflexivity|]. cbn [ea eb]. unfold is_identity in *. cbn [forallb].
  destruct a, s; cbn [is_id1 anti_l la lb andb]; rewrite IH; try reflexivity; cbn; try reflexivity; destruct (forallb is_id1 p); reflexivity.
Qed.
Lemma eb_odd : forall p s, oddw (eb s p) = xorb (xorb (Nat.odd (length p)) (oddw p)) (if s then false else negb (is_identity p)).
Proof.
  induction p as [|a p IH]; intros s; [destruct s; reflexivity|]. cbn [eb]. unfold is_identity in *. cbn [forallb length]. rewrite Nat.odd_succ, <- Nat.negb_odd.
  destruct a, s; cbn [is_id1 oddw lb andb negb]; rewrite IH; cbn [is_id1 negb]; destruct (Nat.odd (length p)), (oddw p), (forallb is_id1 p); reflexivity.
Qed.
Lemma is_identity_iff p : is_identity p = true <-> p = identity (length p).
Proof.
  induction p as [|a p IH]; [split; reflexivity|]. unfold is_identity in *. cbn [forallb length identity repeat]. fold (identity (length p)). rewrite andb_true_iff, IH. split.
  - intros [Ha ->]. rewrite identity_length. destruct a; try discriminate. reflexivity.
  - intros [= -> E]. split; [reflexivity|exact E].
Qed.

Theorem left_full k p : Nat.even k = true -> length p = k -> p <> identity k -> ClL (Lk k) p.
Proof.
  intros Hev Lp Np. assert (Hk : (1 <= k)%nat) by (destruct p; [exfalso; apply Np; subst k; reflexivity|cbn in Lp; lia]).
  destruct (oddw p) eqn:Ho; [apply odd_cl; assumption|].
  assert (Hid : is_identity p = false).
  { destruct (is_identity p) eqn:E; [|reflexivity]. exfalso. apply Np. rewrite <- Lp. apply is_identity_iff. exact E. }
  rewrite <- (eab_mul p false). apply cl_br.
  - apply full_cl; [exact Hk|rewrite ea_length; exact Lp|apply ea_full].
  - apply odd_cl; [exact Hk|rewrite eb_length; exact Lp|]. rewrite eb_odd, Ho, Hid, Lp. rewrite <- Nat.negb_even, Hev. reflexivity.
  - rewrite eab_anti, Hid. reflexivity.
Qed.

(* ---------- the universal set, one right qubit at a time ---------- *)
Definition Uk (k nr : nat) : list pstr :=
  map (fun a => a ++ identity nr) (left_a_minimal k)
  ++ map (fun j => choose_u k ++ get_single nr j PX) (seq 0 nr)
  ++ map (fun j => choose_u k ++ get_single nr j PZ) (seq 0 nr).
Lemma identity_snoc m : identity (S m) = identity m ++ [PI].
Proof. unfold identity. rewrite <- repeat_cons. reflexivity. Qed.
Lemma single_snoc m j a : (j < m)%nat -> get_single m j a ++ [PI] = get_single (S m) j a.
Proof.
  intros Hj. rewrite !single_unfold. rewrite <- app_assoc. cbn [app]. f_equal. f_equal.
  replace (S m - j - 1)%nat with (S (m - j - 1)) by lia. symmetry. apply identity_snoc.
Qed.
Lemma single_last m a : get_single (S m) m a = identity m ++ [a].
Proof. rewrite single_unfold. replace (S m - m - 1)%nat with 0%nat by lia. reflexivity. Qed.
Lemma Uk_len k nr g : (1 <= k)%nat -> In g (Uk k nr) -> length g = (k + nr)%nat.
Proof.
  intros Hk Hg. assert (Lu : length (choose_u k) = k) by (apply get_single_length; lia). unfold Uk in Hg.
  apply in_app_or in Hg. destruct Hg as [Hg|Hg]; [|apply in_app_or in Hg; destruct Hg as [Hg|Hg]]; apply in_map_iff in Hg; destruct Hg as [x [<- Hx]].
  - rewrite app_length, identity_length, (left_lengths k x Hx). reflexivity.
  - apply in_seq in Hx. rewrite app_length, Lu, get_single_length by lia. reflexivity.
  - apply in_seq in Hx. rewrite app_length, Lu, get_single_length by lia. reflexivity.
Qed.

Theorem Uk_full k : Nat.even k = true -> (2 <= k)%nat -> forall nr p, length p = (k + nr)%nat -> p <> identity (k + nr) ->
  ClL (fun g => In g (Uk k nr)) p.
Proof.
  intros Hev Hk. induction nr as [|nr IH]; intros p Lp Np.
  - rewrite Nat.add_0_r in *. apply (clL_mono (Lk k)); [|apply left_full; assumption].
    intros g Hg. unfold Uk. apply in_or_app. left. apply in_map_iff. exists g. split; [apply app_nil_r|exact Hg].
  - set (w := choose_u k ++ identity nr).
    assert (Lu : length (choose_u k) = k) by (apply get_single_length; lia).
    assert (Lw : length w = (k + nr)%nat) by (unfold w; rewrite app_length, Lu, identity_length; reflexivity).
    assert (Nw : w <> identity (k + nr)).
    { intros E. assert (E1 := f_equal (fun s => nth 0 s PI) E). cbn beta in E1. unfold w in E1. rewrite app_nth1 in E1 by lia.
      unfold choose_u in E1. rewrite (nth_single k 0 0 PX) in E1 by lia. rewrite nth_identity in E1. discriminate. }
    replace (k + S nr)%nat with (S (k + nr)) in * by lia.
    apply (clL_mono (Gext (fun g => In g (Uk k nr)) w)).
    + intros g [[h [Hh ->]]|[->| ->]]; unfold Uk in *.
      * apply in_app_or in Hh. destruct Hh as [Hh|Hh]; [|apply in_app_or in Hh; destruct Hh as [Hh|Hh]]; apply in_map_iff in Hh; destruct Hh as [x [<- Hx]].
        -- apply in_or_app. left. apply in_map_iff. exists x. split; [|exact Hx]. rewrite <- app_assoc, identity_snoc. reflexivity.
        -- apply in_or_app. right. apply in_or_app. left. apply in_map_iff. exists x. apply in_seq in Hx. split; [|apply in_seq; lia].
           rewrite <- app_assoc, single_snoc by lia. reflexivity.
        -- apply in_or_app. right. apply in_or_app. right. apply in_map_iff. exists x. apply in_seq in Hx. split; [|apply in_seq; lia].
           rewrite <- app_assoc, single_snoc by lia. reflexivity.
      * apply in_or_app. right. apply in_or_app. left. apply in_map_iff. exists nr. split; [|apply in_seq; lia]. unfold w. rewrite <- app_assoc, single_last. reflexivity.
      * apply in_or_app. right. apply in_or_app. right. apply in_map_iff. exists nr. split; [|apply in_seq; lia]. unfold w. rewrite <- app_assoc, single_last. reflexivity.
    + apply (extend_full (k + nr) (fun g => In g (Uk k nr)) w); try assumption; [lia|intros h Hh; apply Uk_len; [lia|exact Hh]].
Qed.

(* C07, even k: the closure of the universal set is exactly the set of non-identity strings of length N *)
Theorem universal_generates_all N k U : Nat.even k = true -> (2 <= k)%nat -> universal N k = Ok U ->
  forall p, ClL (fun g => In g U) p <-> (length p = N /\ p <> identity N).
Proof.
  intros Hev Hk HU. assert (HU' := HU). unfold universal in HU. destruct (Nat.leb 1 k && Nat.ltb k N)%bool eqn:E; [|discriminate].
  apply andb_true_iff in E. destruct E as [_ E2]. apply Nat.ltb_lt in E2.
  assert (EU : U = Uk k (N - k)) by (unfold Uk; congruence). clear HU.
  intros p. split.
  - induction 1 as [g Hg|a b _ [La Na] _ [Lb Nb] Hab].
    + split; [apply (universal_each_length N k U HU' g Hg)|]. intros ->. 
      assert (ND := universal_nodup N k U Hk HU'). (* identity is not a generator: it would commute with everything; use the quadratic structure: each generator has a non-identity letter *)
      subst U. unfold Uk in Hg. assert (Lu : length (choose_u k) = k) by (apply get_single_length; lia).
      assert (Hnz : forall x y : pstr, x ++ y = identity N -> length x = k -> x = identity k).
      { intros x y Exy Lx. replace (identity N) with (identity k ++ identity (N - k)) in Exy by (unfold identity; rewrite <- repeat_app; f_equal; lia).
        apply app_inj_len in Exy; [apply Exy|rewrite identity_length; exact Lx]. }
      apply in_app_or in Hg. destruct Hg as [Hg|Hg]; [|apply in_app_or in Hg; destruct Hg as [Hg|Hg]]; apply in_map_iff in Hg; destruct Hg as [x [Ex Hx]].
      * apply Hnz in Ex; [|apply left_lengths; exact Hx]. subst x. unfold left_a_minimal in Hx. apply in_app_or in Hx. destruct Hx as [Hx|[Hx|[]]].
        -- apply in_flat_map in Hx. destruct Hx as [i [Hi [Hx|[Hx|[]]]]]; apply in_seq in Hi; apply (single_not_identity k i) in Hx; try lia; try discriminate; exact Hx.
        -- assert (F := f_equal (fun s => nth 0 s PI) Hx). cbn beta in F. rewrite nth_identity in F. destruct k; [lia|]. cbn in F. discriminate.
      * apply Hnz in Ex; [|exact Lu]. unfold choose_u in Ex. apply (single_not_identity k 0) in Ex; [exact Ex|lia|discriminate].
      * apply Hnz in Ex; [|exact Lu]. unfold choose_u in Ex. apply (single_not_identity k 0) in Ex; [exact Ex|lia|discriminate].
    + split; [rewrite smul_length; congruence|]. rewrite <- Lb. apply smul_not_id; [congruence|exact Hab].
  - intros [Lp Np]. subst U. replace N with (k + (N - k))%nat in Lp, Np by lia. apply Uk_full; assumption.
Qed.
