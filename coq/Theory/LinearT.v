(* Theory/LinearT.v — linear combinations denote the right matrices (C12). *)
From PauLie Require Import Pauli Matrix MatrixT ParserT Linear.
From Coq Require Import Lia.

Lemma gsum_cons {A} (x : A) l f : gsum (x :: l) f = gadd (f x) (gsum l f). Proof. reflexivity. Qed.
Lemma gmul_0_l x : gmul g0 x = g0. Proof. gring. Qed.
Lemma gadd_0_l x : gadd g0 x = x. Proof. gring. Qed.
Lemma gadd_0_r x : gadd x g0 = x. Proof. gring. Qed.

Lemma denote_nil r c : denote [] r c = g0. Proof. reflexivity. Qed.
Lemma denote_cons t a r c : denote (t :: a) r c = gadd (gmul (fst t) (M (snd t) r c)) (denote a r c). Proof. reflexivity. Qed.
Lemma denote_app a b r c : denote (a ++ b) r c = gadd (denote a r c) (denote b r c).
Proof. unfold denote. apply gsum_app. Qed.

(* scalar multiples and Hermitian conjugates *)
Theorem denote_scale s a r c : denote (lscale s a) r c = gmul s (denote a r c).
Proof. induction a as [|t a IH]; [unfold denote; cbn [lscale map gsum fold_right]; gring|]. cbn [lscale map]. rewrite !denote_cons. fold (lscale s a). rewrite IH. cbn [fst snd]. gring. Qed.
Lemma sig_herm a r c : gconj (sig a c r) = sig a r c. Proof. destruct a, r, c; reflexivity. Qed.
Lemma M_herm : forall p r c, gconj (M p c r) = M p r c.
Proof. induction p as [|a p IH]; intros [|r0 r] [|c0 c]; cbn [M]; try reflexivity. rewrite gconj_mul, sig_herm, IH. reflexivity. Qed.
Lemma gconj_add a b : gconj (gadd a b) = gadd (gconj a) (gconj b). Proof. gring. Qed.
Theorem denote_herm a r c : denote (lherm a) r c = gconj (denote a c r).
Proof.
  induction a as [|t a IH]; [reflexivity|]. cbn [lherm map]. rewrite !denote_cons. fold (lherm a). rewrite IH. cbn [fst snd].
  rewrite gconj_add, gconj_mul, M_herm. reflexivity.
Qed.

(* dictionaries *)
Definition ddenote (d : list (pstr * gi)) : mat := fun r c => gsum d (fun x => gmul (snd x) (M (fst x) r c)).
Lemma ddenote_cons q e t r c : ddenote ((q, e) :: t) r c = gadd (gmul e (M q r c)) (ddenote t r c). Proof. reflexivity. Qed.
Lemma ddenote_nil r c : ddenote [] r c = g0. Proof. reflexivity. Qed.
Lemma dict_add_denote d p co r c : ddenote (dict_add d p co) r c = gadd (ddenote d r c) (gmul co (M p r c)).
Proof.
  induction d as [|[q e] t IH]; [cbn [dict_add]; rewrite ddenote_cons, !ddenote_nil; gring|]. cbn [dict_add]. destruct (pstr_eqb p q) eqn:E.
  - apply pstr_eqb_eq in E. subst q. rewrite !ddenote_cons. gring.
  - rewrite !ddenote_cons, IH. gring.
Qed.
Lemma dict_of_denote a : forall d r c, ddenote (dict_of a d) r c = gadd (ddenote d r c) (denote a r c).
Proof.
  induction a as [|t a IH]; intros d r c; [cbn [dict_of fold_left]; rewrite denote_nil; gring|]. cbn [dict_of fold_left]. fold (dict_of a (dict_add d (snd t) (fst t))).
  rewrite IH, dict_add_denote, denote_cons. gring.
Qed.
Lemma gzero_true x : gzero x = true -> x = g0.
Proof. unfold gzero, gi_eqb. destruct x as [a b]. cbn. intros H. apply andb_true_iff in H. destruct H as [H1 H2]. apply Z.eqb_eq in H1, H2. subst. reflexivity. Qed.
Lemma nonzero_terms_denote d r c : denote (nonzero_terms d) r c = ddenote d r c.
Proof.
  induction d as [|[q e] t IH]; [reflexivity|]. rewrite ddenote_cons. unfold nonzero_terms in *. cbn [filter snd]. destruct (gzero e) eqn:E; cbn [negb map].
  - apply gzero_true in E. subst e. rewrite IH. gring.
  - rewrite denote_cons, IH. reflexivity.
Qed.
Theorem denote_simplify a r c : denote (simplify a) r c = denote a r c.
Proof.
  unfold simplify. destruct a as [|t a']; [reflexivity|]. set (a := t :: a') in *.
  pose proof (nonzero_terms_denote (dict_of a []) r c) as H. rewrite dict_of_denote, ddenote_nil, gadd_0_l in H.
  destruct (nonzero_terms (dict_of a [])) as [|x l]; [|exact H].
  rewrite <- H, denote_cons, !denote_nil. cbn [fst]. gring.
Qed.
Theorem denote_add a b r c : denote (ladd a b) r c = gadd (denote a r c) (denote b r c).
Proof.
  unfold ladd. pose proof (nonzero_terms_denote (dict_of b (dict_of a [])) r c) as H.
  rewrite !dict_of_denote, ddenote_nil, gadd_0_l in H.
  destruct (nonzero_terms (dict_of b (dict_of a []))) as [|x l]; [|exact H].
  rewrite <- H, denote_cons, !denote_nil. cbn [fst]. gring.
Qed.

(* products *)
Definition all_n (n : nat) (a : lin) : Prop := forall t, In t a -> length (snd t) = n.
Lemma mmul_add_l n A B C r c : mmul n (madd A B) C r c = gadd (mmul n A C r c) (mmul n B C r c).
Proof. unfold mmul, madd. rewrite <- gsum_add. apply gsum_ext. intros; gring. Qed.
Lemma mmul_add_r n A B C r c : mmul n A (madd B C) r c = gadd (mmul n A B r c) (mmul n A C r c).
Proof. unfold mmul, madd. rewrite <- gsum_add. apply gsum_ext. intros; gring. Qed.
Lemma mmul_scale_l n s A B r c : mmul n (mscale s A) B r c = gmul s (mmul n A B r c).
Proof. unfold mmul, mscale. rewrite <- gsum_scale. apply gsum_ext. intros; gring. Qed.
Lemma mmul_scale_r n s A B r c : mmul n A (mscale s B) r c = gmul s (mmul n A B r c).
Proof. unfold mmul, mscale. rewrite <- gsum_scale. apply gsum_ext. intros; gring. Qed.
Lemma mmul_zero_l n B r c : mmul n mzero B r c = g0.
Proof. unfold mmul, mzero. rewrite (gsum_ext _ _ (fun _ => g0)); [apply gsum_zero|intros; gring]. Qed.
Lemma mmul_zero_r n A r c : mmul n A mzero r c = g0.
Proof. unfold mmul, mzero. rewrite (gsum_ext _ _ (fun _ => g0)); [apply gsum_zero|intros; gring]. Qed.
Lemma mmul_congr n A A' B B' r c : length r = n -> length c = n -> meq n A A' -> meq n B B' -> mmul n A B r c = mmul n A' B' r c.
Proof. intros Hr Hc HA HB. unfold mmul. apply gsum_ext. intros k Hk. rewrite (HA r k Hr (bv_len n k Hk)), (HB k c (bv_len n k Hk) Hc). reflexivity. Qed.
Lemma denote_cons_meq t a : forall n, meq n (denote (t :: a)) (madd (mscale (fst t) (M (snd t))) (denote a)).
Proof. intros n r c _ _. rewrite denote_cons. reflexivity. Qed.

(* one term of a against all of b *)
Lemma row_terms n ca pa b r c : length pa = n -> all_n n b -> length r = n -> length c = n ->
  denote (map (fun tb => (gmul (gmul ca (fst tb)) (phase pa (snd tb)), smul pa (snd tb))) b) r c
  = gmul ca (mmul n (M pa) (denote b) r c).
Proof.
  intros Hpa Hb Hr Hc. induction b as [|tb b IH].
  - cbn [map]. rewrite denote_nil. rewrite (mmul_congr n (M pa) (M pa) (denote []) mzero r c Hr Hc); [rewrite mmul_zero_r; gring|intros ? ? ? ?; reflexivity|intros ? ? ? ?; reflexivity].
  - cbn [map]. rewrite denote_cons. cbn [fst snd]. rewrite IH by (intros t Ht; apply Hb; right; exact Ht).
    rewrite (mmul_congr n (M pa) (M pa) (denote (tb :: b)) (madd (mscale (fst tb) (M (snd tb))) (denote b)) r c Hr Hc);
      [|intros ? ? ? ?; reflexivity|apply denote_cons_meq].
    rewrite mmul_add_r, mmul_scale_r. rewrite (M_mul n pa (snd tb) r c Hpa (Hb tb (or_introl eq_refl)) Hr Hc). gring.
Qed.
Theorem denote_prod_terms n a b r c : all_n n a -> all_n n b -> length r = n -> length c = n ->
  denote (prod_terms a b) r c = mmul n (denote a) (denote b) r c.
Proof.
  intros Ha Hb Hr Hc. induction a as [|ta a IH].
  - cbn [prod_terms flat_map]. rewrite denote_nil. rewrite (mmul_congr n (denote []) mzero (denote b) (denote b) r c Hr Hc); [rewrite mmul_zero_l; reflexivity|intros ? ? ? ?; reflexivity|intros ? ? ? ?; reflexivity].
  - cbn [prod_terms flat_map]. fold (prod_terms a b). rewrite denote_app, IH by (intros t Ht; apply Ha; right; exact Ht).
    rewrite (row_terms n (fst ta) (snd ta) b r c (Ha ta (or_introl eq_refl)) Hb Hr Hc).
    rewrite (mmul_congr n (denote (ta :: a)) (madd (mscale (fst ta) (M (snd ta))) (denote a)) (denote b) (denote b) r c Hr Hc);
      [|apply denote_cons_meq|intros ? ? ? ?; reflexivity].
    rewrite mmul_add_l, mmul_scale_l. reflexivity.
Qed.
Theorem denote_matmul n a b r c : all_n n a -> all_n n b -> length r = n -> length c = n ->
  denote (lmatmul a b) r c = mmul n (denote a) (denote b) r c.
Proof.
  intros Ha Hb Hr Hc. unfold lmatmul, finish_matmul. rewrite <- (denote_prod_terms n a b r c Ha Hb Hr Hc).
  destruct (prod_terms a b) as [|x l] eqn:E; [|apply denote_simplify]. rewrite denote_cons, !denote_nil. cbn [fst]. gring.
Qed.

(* trace *)
Lemma mtrace_M : forall n p, length p = n -> mtrace n (M p) = if is_identity p then (Z.pow 2 (Z.of_nat n), 0%Z) else g0.
Proof.
  induction n as [|n IH]; intros p Hp.
  - destruct p; [|discriminate]. reflexivity.
  - destruct p as [|a p]; [discriminate|]. injection Hp as Hp. unfold mtrace in *. cbn [bv]. rewrite gsum_app, !gsum_map. cbn [M].
    rewrite !gsum_scale. specialize (IH p Hp). rewrite IH. cbn [is_identity forallb]. fold (is_identity p).
    rewrite Nat2Z.inj_succ, Z.pow_succ_r by lia.
    destruct a; cbn [is_id1 andb sig]; destruct (is_identity p); gring.
Qed.
Lemma mtrace_denote n a : all_n n a ->
  mtrace n (denote a) = gsum a (fun t => gmul (fst t) (if is_identity (snd t) then (Z.pow 2 (Z.of_nat n), 0%Z) else g0)).
Proof.
  intros Ha. induction a as [|t a IH].
  - unfold mtrace, denote. cbn [gsum fold_right]. apply gsum_zero.
  - unfold mtrace in *. rewrite (gsum_ext _ _ (fun k => gadd (gmul (fst t) (M (snd t) k k)) (denote a k k))) by (intros; apply denote_cons).
    rewrite gsum_add, gsum_scale, IH by (intros x Hx; apply Ha; right; exact Hx).
    fold (mtrace n (M (snd t))). rewrite (mtrace_M n (snd t) (Ha t (or_introl eq_refl))). reflexivity.
Qed.
Lemma fold_id_sum a : forall s0, fold_left (fun s t => if is_identity (snd t) then gadd s (fst t) else s) a s0
  = gadd s0 (gsum a (fun t => if is_identity (snd t) then fst t else g0)).
Proof.
  induction a as [|t a IH]; intros s0; cbn [fold_left gsum fold_right]; [gring|]. rewrite IH. fold (gsum a (fun t0 => if is_identity (snd t0) then fst t0 else g0)).
  destruct (is_identity (snd t)); gring.
Qed.
Theorem trace_spec n a : a <> [] -> all_n n a -> ltrace a = mtrace n (denote a).
Proof.
  intros Hne Ha. rewrite (mtrace_denote n a Ha). unfold ltrace. rewrite fold_id_sum, gadd_0_l.
  assert (size_of a = n) as -> by (destruct a as [|[c0 p0] a']; [congruence|]; cbn; apply (Ha (c0, p0)); left; reflexivity).
  clear. induction a as [|t a IH]; [cbn; gring|]. cbn [gsum fold_right].
  fold (gsum a (fun t0 => if is_identity (snd t0) then fst t0 else g0)).
  fold (gsum a (fun t0 => gmul (fst t0) (if is_identity (snd t0) then (Z.pow 2 (Z.of_nat n), 0%Z) else g0))).
  rewrite <- IH. destruct (is_identity (snd t)); gring.
Qed.

(* ---------- linear independence of the Pauli matrices over Z[i] ---------- *)
Definition coef (a : lin) (p : pstr) : gi := gsum a (fun t => if pstr_eqb p (snd t) then fst t else g0).
Definition two_n (n : nat) : gi := (Z.pow 2 (Z.of_nat n), 0%Z).
Lemma coef_cons t a p : coef (t :: a) p = gadd (if pstr_eqb p (snd t) then fst t else g0) (coef a p). Proof. reflexivity. Qed.
Lemma coef_nil p : coef [] p = g0. Proof. reflexivity. Qed.
Lemma smul_identity_iff : forall p q, length p = length q -> (is_identity (smul p q) = true <-> p = q).
Proof.
  induction p as [|a p IH]; intros [|b q] H; try discriminate; [split; reflexivity|]. injection H as H. cbn [smul is_identity forallb].
  fold (is_identity (smul p q)). rewrite andb_true_iff, (IH q H). split.
  - intros [H1 ->]. f_equal. destruct a, b; try reflexivity; discriminate.
  - intros [= -> ->]. split; [destruct b; reflexivity|reflexivity].
Qed.
Lemma phase_self p : phase p p = g1.
Proof. induction p as [|a p IH]; [reflexivity|]. cbn [phase]. rewrite IH. destruct a; reflexivity. Qed.
Lemma pstr_eqb_refl p : pstr_eqb p p = true. Proof. apply pstr_eqb_eq. reflexivity. Qed.
Lemma trace_prod n p x : length p = n -> length x = n ->
  mtrace n (mmul n (M p) (M x)) = if pstr_eqb p x then two_n n else g0.
Proof.
  intros Hp Hx. unfold mtrace. rewrite (gsum_ext _ _ (fun k => gmul (phase p x) (M (smul p x) k k))).
  2:{ intros k Hk. apply M_mul; try assumption; apply (bv_len n k Hk). }
  rewrite gsum_scale. fold (mtrace n (M (smul p x))). rewrite mtrace_M by (rewrite smul_length; congruence).
  destruct (pstr_eqb p x) eqn:E.
  - apply pstr_eqb_eq in E. subst x. rewrite (proj2 (smul_identity_iff p p eq_refl) eq_refl), phase_self. unfold two_n. gring.
  - destruct (is_identity (smul p x)) eqn:EI; [|gring]. apply smul_identity_iff in EI; [|congruence]. subst x. rewrite pstr_eqb_refl in E. discriminate.
Qed.
Lemma mtrace_add n A B : mtrace n (madd A B) = gadd (mtrace n A) (mtrace n B).
Proof. unfold mtrace, madd. apply gsum_add. Qed.
Lemma mtrace_ext n A B : meq n A B -> mtrace n A = mtrace n B.
Proof. intros H. unfold mtrace. apply gsum_ext. intros k Hk. apply H; apply (bv_len n k Hk). Qed.
Lemma trace_against n p a : length p = n -> all_n n a ->
  mtrace n (mmul n (M p) (denote a)) = gmul (coef a p) (two_n n).
Proof.
  intros Hp Ha. induction a as [|t a IH].
  - rewrite coef_nil, gmul_0_l. unfold mtrace. rewrite (gsum_ext _ _ (fun _ => g0)); [apply gsum_zero|].
    intros k Hk. rewrite (mmul_congr n (M p) (M p) (denote []) mzero k k); [apply mmul_zero_r|apply (bv_len n k Hk)|apply (bv_len n k Hk)|intros ? ? ? ?; reflexivity|intros ? ? ? ?; reflexivity].
  - rewrite (mtrace_ext n _ (madd (mscale (fst t) (mmul n (M p) (M (snd t)))) (mmul n (M p) (denote a)))).
    2:{ intros r c Hr Hc. rewrite (mmul_congr n (M p) (M p) _ _ r c Hr Hc (fun _ _ _ _ => eq_refl) (denote_cons_meq t a n)).
        rewrite mmul_add_r, mmul_scale_r. reflexivity. }
    rewrite mtrace_add, IH by (intros x Hx; apply Ha; right; exact Hx).
    assert (S : mtrace n (mscale (fst t) (mmul n (M p) (M (snd t)))) = gmul (fst t) (mtrace n (mmul n (M p) (M (snd t))))).
    { unfold mtrace, mscale. apply gsum_scale. }
    rewrite S, trace_prod by (try assumption; apply Ha; left; reflexivity).
    rewrite coef_cons. destruct (pstr_eqb p (snd t)); gring.
Qed.
Lemma two_n_cancel n x : gmul x (two_n n) = g0 -> x = g0.
Proof.
  unfold two_n, gmul, g0. destruct x as [a b]. cbn [fst snd]. intros H. injection H as H1 H2.
  assert (P : (0 < 2 ^ Z.of_nat n)%Z) by (apply Z.pow_pos_nonneg; lia).
  f_equal; nia.
Qed.
(* a combination denoting the zero matrix has every collected coefficient zero *)
Theorem independence n a : all_n n a -> meq n (denote a) mzero -> forall p, length p = n -> coef a p = g0.
Proof.
  intros Ha H0 p Hp. apply (two_n_cancel n). rewrite <- (trace_against n p a Hp Ha).
  unfold mtrace. rewrite (gsum_ext _ _ (fun _ => g0)); [apply gsum_zero|]. intros k Hk.
  rewrite (mmul_congr n (M p) (M p) (denote a) mzero k k (bv_len n k Hk) (bv_len n k Hk) (fun _ _ _ _ => eq_refl) H0). apply mmul_zero_r.
Qed.

(* dictionary entries are the collected coefficients *)
Definition dval (d : list (pstr * gi)) (p : pstr) : gi := gsum d (fun x => if pstr_eqb p (fst x) then snd x else g0).
Fixpoint keys_nodup (d : list (pstr * gi)) : Prop :=
  match d with [] => True | (q, _) :: t => (forall e, ~ In (q, e) t) /\ (forall x, In x t -> fst x <> q) /\ keys_nodup t end.
Lemma dval_cons k e t q : dval ((k, e) :: t) q = gadd (if pstr_eqb q k then e else g0) (dval t q). Proof. reflexivity. Qed.
Lemma dval_nil q : dval [] q = g0. Proof. reflexivity. Qed.
Lemma dict_add_dval d p c q : dval (dict_add d p c) q = gadd (dval d q) (if pstr_eqb q p then c else g0).
Proof.
  induction d as [|[k e] t IH]; cbn [dict_add].
  - rewrite dval_cons, !dval_nil. destruct (pstr_eqb q p); gring.
  - destruct (pstr_eqb p k) eqn:E.
    + apply pstr_eqb_eq in E. subst k. rewrite !dval_cons. destruct (pstr_eqb q p); gring.
    + rewrite !dval_cons, IH. destruct (pstr_eqb q k), (pstr_eqb q p); gring.
Qed.
Lemma dict_of_dval a : forall d q, dval (dict_of a d) q = gadd (dval d q) (coef a q).
Proof.
  induction a as [|t a IH]; intros d q; [cbn [dict_of fold_left]; rewrite coef_nil; gring|]. cbn [dict_of fold_left]. fold (dict_of a (dict_add d (snd t) (fst t))).
  rewrite IH, dict_add_dval, coef_cons. gring.
Qed.
Definition distinct_keys (d : list (pstr * gi)) : Prop := NoDup (map fst d).
Lemma dict_add_keys d p c : distinct_keys d -> distinct_keys (dict_add d p c) /\ (forall k, In k (map fst (dict_add d p c)) <-> In k (map fst d) \/ k = p).
Proof.
  unfold distinct_keys. induction d as [|[k e] t IH]; intros HD; cbn [dict_add].
  - split; [constructor; [intros []|constructor]|]. intros k. cbn. intuition.
  - destruct (pstr_eqb p k) eqn:E.
    + apply pstr_eqb_eq in E. subst k. split; [exact HD|]. intros k. cbn. intuition.
    + inversion HD as [|? ? Hk HD']; subst. destruct (IH HD') as [H1 H2]. split.
      * cbn [map fst]. constructor; [|exact H1]. intros Hin. apply H2 in Hin. destruct Hin as [Hin| ->]; [contradiction|]. rewrite pstr_eqb_refl in E. discriminate.
      * intros x. cbn [map fst In]. rewrite H2. intuition.
Qed.
Lemma dict_of_keys a : forall d, distinct_keys d -> distinct_keys (dict_of a d) /\
  (forall k, In k (map fst (dict_of a d)) <-> In k (map fst d) \/ In k (map snd a)).
Proof.
  induction a as [|t a IH]; intros d HD; cbn [dict_of fold_left]; [split; [exact HD|intros k; cbn; intuition]|].
  unfold distinct_keys in *.
  fold (dict_of a (dict_add d (snd t) (fst t))). destruct (dict_add_keys d (snd t) (fst t) HD) as [H1 H2]. destruct (IH _ H1) as [H3 H4].
  split; [exact H3|]. intros k. rewrite H4, H2. cbn [map In]. intuition.
Qed.
Lemma dval_entry d : distinct_keys d -> forall k e, In (k, e) d -> dval d k = e.
Proof.
  unfold distinct_keys. induction d as [|[q v] t IH]; intros HD k e Hin; [destruct Hin|]. cbn [map fst] in HD. inversion HD as [|? ? Hq HD']; subst.
  rewrite dval_cons. destruct Hin as [[= -> ->]|Hin].
  - rewrite pstr_eqb_refl. assert (dval t k = g0) as ->; [|gring].
    unfold dval. rewrite (gsum_ext _ _ (fun _ => g0)); [apply gsum_zero|]. intros [k' e'] Hx. cbn [fst snd]. destruct (pstr_eqb k k') eqn:E; [|reflexivity].
    apply pstr_eqb_eq in E. subst k'. exfalso. apply Hq. apply in_map_iff. exists (k, e'). split; [reflexivity|exact Hx].
  - destruct (pstr_eqb k q) eqn:E.
    + apply pstr_eqb_eq in E. subst q. exfalso. apply Hq. apply in_map_iff. exists (k, e). split; [reflexivity|exact Hin].
    + rewrite (IH HD' k e Hin). gring.
Qed.
(* is_zero (repaired) holds exactly when the denoted matrix vanishes *)
Lemma gzero_g0 : gzero g0 = true. Proof. reflexivity. Qed.
Lemma filter_none {A} (f : A -> bool) l : (forall x, In x l -> f x = false) -> filter f l = [].
Proof. induction l as [|x t IH]; intros H; [reflexivity|]. cbn [filter]. rewrite (H x (or_introl eq_refl)). apply IH. intros y Hy. apply H. right. exact Hy. Qed.
Theorem zero_iff n a : all_n n a -> (lis_zero a = true <-> meq n (denote a) mzero).
Proof.
  intros Ha. assert (DK0 : distinct_keys []) by constructor.
  destruct (dict_of_keys a [] DK0) as [DK KEYS].
  unfold lis_zero. rewrite forallb_forall. split.
  - intros H r c Hr Hc. pose proof (nonzero_terms_denote (dict_of a []) r c) as E. rewrite dict_of_denote, ddenote_nil, gadd_0_l in E. rewrite <- E.
    unfold nonzero_terms. rewrite filter_none; [reflexivity|]. intros x Hx. rewrite (H x Hx). reflexivity.
  - intros H0 [k e] Hin. cbn [snd].
    assert (Hk : In k (map snd a)).
    { assert (Hk' : In k (map fst (dict_of a []))) by (apply in_map_iff; exists (k, e); split; [reflexivity|exact Hin]).
      apply KEYS in Hk'. destruct Hk' as [[]|Hk']. exact Hk'. }
    apply in_map_iff in Hk. destruct Hk as [t [<- Ht]].
    rewrite <- (dval_entry _ DK (snd t) e Hin), dict_of_dval, dval_nil, gadd_0_l.
    rewrite (independence n a Ha H0 (snd t) (Ha t Ht)). apply gzero_g0.
Qed.
(* two combinations denote the same matrix exactly when their collected coefficients agree *)
Lemma coef_app a b p : coef (a ++ b) p = gadd (coef a p) (coef b p).
Proof. unfold coef. apply gsum_app. Qed.
Lemma coef_scale s a p : coef (lscale s a) p = gmul s (coef a p).
Proof. induction a as [|t a IH]; [rewrite !coef_nil; gring|]. cbn [lscale map]. rewrite !coef_cons. fold (lscale s a). rewrite IH. cbn [fst snd]. destruct (pstr_eqb p (snd t)); gring. Qed.
Lemma all_n_scale n s a : all_n n a -> all_n n (lscale s a).
Proof. intros H t Ht. unfold lscale in Ht. apply in_map_iff in Ht. destruct Ht as [x [<- Hx]]. cbn. apply H. exact Hx. Qed.
Theorem denote_eq_iff_coef n a b : all_n n a -> all_n n b ->
  (meq n (denote a) (denote b) <-> forall p, length p = n -> coef a p = coef b p).
Proof.
  intros Ha Hb. set (d := a ++ lscale (-1, 0)%Z b).
  assert (Hd : all_n n d). { intros t Ht. apply in_app_or in Ht. destruct Ht as [Ht|Ht]; [apply Ha; exact Ht|apply (all_n_scale n (-1, 0)%Z b Hb); exact Ht]. }
  assert (Dd : forall r c, denote d r c = gsub (denote a r c) (denote b r c)).
  { intros r c. unfold d. rewrite denote_app, denote_scale. gring. }
  assert (Cd : forall p, coef d p = gsub (coef a p) (coef b p)).
  { intros p. unfold d. rewrite coef_app, coef_scale. gring. }
  split.
  - intros H p Hp. assert (Z : coef d p = g0).
    { apply (independence n d Hd); [|exact Hp]. intros r c Hr Hc. rewrite Dd, (H r c Hr Hc). unfold mzero. gring. }
    rewrite Cd in Z. apply gi_eq; [assert (E := f_equal fst Z)|assert (E := f_equal snd Z)]; unfold gsub, gadd, gneg, g0 in E; cbn [fst snd] in E; lia.
  - intros H r c Hr Hc.
    assert (Z : lis_zero d = true).
    { unfold lis_zero. apply forallb_forall. intros [k e] Hin. cbn [snd].
      destruct (dict_of_keys d [] ltac:(constructor)) as [DK KEYS].
      assert (Hk : In k (map snd d)).
      { assert (Hk' : In k (map fst (dict_of d []))) by (apply in_map_iff; exists (k, e); split; [reflexivity|exact Hin]).
        apply KEYS in Hk'. destruct Hk' as [[]|Hk']. exact Hk'. }
      apply in_map_iff in Hk. destruct Hk as [t [<- Ht]].
      rewrite <- (dval_entry _ DK (snd t) e Hin), dict_of_dval, dval_nil, gadd_0_l, Cd, (H (snd t) (Hd t Ht)).
      replace (gsub (coef b (snd t)) (coef b (snd t))) with g0 by gring. reflexivity. }
    apply (zero_iff n d Hd) in Z. specialize (Z r c Hr Hc). rewrite Dd in Z. unfold mzero in Z.
    apply gi_eq; [assert (E := f_equal fst Z)|assert (E := f_equal snd Z)]; unfold gsub, gadd, gneg, g0 in E; cbn [fst snd] in E; lia.
Qed.
