From PauLie Require Import Pauli Sym SymT ClT ClSym Optimise.
From Coq Require Import Lia.
Notation ClLs G := (ClS (fun g => In g G)).

Lemma memPl_In a l : memPl a l = true <-> In a l.
Proof. unfold memPl. rewrite existsb_exists. split; [intros [x [Hx E]]; apply P_eqb_eq in E; subst; exact Hx|intros H; exists a; split; [exact H|apply P_eqb_eq; reflexivity]]. Qed.
Lemma set_nthP_length k x l : length (set_nthP k x l) = length l.
Proof. revert k; induction l as [|a t IH]; intros [|k]; cbn; auto. Qed.
Lemma In_set_nthP k x l g : In g (set_nthP k x l) -> g = x \/ In g l.
Proof.
  revert k; induction l as [|a t IH]; intros k H; [destruct k; destruct H|]. destruct k; cbn in H.
  - destruct H as [<-|H]; [left; reflexivity|right; right; exact H].
  - destruct H as [<-|H]; [right; left; reflexivity|]. destruct (IH k H) as [->|H']; [left; reflexivity|right; right; exact H'].
Qed.
Lemma findP_set k x l a : findP a l = Some k -> In x (set_nthP k x l) /\ forall g, In g l -> g = a \/ In g (set_nthP k x l).
Proof.
  revert k; induction l as [|b t IH]; intros k H; [discriminate|]. cbn [findP] in H. destruct (P_eqb a b) eqn:E.
  - injection H as <-. apply P_eqb_eq in E. subst b. cbn [set_nthP]. split; [left; reflexivity|]. intros g [<-|Hg]; [left; reflexivity|right; right; exact Hg].
  - destruct (findP a t) as [k'|] eqn:EF; [|discriminate]. injection H as <-. destruct (IH k' eq_refl) as [H1 H2]. cbn [set_nthP]. split; [right; exact H1|].
    intros g [<-|Hg]; [right; left; reflexivity|]. destruct (H2 g Hg) as [->|H']; [left; reflexivity|right; right; exact H'].
Qed.

Theorem contract1_cl l xy : (forall p, ClLs l p <-> ClLs (contract1 l xy) p) /\ length (contract1 l xy) = length l.
Proof.
  destruct xy as [x y]. unfold contract1. destruct (memPl x l && memPl y l && anti x y) eqn:E; [|split; [tauto|reflexivity]].
  apply andb_true_iff in E. destruct E as [E Ha]. apply andb_true_iff in E. destruct E as [Ex Ey]. apply memPl_In in Ex, Ey.
  destruct (findP x l) as [k|] eqn:EF; [|split; [tauto|reflexivity]]. split; [|apply set_nthP_length].
  destruct (findP_set k (mul x y) l x EF) as [Hxy Hold].
  assert (Hne : y <> x) by (intros ->; rewrite anti_self in Ha; discriminate).
  intros p. split; apply s_mono.
  - (* old generators are in the closure of the new list *)
    intros g Hg. destruct (Hold g Hg) as [->|Hin]; [|constructor; exact Hin].
    assert (HX : ClS (fun g0 => In g0 (set_nthP k (mul x y) l)) (mul (mul x y) y)).
    { apply cl_br.
      + constructor. exact Hxy.
      + destruct (Hold y Ey) as [E|Hin]; [congruence|constructor; exact Hin].
      + rewrite (anti_sym (mul x y) y), anti_mul_r, (anti_sym y x), Ha, anti_self. reflexivity. }
    rewrite mul_self in HX. exact HX.
  - (* new generators are in the closure of the old list *)
    intros g Hg. apply In_set_nthP in Hg. destruct Hg as [->|Hin]; [|constructor; exact Hin].
    apply cl_br; [constructor; exact Ex|constructor; exact Ey|exact Ha].
Qed.
Theorem run_contractions_cl choices : forall l,
  (forall p, ClLs l p <-> ClLs (run_contractions l choices) p) /\ length (run_contractions l choices) = length l.
Proof.
  induction choices as [|xy t IH]; intros l; cbn [run_contractions fold_left]; [split; [tauto|reflexivity]|].
  destruct (contract1_cl l xy) as [H1 H2]. destruct (IH (contract1 l xy)) as [H3 H4]. unfold run_contractions in *.
  split; [intros p; rewrite H1; apply H3|rewrite H4; exact H2].
Qed.
(* every entry of list_connections is an anticommuting pair of members: the loop only ever contracts such pairs *)
Lemma In_pairs {A} (l : list A) x y : In (x, y) (pairs l) -> In x l /\ In y l.
Proof.
  induction l as [|a t IH]; [intros []|]. cbn [pairs]. intros H. apply in_app_or in H. destruct H as [H|H].
  - apply in_map_iff in H. destruct H as [b [[= <- <-] Hb]]. split; [left; reflexivity|right; exact Hb].
  - destruct (IH H). split; right; assumption.
Qed.
Theorem list_connections_spec l x y : In (x, y) (list_connections l) -> In x l /\ In y l /\ anti x y = true.
Proof. unfold list_connections. rewrite filter_In. intros [H1 H2]. apply In_pairs in H1. cbn in H2. tauto. Qed.
