(* Theory/ClSym.v — the abstract closure theory instantiated at the symplectic core (P, mul, anti). *)
From PauLie Require Import Pauli Sym SymT ClT.
Definition ClS (G : P -> Prop) : P -> Prop := Cl P mul anti G.
Definition OrbS (G : P -> Prop) : P -> P -> Prop := Orb P mul anti G.
Ltac laws := first [exact mul_self|exact anti_sym|exact anti_mul_r|exact anti_self|exact P_eq_dec|exact mul_assoc|exact mul_comm|assumption].

Theorem s_orbit_lemma G v t : OrbS (ClS G) v t <-> OrbS G v t.
Proof. apply orbit_lemma; laws. Qed.
Theorem s_cl_is_orbits G p : ClS G p <-> exists g, G g /\ OrbS G g p.
Proof. apply cl_is_orbits; laws. Qed.
Theorem s_contract (G : P -> Prop) a b : G a -> G b -> anti a b = true ->
  forall p, ClS G p <-> ClS (fun g => (G g /\ g <> a) \/ g = mul a b) p.
Proof. intros. apply cl_contract; laws. Qed.
Theorem s_add_product (G : P -> Prop) a b : G a -> G b -> anti a b = true ->
  forall p, ClS G p <-> ClS (fun g => G g \/ g = mul a b) p.
Proof. intros. apply cl_add_product; laws. Qed.
Theorem s_ext (G H : P -> Prop) : (forall g, G g <-> H g) -> forall p, ClS G p <-> ClS H p.
Proof. apply cl_ext. Qed.
Theorem s_transport (G : P -> Prop) z u w :
  ClS G (mul z u) -> ClS G u -> ClS G w -> anti u w = true -> anti z u = false -> anti z w = false -> ClS G (mul z w).
Proof. intros. apply (cl_transport P mul anti) with (u := u); laws. Qed.
Theorem s_span (G : P -> Prop) p : ClS G p -> Span P mul G p.
Proof. apply cl_subset_span. Qed.
Theorem s_quadratic (G : P -> Prop) (q : P -> bool) :
  (forall a b, q (mul a b) = xorb (xorb (q a) (q b)) (anti a b)) ->
  (forall g, G g -> q g = true) -> forall p, ClS G p -> q p = true.
Proof. apply cl_quadratic. Qed.
Theorem s_chain (G : P -> Prop) p : ClS G p <-> exists g l, G g /\ Forall G l /\ chain P mul anti g l = Some p.
Proof. apply cl_is_chain; laws. Qed.
Theorem s_mono (G G' : P -> Prop) p : (forall g, G g -> ClS G' g) -> ClS G p -> ClS G' p.
Proof. apply cl_mono. Qed.

(* a path of generators: the closure is the set of contiguous segment products (type A, one leg) *)
From PauLie Require Import PathT.
Theorem s_path_closure (m : nat) (g : nat -> P) :
  (forall i j, (i < m)%nat -> (j < m)%nat -> anti (g i) (g j) = adj i j) ->
  forall p, ClS (PathT.G P m g) p <-> IsSeg P mul m g p.
Proof. intros Hpath p. apply path_closure; laws. Qed.

(* a star of single legs: centre c, pairwise commuting legs each anticommuting with c *)
From PauLie Require Import StarClosureT.
Lemma anti_pid_r a : anti a pid = false.
Proof. unfold anti, pid. cbn [fst snd]. rewrite !N.land_0_r. reflexivity. Qed.
Theorem s_star_closure (c : P) (ls : list P) :
  (forall a b, In a ls -> In b ls -> anti a b = false) -> (forall a, In a ls -> anti c a = true) ->
  forall p, ClS (StarClosureT.G P c ls) p <-> InStar P mul pid c ls p.
Proof.
  intros H1 H2 p. apply (star_closure P mul anti pid); try laws.
  - exact mul_pid_r.
  - exact anti_pid_r.
  - apply anti_self.
Qed.
