(* Theory/CompleteT.v — completeness of the quadratic symmetries: every combination on 2n qubits that commutes with
   g (x) 1 + 1 (x) g for every member g is fixed by the twirl, i.e. it is a combination of the members of the full
   quadratic basis.  Together with their orthogonality (QuadOrthT) the symmetries are a basis of the whole commutant:
   their number is its dimension (C16). *)
From PauLie Require Import Pauli Matrix MatrixT ParserT InvarT CompilerT Linear LinearT Graph GraphT Quadratic QuadraticT QuadInvT QuadOrthT TwirlT.
From Coq Require Import Lia Permutation.

(* coefficients of a product with a single string on the left / on the right *)
Lemma coef_left1 N x m T : all_n N m -> length x = N -> length T = N ->
  coef (prod_terms [(g1, x)] m) T = gmul (phase x (smul x T)) (coef m (smul x T)).
Proof.
  intros Hm Lx LT. cbn [prod_terms flat_map fst snd]. rewrite app_nil_r, coef_map. cbn [fst snd]. unfold coef.
  rewrite <- (gsum_scale m _ (phase x (smul x T))). rewrite (gsum_ext _ _ (fun t => gmul (phase x (smul x T)) (if pstr_eqb (smul x T) (snd t) then fst t else g0))); [apply gsum_ext; intros; gring|].
  intros t Ht. assert (Lt := Hm t Ht).
  destruct (pstr_eqb T (smul x (snd t))) eqn:E1.
  - apply pstr_eqb_eq in E1. assert (E2 : smul x T = snd t) by (rewrite E1; apply smul_cancel; congruence). rewrite E2, pstr_eqb_refl. gring.
  - destruct (pstr_eqb (smul x T) (snd t)) eqn:E2; [|gring]. apply pstr_eqb_eq in E2. exfalso.
    assert (T = smul x (snd t)) by (rewrite <- E2; symmetry; apply smul_cancel; congruence). subst T. rewrite pstr_eqb_refl in E1. discriminate.
Qed.
Lemma coef_right1 N x m T : all_n N m -> length x = N -> length T = N ->
  coef (prod_terms m [(g1, x)]) T = gmul (phase (smul x T) x) (coef m (smul x T)).
Proof.
  intros Hm Lx LT. unfold prod_terms. rewrite coef_flat_map. unfold coef at 2.
  rewrite <- (gsum_scale m _ (phase (smul x T) x)). rewrite (gsum_ext _ _ (fun t => gmul (phase (smul x T) x) (if pstr_eqb (smul x T) (snd t) then fst t else g0))); [apply gsum_ext; intros; gring|].
  intros t Ht. assert (Lt := Hm t Ht). cbn [map fst snd]. rewrite coef_cons, coef_nil. cbn [fst snd]. rewrite (smul_comm (snd t) x).
  destruct (pstr_eqb T (smul x (snd t))) eqn:E1.
  - apply pstr_eqb_eq in E1. assert (E2 : smul x T = snd t) by (rewrite E1; apply smul_cancel; congruence). rewrite E2, pstr_eqb_refl. gring.
  - destruct (pstr_eqb (smul x T) (snd t)) eqn:E2; [|gring]. apply pstr_eqb_eq in E2. exfalso.
    assert (T = smul x (snd t)) by (rewrite <- E2; symmetry; apply smul_cancel; congruence). subst T. rewrite pstr_eqb_refl in E1. discriminate.
Qed.
Lemma prod_terms_cons_l a b m : prod_terms (a :: b) m = prod_terms [a] m ++ prod_terms b m.
Proof. unfold prod_terms. cbn [flat_map]. rewrite app_nil_r. reflexivity. Qed.
Lemma coef_prod_right2 m x y T : coef (prod_terms m [x; y]) T = gadd (coef (prod_terms m [x]) T) (coef (prod_terms m [y]) T).
Proof.
  unfold prod_terms. rewrite !coef_flat_map, <- gsum_add. apply gsum_ext. intros t _. cbn [map]. rewrite !coef_cons, !coef_nil. gring.
Qed.
Lemma unit_cancel u c : gnorm u = 1%Z -> gmul c u = g0 -> c = g0.
Proof.
  intros Hu H. assert (E : gmul (gmul c u) (gconj u) = g0) by (rewrite H; gring).
  replace (gmul (gmul c u) (gconj u)) with (gmul c (gnorm u, 0%Z)) in E by (unfold gnorm; gring). rewrite Hu in E.
  replace (gmul c (1%Z, 0%Z)) with c in E by gring. exact E.
Qed.
Lemma two_cancel c : gmul (2, 0)%Z c = g0 -> c = g0.
Proof. intros H. destruct c as [a b]. unfold gmul, g0 in H. assert (H1 := f_equal fst H). assert (H2 := f_equal snd H). cbn [fst snd] in H1, H2. unfold g0; f_equal; lia. Qed.

Section Inv.
Variables (n : nat) (g : pstr) (m : lin).
Hypothesis Lg : length g = n.
Hypothesis Hm : all_n (2 * n) m.
Hypothesis Hinv : Comm n (gen2 n g) m.

(* the invariance equation, one output string A ++ B at a time *)
Lemma inv_eq A B : length A = n -> length B = n ->
  gadd (if anti_l g A then gmul (coef m (smul g A ++ B)) (phase g (smul g A)) else g0)
       (if anti_l g B then gmul (coef m (A ++ smul g B)) (phase g (smul g B)) else g0) = g0.
Proof.
  intros LA LB. set (T := A ++ B). assert (LT : length T = (2 * n)%nat) by (unfold T; rewrite app_length; lia).
  set (x1 := g ++ identity n). set (x2 := identity n ++ g).
  assert (L1 : length x1 = (2 * n)%nat) by (unfold x1; rewrite app_length, identity_length; lia).
  assert (L2 : length x2 = (2 * n)%nat) by (unfold x2; rewrite app_length, identity_length; lia).
  assert (HX : all_n (2 * n) (gen2 n g)) by (intros t [<-|[<-|[]]]; cbn [snd]; assumption).
  assert (Hlen : forall a b, all_n (2 * n) a -> all_n (2 * n) b -> all_n (2 * n) (prod_terms a b)).
  { intros a b Ha Hb t Ht. unfold prod_terms in Ht. apply in_flat_map in Ht. destruct Ht as [ta [Hta Ht]]. apply in_map_iff in Ht.
    destruct Ht as [tb [<- Htb]]. cbn [snd]. rewrite smul_length by (rewrite (Ha ta Hta), (Hb tb Htb); reflexivity). apply Ha. exact Hta. }
  assert (EC : coef (prod_terms (gen2 n g) m) T = coef (prod_terms m (gen2 n g)) T).
  { apply (denote_eq_iff_coef (2 * n) _ _ (Hlen _ _ HX Hm) (Hlen _ _ Hm HX)); [|exact LT].
    intros r c Hr Hc. rewrite !(denote_prod_terms (2 * n)) by assumption. apply Hinv; assumption. }
  unfold gen2 in EC. fold x1 x2 in EC. rewrite prod_terms_cons_l, coef_app, coef_prod_right2 in EC.
  rewrite !(coef_left1 (2 * n)), !(coef_right1 (2 * n)) in EC by assumption.
  assert (S1 : smul x1 T = smul g A ++ B).
  { unfold x1, T. rewrite smul_app by congruence. f_equal. rewrite <- LB at 1. apply smul_id_l. }
  assert (S2 : smul x2 T = A ++ smul g B).
  { unfold x2, T. rewrite smul_app by (rewrite identity_length; congruence). f_equal. rewrite <- LA at 1. apply smul_id_l. }
  assert (LgA : length (smul g A) = n) by (rewrite smul_length; congruence).
  assert (LgB : length (smul g B) = n) by (rewrite smul_length; congruence).
  assert (P1 : phase x1 (smul g A ++ B) = phase g (smul g A)).
  { unfold x1. rewrite phase_app by congruence. rewrite <- LB at 1. rewrite phase_id_l. gring. }
  assert (P2 : phase x2 (A ++ smul g B) = phase g (smul g B)).
  { unfold x2. rewrite phase_app by (rewrite identity_length; congruence). rewrite <- LA at 1. rewrite phase_id_l. gring. }
  assert (Q1 : phase (smul g A ++ B) x1 = if anti_l g A then gneg (phase g (smul g A)) else phase g (smul g A)).
  { unfold x1. rewrite phase_app by congruence. rewrite <- LB at 1. rewrite phase_id_r, (phase_swap (smul g A) g).
    rewrite anti_l_smul_l by congruence. rewrite anti_l_self, (anti_l_sym A g). cbn [xorb]. destruct (anti_l g A); gring. }
  assert (Q2 : phase (A ++ smul g B) x2 = if anti_l g B then gneg (phase g (smul g B)) else phase g (smul g B)).
  { unfold x2. rewrite phase_app by (rewrite identity_length; congruence). rewrite <- LA at 1. rewrite phase_id_r, (phase_swap (smul g B) g).
    rewrite anti_l_smul_l by congruence. rewrite anti_l_self, (anti_l_sym B g). cbn [xorb]. destruct (anti_l g B); gring. }
  rewrite S1, S2, P1, P2, Q1, Q2 in EC.
  apply two_cancel.
  set (c1 := coef m (smul g A ++ B)) in *. set (c2 := coef m (A ++ smul g B)) in *.
  set (p1 := phase g (smul g A)) in *. set (p2 := phase g (smul g B)) in *.
  destruct (anti_l g A), (anti_l g B);
    apply gi_eq; [assert (F := f_equal fst EC)|assert (F := f_equal snd EC)|assert (F := f_equal fst EC)|assert (F := f_equal snd EC)
                 |assert (F := f_equal fst EC)|assert (F := f_equal snd EC)|assert (F := f_equal fst EC)|assert (F := f_equal snd EC)];
    destruct c1, c2, p1, p2; unfold gmul, gadd, gneg, g0 in *; cbn [fst snd] in *; lia.
Qed.
End Inv.
