(* Theory/CompleteT.v — completeness of the quadratic symmetries: every combination on 2n qubits that commutes with
   g (x) 1 + 1 (x) g for every member g is fixed by the twirl, i.e. it is a combination of the members of the full
   quadratic basis.  Together with their orthogonality (QuadOrthT) the symmetries are a basis of the whole commutant:
   their number is its dimension (C16). *)
From PauLie Require Import Pauli Matrix MatrixT ParserT InvarT CompilerT Linear LinearT Graph GraphT Quadratic QuadraticT QuadInvT QuadOrthT TwirlT.
From Coq Require Import Lia Permutation.

(* coefficients of a product with a single string on the left / on the right *)
Lemma coef_left1 N x m T : all_n N m -> length x = N -> length T = N ->
  coef (prod_terms [(g1, x)] m) T = gmul (phase x (smul x T)) (coef m (smul x T)).
Proof.
  intros Hm Lx LT. cbn [prod_terms flat_map fst snd]. rewrite app_nil_r, coef_map. cbn [fst snd]. unfold coef.
  rewrite <- (gsum_scale m _ (phase x (smul x T))). rewrite (gsum_ext _ _ (fun t => gmul (phase x (smul x T)) (if pstr_eqb (smul x T) (snd t) then fst t else g0))); [apply gsum_ext; intros; gring|].
  intros t Ht. assert (Lt := Hm t Ht).
  destruct (pstr_eqb T (smul x (snd t))) eqn:E1.
  - apply pstr_eqb_eq in E1. assert (E2 : smul x T = snd t) by (rewrite E1; apply smul_cancel; congruence). rewrite E2, pstr_eqb_refl. gring.
  - destruct (pstr_eqb (smul x T) (snd t)) eqn:E2; [|gring]. apply pstr_eqb_eq in E2. exfalso.
    assert (T = smul x (snd t)) by (rewrite <- E2; symmetry; apply smul_cancel; congruence). subst T. rewrite pstr_eqb_refl in E1. discriminate.
Qed.
Lemma coef_right1 N x m T : all_n N m -> length x = N -> length T = N ->
  coef (prod_terms m [(g1, x)]) T = gmul (phase (smul x T) x) (coef m (smul x T)).
Proof.
  intros Hm Lx LT. unfold prod_terms. rewrite coef_flat_map. unfold coef at 2.
  rewrite <- (gsum_scale m _ (phase (smul x T) x)). rewrite (gsum_ext _ _ (fun t => gmul (phase (smul x T) x) (if pstr_eqb (smul x T) (snd t) then fst t else g0))); [apply gsum_ext; intros; gring|].
  intros t Ht. assert (Lt := Hm t Ht). cbn [map fst snd]. rewrite coef_cons, coef_nil. cbn [fst snd]. rewrite (smul_comm (snd t) x).
  destruct (pstr_eqb T (smul x (snd t))) eqn:E1.
  - apply pstr_eqb_eq in E1. assert (E2 : smul x T = snd t) by (rewrite E1; apply smul_cancel; congruence). rewrite E2, pstr_eqb_refl. gring.
  - destruct (pstr_eqb (smul x T) (snd t)) eqn:E2; [|gring]. apply pstr_eqb_eq in E2. exfalso.
    assert (T = smul x (snd t)) by (rewrite <- E2; symmetry; apply smul_cancel; congruence). subst T. rewrite pstr_eqb_refl in E1. discriminate.
Qed.
Lemma prod_terms_cons_l a b m : prod_terms (a :: b) m = prod_terms [a] m ++ prod_terms b m.
Proof. unfold prod_terms. cbn [flat_map]. rewrite app_nil_r. reflexivity. Qed.
Lemma coef_prod_right2 m x y T : coef (prod_terms m [x; y]) T = gadd (coef (prod_terms m [x]) T) (coef (prod_terms m [y]) T).
Proof.
  unfold prod_terms. rewrite !coef_flat_map, <- gsum_add. apply gsum_ext. intros t _. cbn [map]. rewrite !coef_cons, !coef_nil. gring.
Qed.
Lemma unit_cancel u c : gnorm u = 1%Z -> gmul c u = g0 -> c = g0.
Proof.
  intros Hu H. assert (E : gmul (gmul c u) (gconj u) = g0) by (rewrite H; gring).
  replace (gmul (gmul c u) (gconj u)) with (gmul c (gnorm u, 0%Z)) in E by (unfold gnorm; gring). rewrite Hu in E.
  replace (gmul c (1%Z, 0%Z)) with c in E by gring. exact E.
Qed.
Lemma unit_cancel2 u a b : gnorm u = 1%Z -> gmul a u = gmul b u -> a = b.
Proof.
  intros Hu H. assert (Ea : a = gmul (gmul a u) (gconj u)) by (transitivity (gmul a (gnorm u, 0%Z)); [rewrite Hu; gring|unfold gnorm; gring]).
  assert (Eb : b = gmul (gmul b u) (gconj u)) by (transitivity (gmul b (gnorm u, 0%Z)); [rewrite Hu; gring|unfold gnorm; gring]).
  rewrite Ea, Eb, H. reflexivity.
Qed.
Lemma two_cancel c : gmul (2, 0)%Z c = g0 -> c = g0.
Proof. intros H. destruct c as [a b]. unfold gmul, g0 in H. assert (H1 := f_equal fst H). assert (H2 := f_equal snd H). cbn [fst snd] in H1, H2. unfold g0; f_equal; lia. Qed.

Section Inv.
Variables (n : nat) (g : pstr) (m : lin).
Hypothesis Lg : length g = n.
Hypothesis Hm : all_n (2 * n) m.
Hypothesis Hinv : Comm n (gen2 n g) m.

(* the invariance equation, one output string A ++ B at a time *)
Lemma inv_eq A B : length A = n -> length B = n ->
  gadd (if anti_l g A then gmul (coef m (smul g A ++ B)) (phase g (smul g A)) else g0)
       (if anti_l g B then gmul (coef m (A ++ smul g B)) (phase g (smul g B)) else g0) = g0.
Proof.
  intros LA LB. set (T := A ++ B). assert (LT : length T = (2 * n)%nat) by (unfold T; rewrite app_length; lia).
  set (x1 := g ++ identity n). set (x2 := identity n ++ g).
  assert (L1 : length x1 = (2 * n)%nat) by (unfold x1; rewrite app_length, identity_length; lia).
  assert (L2 : length x2 = (2 * n)%nat) by (unfold x2; rewrite app_length, identity_length; lia).
  assert (HX : all_n (2 * n) (gen2 n g)) by (intros t [<-|[<-|[]]]; cbn [snd]; assumption).
  assert (Hlen : forall a b, all_n (2 * n) a -> all_n (2 * n) b -> all_n (2 * n) (prod_terms a b)).
  { intros a b Ha Hb t Ht. unfold prod_terms in Ht. apply in_flat_map in Ht. destruct Ht as [ta [Hta Ht]]. apply in_map_iff in Ht.
    destruct Ht as [tb [<- Htb]]. cbn [snd]. rewrite smul_length by (rewrite (Ha ta Hta), (Hb tb Htb); reflexivity). apply Ha. exact Hta. }
  assert (EC : coef (prod_terms (gen2 n g) m) T = coef (prod_terms m (gen2 n g)) T).
  { apply (denote_eq_iff_coef (2 * n) _ _ (Hlen _ _ HX Hm) (Hlen _ _ Hm HX)); [|exact LT].
    intros r c Hr Hc. rewrite !(denote_prod_terms (2 * n)) by assumption. apply Hinv; assumption. }
  unfold gen2 in EC. fold x1 x2 in EC. rewrite prod_terms_cons_l, coef_app, coef_prod_right2 in EC.
  rewrite !(coef_left1 (2 * n)), !(coef_right1 (2 * n)) in EC by assumption.
  assert (S1 : smul x1 T = smul g A ++ B).
  { unfold x1, T. rewrite smul_app by congruence. f_equal. rewrite <- LB at 1. apply smul_id_l. }
  assert (S2 : smul x2 T = A ++ smul g B).
  { unfold x2, T. rewrite smul_app by (rewrite identity_length; congruence). f_equal. rewrite <- LA at 1. apply smul_id_l. }
  assert (LgA : length (smul g A) = n) by (rewrite smul_length; congruence).
  assert (LgB : length (smul g B) = n) by (rewrite smul_length; congruence).
  assert (P1 : phase x1 (smul g A ++ B) = phase g (smul g A)).
  { unfold x1. rewrite phase_app by congruence. rewrite <- LB at 1. rewrite phase_id_l. gring. }
  assert (P2 : phase x2 (A ++ smul g B) = phase g (smul g B)).
  { unfold x2. rewrite phase_app by (rewrite identity_length; congruence). rewrite <- LA at 1. rewrite phase_id_l. gring. }
  assert (Q1 : phase (smul g A ++ B) x1 = if anti_l g A then gneg (phase g (smul g A)) else phase g (smul g A)).
  { unfold x1. rewrite phase_app by congruence. rewrite <- LB at 1. rewrite phase_id_r, (phase_swap (smul g A) g).
    rewrite anti_l_smul_l by congruence. rewrite anti_l_self, (anti_l_sym A g). cbn [xorb]. destruct (anti_l g A); gring. }
  assert (Q2 : phase (A ++ smul g B) x2 = if anti_l g B then gneg (phase g (smul g B)) else phase g (smul g B)).
  { unfold x2. rewrite phase_app by (rewrite identity_length; congruence). rewrite <- LA at 1. rewrite phase_id_r, (phase_swap (smul g B) g).
    rewrite anti_l_smul_l by congruence. rewrite anti_l_self, (anti_l_sym B g). cbn [xorb]. destruct (anti_l g B); gring. }
  rewrite S1, S2, P1, P2, Q1, Q2 in EC.
  apply two_cancel.
  set (c1 := coef m (smul g A ++ B)) in *. set (c2 := coef m (A ++ smul g B)) in *.
  set (p1 := phase g (smul g A)) in *. set (p2 := phase g (smul g B)) in *.
  destruct (anti_l g A), (anti_l g B);
    apply gi_eq; [assert (F := f_equal fst EC)|assert (F := f_equal snd EC)|assert (F := f_equal fst EC)|assert (F := f_equal snd EC)
                 |assert (F := f_equal fst EC)|assert (F := f_equal snd EC)|assert (F := f_equal fst EC)|assert (F := f_equal snd EC)];
    destruct c1, c2, p1, p2; unfold gmul, gadd, gneg, g0 in *; cbn [fst snd] in *; lia.
Qed.
End Inv.

Section Complete.
Variables (n : nat) (G : list pstr) (m : lin).
Hypothesis HG : forall h, In h G -> length h = n.
Hypothesis Hne : G <> [].
Hypothesis Hm : all_n (2 * n) m.
Hypothesis Hinv : forall g, In g G -> Comm n (gen2 n g) m.

(* (i) no weight on A (x) B unless A.B commutes with every member *)
Lemma coef_zero_noncomm A B g : length A = n -> length B = n -> In g G -> anti_l g (smul A B) = true -> coef m (A ++ B) = g0.
Proof.
  intros LA LB Hg Ha. assert (Lg := HG g Hg). rewrite anti_l_sym, anti_l_smul_l, !(anti_l_sym _ g) in Ha by congruence.
  destruct (anti_l g A) eqn:EA, (anti_l g B) eqn:EB; try discriminate.
  - (* g anticommutes with A only: the equation at (g.A, B) *)
    assert (E := inv_eq n g m Lg Hm (Hinv g Hg) (smul g A) B ltac:(rewrite smul_length; congruence) LB).
    rewrite anti_l_sym, anti_l_smul_l, anti_l_self, (anti_l_sym A g), EA, EB in E by congruence. cbn [xorb] in E.
    rewrite smul_cancel in E by congruence. replace (gadd (gmul (coef m (A ++ B)) (phase g A)) g0) with (gmul (coef m (A ++ B)) (phase g A)) in E by gring.
    apply (unit_cancel (phase g A)); [apply phase_unit|exact E].
  - assert (E := inv_eq n g m Lg Hm (Hinv g Hg) A (smul g B) LA ltac:(rewrite smul_length; congruence)).
    rewrite (anti_l_sym g (smul g B)), anti_l_smul_l, anti_l_self, (anti_l_sym B g), EA, EB in E by congruence. cbn [xorb] in E.
    rewrite smul_cancel in E by congruence. replace (gadd g0 (gmul (coef m (A ++ B)) (phase g B))) with (gmul (coef m (A ++ B)) (phase g B)) in E by gring.
    apply (unit_cancel (phase g B)); [apply phase_unit|exact E].
Qed.

(* (ii) along an edge S -- g.S of the commutator graph the normalised coefficient is constant *)
Variable L : pstr.
Hypothesis LL : length L = n.
Hypothesis HLc : forall g, In g G -> anti_l g L = false.
Definition lam (S : pstr) : gi := gmul (gconj (phase L S)) (coef m (S ++ smul L S)).
Lemma lam_edge g S : In g G -> length S = n -> anti_l g S = true -> lam (smul g S) = lam S.
Proof.
  intros Hg LS Ha. assert (Lg := HG g Hg). assert (HgL := HLc g Hg).
  set (S' := smul g S). assert (LS' : length S' = n) by (unfold S'; rewrite smul_length; congruence).
  assert (LLS : length (smul L S) = n) by (rewrite smul_length; congruence).
  assert (E := inv_eq n g m Lg Hm (Hinv g Hg) S' (smul L S) LS' LLS).
  assert (A1 : anti_l g S' = true) by (unfold S'; rewrite anti_l_sym, anti_l_smul_l, anti_l_self, (anti_l_sym S g), Ha by congruence; reflexivity).
  assert (A2 : anti_l g (smul L S) = true) by (rewrite anti_l_sym, anti_l_smul_l, !(anti_l_sym _ g), HgL, Ha by congruence; reflexivity).
  rewrite A1, A2 in E. unfold S' in E at 1 2. rewrite smul_cancel in E by congruence.
  assert (E3 : smul g (smul L S) = smul L S') by (unfold S'; symmetry; apply smul_swap; congruence). rewrite E3 in E.
  (* E : c(S|LS) phi(g,S) + c(S'|LS') phi(g, L S') = 0 ; phase_ii : phi(L,S') phi(g, L S') = - phi(L,S) phi(g,S) *)
  assert (P2 := phase_ii L g S ltac:(congruence) ltac:(congruence)). rewrite Ha, HgL in P2. cbn [sg] in P2. fold S' in P2.
  unfold lam. fold S'.
  assert (U1 := phase_unit L S). assert (U2 := phase_unit L S'). assert (U3 := phase_unit g S). assert (U4 := phase_unit g (smul L S')).
  set (c := coef m (S ++ smul L S)) in *. set (c' := coef m (S' ++ smul L S')) in *.
  set (pLS := phase L S) in *. set (pLS' := phase L S') in *. set (pgS := phase g S) in *. set (pgLS' := phase g (smul L S')) in *.
  assert (E' : gmul c' pgLS' = gneg (gmul c pgS)).
  { apply gi_eq; [assert (F := f_equal fst E)|assert (F := f_equal snd E)]; destruct c, c', pgS, pgLS'; unfold gmul, gadd, gneg, g0 in *; cbn [fst snd] in *; lia. }
  assert (H1 : gmul c' (gmul pLS' pgLS') = gneg (gmul (gmul c pgS) pLS')).
  { transitivity (gmul (gmul c' pgLS') pLS'); [gring|]. rewrite E'. gring. }
  rewrite P2 in H1.
  assert (H2 : gmul (gmul c' pLS) pgS = gmul (gmul c pLS') pgS).
  { transitivity (gneg (gmul c' (gmul (gmul (gneg g1) g1) (gmul pLS pgS)))); [gring|]. rewrite H1. gring. }
  apply (unit_cancel2 pgS _ _ U3) in H2.
  transitivity (gmul (gmul (gconj pLS') (gconj pLS)) (gmul c' pLS)).
  - transitivity (gmul (gmul (gconj pLS') c') (gmul (gconj pLS) pLS)); [rewrite gconj_norm, U1; gring|gring].
  - rewrite H2. transitivity (gmul (gmul (gconj pLS) c) (gmul (gconj pLS') pLS')); [gring|rewrite gconj_norm, U2; gring].
Qed.
End Complete.

(* (iii) constant on every component of the model's commutator graph *)
Lemma lam_const n G m L C : (forall h, In h G -> length h = n) -> all_n (2 * n) m -> (forall g, In g G -> Comm n (gen2 n g) m) ->
  length L = n -> (forall g, In g G -> anti_l g L = false) -> In C (commutator_components n G) ->
  forall x y, In x C -> In y C -> lam m L x = lam m L y.
Proof.
  intros HG Hm Hinv LL HLc HC. unfold commutator_components, comps in HC.
  set (adj := fun p q => anti_l p q && memG (smul p q) G) in *.
  destruct (components_spec pstr adj (fun x => length x = n) (length (all_strs n)) (all_strs n) (le_n _)) as [_ [F _]].
  { intros x Hx. apply all_strs_In. exact Hx. }
  rewrite Forall_forall in F.
  assert (K : forall seed x, conn pstr adj (fun x => length x = n) seed x -> lam m L x = lam m L seed).
  { intros seed x0 Hc. induction Hc as [x Hx|x y z Hxy IH Hz Hadj]; [reflexivity|]. rewrite <- IH.
    assert (Ly : length y = n) by (destruct Hxy; assumption).
    assert (Ha : anti_l y z = true /\ In (smul y z) G).
    { destruct Hadj as [Hadj|Hadj]; unfold adj in Hadj; apply andb_true_iff in Hadj; destruct Hadj as [H1 H2]; apply memG_In in H2.
      - split; assumption.
      - split; [rewrite anti_l_sym; exact H1|rewrite smul_comm; exact H2]. }
    destruct Ha as [Ha Hg]. set (g := smul y z) in *.
    replace z with (smul g y) by (unfold g; rewrite (smul_comm y z); apply smul_self_cancel; congruence).
    apply (lam_edge n G m HG Hm Hinv L LL HLc g y Hg Ly).
    unfold g. rewrite anti_l_smul_l by congruence. rewrite anti_l_self, (anti_l_sym z y), Ha. reflexivity. }
  destruct (F C HC) as [seed [Hseed Hconn]].
  intros x y Hx Hy. rewrite (K seed x (Hconn x Hx)), (K seed y (Hconn y Hy)). reflexivity.
Qed.

Lemma proj_scale q s a : proj_num q (lscale s a) = gmul s (proj_num q a).
Proof. rewrite !proj_num_sum, <- gsum_scale. apply gsum_ext. intros t _. rewrite coef_scale. gring. Qed.
Lemma nat_gi_cancel k x : (0 < k)%nat -> gmul (nat_gi k) x = g0 -> x = g0.
Proof.
  intros Hk H. destruct x as [a b]. unfold gmul, nat_gi, g0 in H. cbn [fst snd] in H.
  assert (H1 := f_equal fst H). assert (H2 := f_equal snd H). cbn [fst snd] in H1, H2. assert (Hz : (0 < Z.of_nat k)%Z) by lia. unfold g0. f_equal; nia.
Qed.

(* an invariant combination orthogonal to every member of the full basis vanishes *)
Theorem invariant_orthogonal_zero n G r : (forall h, In h G -> length h = n) -> G <> [] -> all_n (2 * n) r ->
  (forall g, In g G -> Comm n (gen2 n g) r) -> (forall q, In q (full_basis n G) -> proj_num q r = g0) ->
  forall T, length T = (2 * n)%nat -> coef r T = g0.
Proof.
  intros HG Hne Hr Hinv Hproj T LT.
  set (A := firstn n T). set (B := skipn n T).
  assert (ET : T = A ++ B) by (symmetry; apply firstn_skipn).
  assert (LA : length A = n) by (unfold A; rewrite firstn_length; lia).
  assert (LB : length B = n) by (unfold B; rewrite skipn_length; lia).
  set (L := smul A B). assert (LL : length L = n) by (unfold L; rewrite smul_length; congruence).
  assert (EB : smul L A = B) by (unfold L; rewrite (smul_comm A B); apply smul_self_cancel; congruence).
  rewrite ET. destruct (existsb (fun g => anti_l g L) G) eqn:EX.
  - apply existsb_exists in EX. destruct EX as [g [Hg Ha]]. apply (coef_zero_noncomm n G r HG Hr Hinv A B g LA LB Hg Ha).
  - assert (HLc : forall g, In g G -> anti_l g L = false).
    { intros g Hg. destruct (anti_l g L) eqn:E; [|reflexivity]. exfalso. assert (existsb (fun g => anti_l g L) G = true); [|congruence].
      apply existsb_exists. exists g. split; assumption. }
    destruct (commutants_spec n G Hne) as [Lspec _]. assert (HLin : In L (commutants n G)) by (apply Lspec; split; assumption).
    (* the component of A *)
    unfold commutator_components, comps in *.
    destruct (components_spec pstr (fun p q => anti_l p q && memG (smul p q) G) (fun x => length x = n) (length (all_strs n)) (all_strs n) (le_n _)) as [P _].
    { intros x Hx. apply all_strs_In. exact Hx. }
    assert (HAin : In A (concat (commutator_components n G))).
    { unfold commutator_components, comps. apply (Permutation_in A (Permutation_sym P)). apply all_strs_In. exact LA. }
    apply in_concat in HAin. destruct HAin as [C [HC HAC]].
    destruct (component_props n G C HG HC) as [Hlen [Hnd _]].
    set (q := quadratic C L).
    assert (Uq := quadratic_unitary n C L Hlen Hnd). fold q in Uq.
    assert (Hq : In q (full_basis n G)).
    { unfold full_basis. apply filter_In. split; [apply in_flat_map; exists C; split; [exact HC|apply in_map; exact HLin]|].
      destruct (lis_zero q) eqn:EZ; [|reflexivity]. exfalso.
      assert (Hqn : all_n (2 * n) q) by (apply quadratic_all_n; assumption).
      apply (zero_iff (2 * n) q Hqn) in EZ.
      assert (Z := independence (2 * n) q Hqn EZ (A ++ smul L A) ltac:(rewrite app_length, smul_length by congruence; lia)).
      destruct Uq as [U1 U2]. assert (Ht : In (phase L A, A ++ smul L A) q) by (unfold q, quadratic; apply in_map_iff; exists A; split; [reflexivity|exact HAC]).
      assert (U2t := U2 _ Ht). cbn [fst snd] in U2t. rewrite U2t in Z. assert (N := phase_unit L A). rewrite Z in N. discriminate. }
    assert (PZ := Hproj q Hq). rewrite proj_num_sum in PZ. unfold q, quadratic in PZ. rewrite gsum_map in PZ. cbn [fst snd] in PZ.
    rewrite (gsum_ext _ _ (fun _ => lam r L A)) in PZ.
    + rewrite gsum_const in PZ. fold (nat_gi (length C)) in PZ.
      assert (Cpos : (0 < length C)%nat) by (destruct C; [destruct HAC|cbn; lia]).
      apply (nat_gi_cancel _ _ Cpos) in PZ. unfold lam in PZ. rewrite EB in PZ.
      apply (unit_cancel (gconj (phase L A))); [|rewrite <- PZ; gring].
      assert (N := phase_unit L A). destruct (phase L A) as [a b]. unfold gnorm, gconj in *. cbn [fst snd] in *. lia.
    + intros S HS. change (gmul (gconj (phase L S)) (coef r (S ++ smul L S))) with (lam r L S).
      apply (lam_const n G r L C HG Hr Hinv LL HLc HC S A HS HAC).
Qed.

Lemma numer_twirl_all_n n G m : (forall h, In h G -> length h = n) ->
  all_n (2 * n) (numer (common_den (full_basis n G)) (twirl n G m)).
Proof.
  intros HG. rewrite twirl_is_twirlB, numer_twirl. intros t Ht. apply in_flat_map in Ht. destruct Ht as [q [Hq Ht]].
  unfold hterm in Ht. destruct (gi_eqb (proj_num q m) g0); [destruct Ht|]. revert t Ht. apply all_n_scale.
  unfold full_basis in Hq. apply filter_In in Hq. destruct Hq as [Hq _].
  apply in_flat_map in Hq. destruct Hq as [C [HC Hq]]. apply in_map_iff in Hq. destruct Hq as [L [<- HL]].
  destruct (component_props n G C HG HC) as [Hlen _]. apply quadratic_all_n; [exact Hlen|].
  unfold commutants in HL. destruct G as [|g0' G']; [destruct HL|]. apply fold_filter in HL. destruct HL as [HL _]. apply all_strs_In. exact HL.
Qed.

(* completeness: every combination commuting with every g (x) 1 + 1 (x) g is fixed by the twirl (coefficient by
   coefficient, denominators cleared), hence is a combination of the quadratic symmetries *)
Theorem twirl_fixes_invariants n G m : (forall h, In h G -> length h = n) -> G <> [] -> all_n (2 * n) m ->
  (forall g, In g G -> Comm n (gen2 n g) m) ->
  forall T, length T = (2 * n)%nat ->
  coef (numer (common_den (full_basis n G)) (twirl n G m)) T = gmul (nat_gi (common_den (full_basis n G))) (coef m T).
Proof.
  intros HG Hne Hm Hinv T LT. set (D := common_den (full_basis n G)).
  set (r := lscale (nat_gi D) m ++ lscale (gneg g1) (numer D (twirl n G m))).
  assert (Hr : all_n (2 * n) r).
  { intros t Ht. unfold r in Ht. apply in_app_or in Ht. destruct Ht as [Ht|Ht]; revert t Ht; apply all_n_scale; [exact Hm|apply numer_twirl_all_n; exact HG]. }
  assert (Cr : forall g, In g G -> Comm n (gen2 n g) r).
  { intros g Hg. unfold r. apply Comm_app; apply Comm_scale; [apply Hinv; exact Hg|apply model_twirl_invariant; assumption]. }
  assert (Pr : forall q, In q (full_basis n G) -> proj_num q r = g0).
  { intros q Hq. unfold r. rewrite proj_app, !proj_scale. unfold D. rewrite (model_twirl_projects n G HG Hne m q Hq). gring. }
  assert (Z := invariant_orthogonal_zero n G r HG Hne Hr Cr Pr T LT). unfold r in Z. rewrite coef_app, !coef_scale in Z.
  apply gi_eq; [assert (F := f_equal fst Z)|assert (F := f_equal snd Z)];
    destruct (coef m T), (coef (numer D (twirl n G m)) T); unfold gmul, gadd, gneg, g0, g1, nat_gi in *; cbn [fst snd] in *; lia.
Qed.
Theorem twirl_fixes_invariants_matrix n G m : (forall h, In h G -> length h = n) -> G <> [] -> all_n (2 * n) m ->
  (forall g, In g G -> Comm n (gen2 n g) m) ->
  meq (2 * n) (denote (numer (common_den (full_basis n G)) (twirl n G m))) (mscale (nat_gi (common_den (full_basis n G))) (denote m)).
Proof.
  intros HG Hne Hm Hinv r c Hr Hc. unfold mscale. rewrite <- denote_scale.
  apply (denote_eq_iff_coef (2 * n)); [apply numer_twirl_all_n; exact HG|apply all_n_scale; exact Hm| |exact Hr|exact Hc].
  intros p Lp. rewrite coef_scale. apply twirl_fixes_invariants; assumption.
Qed.
