(* Theory/CompilerT.v — meaning of the compiler's validator (C05), possibility/impossibility of
   compilation (C06), size and reach of the universal set (C07). *)
From PauLie Require Import Pauli Matrix MatrixT Sym SymT ClT ClSym InvarT Compiler ClosureN.
From Coq Require Import Lia.

(* ---------- nested commutators of matrices ---------- *)
Fixpoint nested_comm (n : nat) (s : list pstr) : mat :=
  match s with
  | [] => mzero
  | [b] => M b
  | a :: rest => fun r c => gsub (mmul n (M a) (nested_comm n rest) r c) (mmul n (nested_comm n rest) (M a) r c)
  end.
Lemma mmul_ext_r n A B B' r c : length c = n -> meq n B B' -> mmul n A B r c = mmul n A B' r c.
Proof. intros Hc H. unfold mmul. apply gsum_ext. intros k Hk. rewrite (H k c (bv_len n k Hk) Hc). reflexivity. Qed.
Lemma mmul_ext_l n A A' B r c : length r = n -> meq n A A' -> mmul n A B r c = mmul n A' B r c.
Proof. intros Hr H. unfold mmul. apply gsum_ext. intros k Hk. rewrite (H r k Hr (bv_len n k Hk)). reflexivity. Qed.
Lemma mmul_scale_r n A B s r c : mmul n A (mscale s B) r c = gmul s (mmul n A B r c).
Proof. unfold mmul, mscale. rewrite <- gsum_scale. apply gsum_ext. intros; gring. Qed.
Lemma mmul_scale_l n A B s r c : mmul n (mscale s A) B r c = gmul s (mmul n A B r c).
Proof. unfold mmul, mscale. rewrite <- gsum_scale. apply gsum_ext. intros; gring. Qed.
Lemma mmul_zero_r n A r c : mmul n A mzero r c = g0.
Proof. unfold mmul, mzero. rewrite (gsum_ext _ _ (fun _ => g0)); [apply gsum_zero|intros; gring]. Qed.
Lemma mmul_zero_l n B r c : mmul n mzero B r c = g0.
Proof. unfold mmul, mzero. rewrite (gsum_ext _ _ (fun _ => g0)); [apply gsum_zero|intros; gring]. Qed.

Definition all_len (n : nat) (s : list pstr) : Prop := forall a, In a s -> length a = n.
Lemma nested_eval_len n s r : all_len n s -> nested_eval s = Some r -> length r = n.
Proof.
  revert r; induction s as [|a rest IH]; intros r HL H; [discriminate|]. cbn [nested_eval] in H.
  destruct rest as [|b rest'].
  - injection H as <-. apply HL. left. reflexivity.
  - destruct (nested_eval (b :: rest')) as [q|] eqn:E; [|discriminate]. destruct (anti_l a q); [|discriminate]. injection H as <-.
    rewrite smul_length; [apply HL; left; reflexivity|]. rewrite (HL a) by (left; reflexivity).
    symmetry. apply IH; [intros x Hx; apply HL; right; exact Hx|reflexivity].
Qed.
(* the string-level evaluation decides the matrix-level nested commutator: a non-zero multiple of M(result), or zero *)
Theorem nested_eval_matrix n s : s <> [] -> all_len n s ->
  match nested_eval s with
  | Some r => exists c, gnorm c <> 0%Z /\ meq n (nested_comm n s) (mscale c (M r))
  | None => meq n (nested_comm n s) mzero
  end.
Proof.
  induction s as [|a rest IH]; intros Hne HL; [congruence|]. destruct rest as [|b rest'].
  - cbn [nested_eval nested_comm]. exists g1. split; [discriminate|]. intros r c _ _. unfold mscale. gring.
  - assert (HL' : all_len n (b :: rest')) by (intros x Hx; apply HL; right; exact Hx).
    specialize (IH ltac:(discriminate) HL'). assert (Ha : length a = n) by (apply HL; left; reflexivity).
    change (nested_eval (a :: b :: rest')) with
      (match nested_eval (b :: rest') with Some r => if anti_l a r then Some (smul a r) else None | None => None end).
    change (nested_comm n (a :: b :: rest')) with
      (fun r c => gsub (mmul n (M a) (nested_comm n (b :: rest')) r c) (mmul n (nested_comm n (b :: rest')) (M a) r c)).
    destruct (nested_eval (b :: rest')) as [q|] eqn:E.
    + destruct IH as [c0 [Hc0 Hm]]. assert (Hq : length q = n) by (eapply nested_eval_len; eauto).
      destruct (anti_l a q) eqn:Eaq.
      * exists (gmul c0 (gmul (2,0)%Z (phase a q))). split.
        { rewrite !gnorm_mul, phase_unit. unfold gnorm at 2. cbn [fst snd]. lia. }
        intros r c Hr Hc. rewrite (mmul_ext_r n _ _ _ r c Hc Hm), (mmul_ext_l n _ _ _ r c Hr Hm).
        rewrite mmul_scale_r, mmul_scale_l.
        pose proof (commutator_anti n a q r c Ha Hq Hr Hc Eaq) as HC. unfold mscale.
        transitivity (gmul c0 (gsub (mmul n (M a) (M q) r c) (mmul n (M q) (M a) r c))); [gring|]. rewrite HC. gring.
      * intros r c Hr Hc. rewrite (mmul_ext_r n _ _ _ r c Hc Hm), (mmul_ext_l n _ _ _ r c Hr Hm).
        rewrite mmul_scale_r, mmul_scale_l.
        pose proof (commutator_comm n a q r c Ha Hq Hr Hc Eaq) as HC. unfold mzero.
        transitivity (gmul c0 (gsub (mmul n (M a) (M q) r c) (mmul n (M q) (M a) r c))); [gring|]. rewrite HC. gring.
    + intros r c Hr Hc. rewrite (mmul_ext_r n _ _ _ r c Hc IH), (mmul_ext_l n _ _ _ r c Hr IH).
      rewrite mmul_zero_r, mmul_zero_l. unfold mzero. gring.
Qed.

(* ---------- every closure element is a nested commutator of generators ---------- *)
Lemma nested_eval_snoc_chain : forall l g, nested_eval (rev l ++ [g]) = chain pstr smul anti_l g l.
Proof.
  assert (Step : forall s a, s <> [] -> nested_eval (a :: s) = match nested_eval s with Some r => if anti_l a r then Some (smul a r) else None | None => None end).
  { intros s a Hs. destruct s; [congruence|reflexivity]. }
  assert (Gen : forall l s r, s <> [] -> nested_eval s = Some r -> nested_eval (rev l ++ s) = chain pstr smul anti_l r l).
  { induction l as [|x l IH]; intros s r Hs Hr; cbn [rev app chain]; [exact Hr|].
    rewrite <- app_assoc. cbn [app].
    destruct (anti_l r x) eqn:E.
    - apply IH; [discriminate|]. rewrite (Step s x Hs). rewrite Hr, (anti_l_sym x r), E, (smul_comm x r). reflexivity.
    - assert (N : nested_eval (x :: s) = None) by (rewrite (Step s x Hs); rewrite Hr, (anti_l_sym x r), E; reflexivity).
      clear -N Step. induction (rev l) as [|y t IHt]; cbn [app]; [exact N|].
      rewrite (Step (t ++ x :: s) y) by (intros F; apply app_eq_nil in F; destruct F; discriminate). rewrite IHt. reflexivity. }
  intros l g. apply Gen; [discriminate|reflexivity].
Qed.
Lemma chain_enc n : forall l g, length g = n -> (forall x, In x l -> length x = n) ->
  chain P mul anti (enc g) (map enc l) = option_map enc (chain pstr smul anti_l g l).
Proof.
  induction l as [|x l IH]; intros g Hg HL; [reflexivity|]. cbn [map chain].
  assert (Hx : length x = n) by (apply HL; left; reflexivity).
  rewrite enc_anti by congruence. destruct (anti_l g x); [|reflexivity].
  rewrite <- enc_smul by congruence. apply IH; [rewrite smul_length; congruence|intros y Hy; apply HL; right; exact Hy].
Qed.
Theorem nested_exists n (G : list pstr) (t : pstr) :
  (forall g, In g G -> length g = n) -> length t = n ->
  ClS (fun a => In a (map enc G)) (enc t) ->
  exists s, s <> [] /\ (forall a, In a s -> In a G) /\ nested_eval s = Some t.
Proof.
  intros HG Ht H. apply s_chain in H. destruct H as [g0 [l0 [Hg0 [Hl0 Hc]]]].
  apply in_map_iff in Hg0. destruct Hg0 as [g [<- Hg]].
  assert (HL : exists l, l0 = map enc l /\ forall x, In x l -> In x G).
  { clear Hc. induction l0 as [|y l0 IH]; [exists []; split; [reflexivity|intros x []]|].
    inversion Hl0 as [|? ? Hy Hl0']; subst. destruct (IH Hl0') as [l [-> Hl]]. apply in_map_iff in Hy. destruct Hy as [x [<- Hx]].
    exists (x :: l). split; [reflexivity|]. intros z [<-|Hz]; auto. }
  destruct HL as [l [-> Hl]].
  rewrite (chain_enc n l g (HG g Hg) (fun x Hx => HG x (Hl x Hx))) in Hc.
  destruct (chain pstr smul anti_l g l) as [r|] eqn:E; [|discriminate]. cbn [option_map] in Hc. assert (Hc' : enc r = enc t) by congruence. clear Hc. rename Hc' into Hc.
  assert (Hr : length r = n).
  { clear -E HG Hg Hl. revert g Hg E. induction l as [|x l IH]; intros g Hg E; cbn [chain] in E.
    - injection E as <-. apply HG. exact Hg.
    - destruct (anti_l g x); [|discriminate].
      assert (IH' := IH (fun y Hy => Hl y (or_intror Hy))). clear IH.
      assert (Lg : length g = n) by (apply HG; exact Hg). assert (Lx : length x = n) by (apply HG; apply Hl; left; reflexivity).
      (* generalise: chain from any string of length n *)
      assert (Gen : forall l g, length g = n -> (forall y, In y l -> length y = n) -> forall r, chain pstr smul anti_l g l = Some r -> length r = n).
      { clear. induction l as [|x l IH]; intros g Lg HL r E; cbn [chain] in E; [injection E as <-; exact Lg|].
        destruct (anti_l g x); [|discriminate]. apply (IH (smul g x)); [rewrite smul_length; [exact Lg|rewrite Lg; symmetry; apply HL; left; reflexivity]|intros y Hy; apply HL; right; exact Hy|exact E]. }
      apply (Gen l (smul g x)); [rewrite smul_length; congruence|intros y Hy; apply HG, Hl; right; exact Hy|exact E]. }
  apply enc_inj in Hc; [|congruence]. subst r.
  exists (rev l ++ [g]). split; [intros F; apply app_eq_nil in F; destruct F; discriminate|]. split.
  - intros a Ha. apply in_app_or in Ha. destruct Ha as [Ha|[<-|[]]]; [apply Hl; apply in_rev; exact Ha|exact Hg].
  - rewrite nested_eval_snoc_chain. exact E.
Qed.

(* a sequence over a set G that evaluates to t witnesses t in the closure of G *)
Lemma nested_eval_in_cl (G : pstr -> Prop) : forall s t, (forall a, In a s -> G a) -> nested_eval s = Some t -> ClL G t.
Proof.
  induction s as [|a rest IH]; intros t HG H; [discriminate|]. destruct rest as [|b rest'].
  - cbn in H. injection H as <-. constructor. apply HG. left. reflexivity.
  - change (nested_eval (a :: b :: rest')) with
      (match nested_eval (b :: rest') with Some r => if anti_l a r then Some (smul a r) else None | None => None end) in H.
    destruct (nested_eval (b :: rest')) as [q|] eqn:E; [|discriminate]. destruct (anti_l a q) eqn:Ea; [|discriminate]. injection H as <-.
    apply cl_br; [constructor; apply HG; left; reflexivity|apply IH; [intros x Hx; apply HG; right; exact Hx|reflexivity]|exact Ea].
Qed.

(* ---------- the universal set ---------- *)
Lemma flat_map_pair_length {A B} (f g : A -> B) l : length (flat_map (fun i => [f i; g i]) l) = (2 * length l)%nat.
Proof. induction l as [|a t IH]; [reflexivity|]. cbn [flat_map app length]. rewrite IH. lia. Qed.
Theorem universal_length N k U : universal N k = Ok U -> length U = (2 * N + 1)%nat.
Proof.
  unfold universal. destruct (Nat.leb 1 k && Nat.ltb k N)%bool eqn:E; [|discriminate]. intros HU.
  match type of HU with Ok ?l = Ok _ => assert (EU : U = l) by congruence end. subst U. clear HU.
  apply andb_true_iff in E. destruct E as [E1 E2]. apply Nat.leb_le in E1. apply Nat.ltb_lt in E2.
  rewrite !app_length, !map_length, !seq_length. unfold left_a_minimal. rewrite app_length.
  rewrite (flat_map_pair_length (fun i => get_single k i PX) (fun i => get_single k i PZ)), seq_length. cbn [length]. lia.
Qed.
Lemma get_single_length n i a : (i < n)%nat -> length (get_single n i a) = n.
Proof. intros H. unfold get_single, identity. rewrite !app_length, !repeat_length. cbn [length]. lia. Qed.
Theorem universal_each_length N k U : universal N k = Ok U -> forall g, In g U -> length g = N.
Proof.
  unfold universal. destruct (Nat.leb 1 k && Nat.ltb k N)%bool eqn:E; [|discriminate]. intros HU g Hg.
  match type of HU with Ok ?l = Ok _ => assert (EU : U = l) by congruence end. subst U. clear HU.
  apply andb_true_iff in E. destruct E as [E1 E2]. apply Nat.leb_le in E1. apply Nat.ltb_lt in E2.
  apply in_app_or in Hg. destruct Hg as [Hg|Hg]; [|apply in_app_or in Hg; destruct Hg as [Hg|Hg]].
  - apply in_map_iff in Hg. destruct Hg as [a [<- Ha]]. cbv beta. rewrite app_length. unfold identity at 1. rewrite repeat_length.
    unfold left_a_minimal in Ha. apply in_app_or in Ha. destruct Ha as [Ha|[<-|[]]].
    + apply in_flat_map in Ha. destruct Ha as [i [Hi [<-|[<-|[]]]]]; apply in_seq in Hi; rewrite get_single_length by lia; lia.
    + rewrite repeat_length. lia.
  - apply in_map_iff in Hg. destruct Hg as [j [<- Hj]]. apply in_seq in Hj. cbv beta. change (choose_u k) with (get_single k 0 PX). rewrite app_length, !get_single_length by lia. lia.
  - apply in_map_iff in Hg. destruct Hg as [j [<- Hj]]. apply in_seq in Hj. cbv beta. change (choose_u k) with (get_single k 0 PX). rewrite app_length, !get_single_length by lia. lia.
Qed.

(* ---------- the quadratic form that obstructs odd k ---------- *)
Fixpoint yp (p : pstr) : bool := match p with [] => false | a :: t => xorb (xb a && zb a) (yp t) end.
Definition qf (R : pstr) (p : pstr) : bool := xorb (yp p) (anti_l p R).
Lemma yp_smul : forall a b, length a = length b -> yp (smul a b) = xorb (xorb (yp a) (yp b)) (anti_l a b).
Proof.
  induction a as [|x a IH]; intros [|y b] H; try discriminate; [reflexivity|]. injection H as H. cbn [smul yp anti_l]. rewrite IH by exact H.
  destruct x, y, (yp a), (yp b), (anti_l a b); reflexivity.
Qed.
Lemma anti_l_smul_l : forall a b r, length a = length b -> anti_l (smul a b) r = xorb (anti_l a r) (anti_l b r).
Proof.
  induction a as [|x a IH]; intros [|y b] r H; try discriminate; [reflexivity|]. injection H as H. destruct r as [|z r]; [reflexivity|].
  cbn [smul anti_l]. rewrite IH by exact H. destruct x, y, z, (anti_l a r), (anti_l b r); reflexivity.
Qed.
Lemma qf_mul R n a b : length a = n -> length b = n -> qf R (smul a b) = xorb (xorb (qf R a) (qf R b)) (anti_l a b).
Proof.
  intros Ha Hb. unfold qf. rewrite yp_smul, anti_l_smul_l by congruence.
  destruct (yp a), (yp b), (anti_l a b), (anti_l a R), (anti_l b R); reflexivity.
Qed.
Lemma yp_app a b : yp (a ++ b) = xorb (yp a) (yp b).
Proof. induction a as [|x a IH]; cbn [app yp]; [destruct (yp b); reflexivity|]. rewrite IH. destruct (xb x && zb x), (yp a), (yp b); reflexivity. Qed.
Lemma yp_identity m : yp (identity m) = false.
Proof. unfold identity. induction m; [reflexivity|]. cbn. rewrite IHm. reflexivity. Qed.
Lemma yp_repeat a m : (xb a && zb a = false) -> yp (repeat a m) = false.
Proof. intros H. induction m; [reflexivity|]. cbn [repeat yp]. rewrite H, IHm. reflexivity. Qed.
Lemma anti_identity_l m q : anti_l (identity m) q = false.
Proof. unfold identity. revert q. induction m; intros q; [reflexivity|]. destruct q; [reflexivity|]. cbn [repeat anti_l]. rewrite IHm. destruct p; reflexivity. Qed.
Lemma anti_identity_r m p : anti_l p (identity m) = false.
Proof. rewrite anti_l_sym. apply anti_identity_l. Qed.
Lemma anti_repeat a b m : anti_l (repeat a m) (repeat b m) = if anti1 a b then Nat.odd m else false.
Proof.
  induction m as [|m IH]; [destruct (anti1 a b); reflexivity|]. cbn [repeat anti_l]. rewrite IH. rewrite Nat.odd_succ.
  destruct (anti1 a b); [|reflexivity]. rewrite <- Nat.negb_odd. destruct (Nat.odd m); reflexivity.
Qed.
Lemma repeat_split {A} (a : A) k i : (i < k)%nat -> repeat a k = repeat a i ++ [a] ++ repeat a (k - i - 1).
Proof. intros H. replace k with (i + (1 + (k - i - 1)))%nat at 1 by lia. rewrite !repeat_app. reflexivity. Qed.
Lemma anti_single k i a b : (i < k)%nat -> anti_l (get_single k i a) (repeat b k) = anti1 a b.
Proof.
  intros H. unfold get_single. rewrite (repeat_split b k i H).
  rewrite anti_l_app by (unfold identity; rewrite !repeat_length; reflexivity). rewrite anti_identity_l.
  rewrite anti_l_app by reflexivity. rewrite anti_identity_l. cbn [anti_l]. destruct (anti1 a b); reflexivity.
Qed.
Lemma yp_single k i a : (xb a && zb a = false) -> yp (get_single k i a) = false.
Proof. intros H. unfold get_single. rewrite !yp_app, !yp_identity. cbn [yp]. rewrite H. reflexivity. Qed.

Definition Rk (N k : nat) : pstr := repeat PY k ++ identity (N - k).
Theorem universal_qf_one N k U : Nat.odd k = true -> universal N k = Ok U -> forall g, In g U -> qf (Rk N k) g = true.
Proof.
  intros Hodd HU g Hg. unfold universal in HU. destruct (Nat.leb 1 k && Nat.ltb k N)%bool eqn:E; [|discriminate].
  match type of HU with Ok ?l = Ok _ => assert (EU : U = l) by congruence end. subst U. clear HU.
  apply andb_true_iff in E. destruct E as [E1 E2]. apply Nat.leb_le in E1. apply Nat.ltb_lt in E2. unfold qf, Rk.
  apply in_app_or in Hg. destruct Hg as [Hg|Hg]; [|apply in_app_or in Hg; destruct Hg as [Hg|Hg]].
  - apply in_map_iff in Hg. destruct Hg as [a [<- Ha]]. cbv beta. unfold left_a_minimal in Ha. apply in_app_or in Ha. destruct Ha as [Ha|[<-|[]]].
    + apply in_flat_map in Ha. destruct Ha as [i [Hi Ha]]. apply in_seq in Hi.
      destruct Ha as [<-|[<-|[]]]; rewrite yp_app, yp_identity, yp_single by reflexivity;
        (rewrite anti_l_app by (rewrite get_single_length, repeat_length by lia; reflexivity));
        rewrite anti_single by lia; rewrite anti_identity_l; reflexivity.
    + rewrite yp_app, yp_identity, yp_repeat by reflexivity. rewrite anti_l_app by (rewrite !repeat_length; reflexivity).
      rewrite anti_repeat, anti_identity_l. cbn [anti1 xb zb andb xorb]. rewrite Hodd. reflexivity.
  - apply in_map_iff in Hg. destruct Hg as [j [<- Hj]]. apply in_seq in Hj. cbv beta. change (choose_u k) with (get_single k 0 PX).
    rewrite yp_app, !yp_single by reflexivity. rewrite anti_l_app by (rewrite get_single_length, repeat_length by lia; reflexivity).
    rewrite anti_single by lia. rewrite anti_identity_r. reflexivity.
  - apply in_map_iff in Hg. destruct Hg as [j [<- Hj]]. apply in_seq in Hj. cbv beta. change (choose_u k) with (get_single k 0 PX).
    rewrite yp_app, !yp_single by reflexivity. rewrite anti_l_app by (rewrite get_single_length, repeat_length by lia; reflexivity).
    rewrite anti_single by lia. rewrite anti_identity_r. reflexivity.
Qed.
Definition x0x1 (N : nat) : pstr := PX :: PX :: identity (N - 2).
Lemma x0x1_qf_zero N k : (2 <= k)%nat -> qf (Rk N k) (x0x1 N) = false.
Proof.
  intros Hk. unfold qf, x0x1, Rk. destruct k as [|[|k]]; try lia. cbn [repeat app yp anti_l].
  rewrite yp_identity, anti_identity_l. reflexivity.
Qed.
(* for odd k the target X_0 X_1 is outside the closure of the universal set, for every N *)
Theorem odd_k_unreachable N k U : Nat.odd k = true -> (3 <= k < N)%nat -> universal N k = Ok U ->
  ~ ClL (fun g => In g U) (x0x1 N).
Proof.
  intros Hodd Hk HU H.
  destruct (cl_quadratic_D pstr smul anti_l (Dn N) (qf (Rk N k)) (fun g => In g U) (Dn_mul N)
             (universal_each_length N k U HU) (fun a b Ha Hb => qf_mul (Rk N k) N a b Ha Hb)
             (universal_qf_one N k U Hodd HU) (x0x1 N) H) as [_ Hq].
  rewrite x0x1_qf_zero in Hq by lia. discriminate.
Qed.
Lemma pstr_eqb_true p q : pstr_eqb p q = true -> p = q.
Proof.
  revert q; induction p as [|a p IH]; intros [|b q] H; try discriminate; [reflexivity|]. cbn in H. apply andb_true_iff in H. destruct H as [H1 H2].
  f_equal; [|apply IH; exact H2]. unfold pl_eqb in H1. apply andb_true_iff in H1. destruct H1 as [A B]. apply eqb_prop in A, B. destruct a, b; cbn in *; congruence.
Qed.
Theorem odd_k_never_compiles N k : Nat.odd k = true -> (3 <= k < N)%nat -> forall s, compile_ok N k (x0x1 N) s = false.
Proof.
  intros Hodd Hk s. unfold compile_ok. destruct (universal N k) as [U|] eqn:HU; [|reflexivity]. destruct s as [|a0 s']; [reflexivity|].
  destruct (forallb (fun a => memU a U) (a0 :: s')) eqn:EF; [|reflexivity]. cbn [andb].
  destruct (nested_eval (a0 :: s')) as [r|] eqn:EN; [|reflexivity]. destruct (pstr_eqb r (x0x1 N)) eqn:ER; [|reflexivity]. exfalso.
  apply pstr_eqb_true in ER. subst r. apply (odd_k_unreachable N k U Hodd Hk HU).
  apply (nested_eval_in_cl _ (a0 :: s')); [|exact EN]. intros a Ha. rewrite forallb_forall in EF. specialize (EF a Ha).
  unfold memU in EF. apply existsb_exists in EF. destruct EF as [x [Hx Ex]]. apply pstr_eqb_true in Ex. subst. exact Hx.
Qed.

(* ---------- bounded facts by computation (the bound is part of each statement) ---------- *)
Definition uni (N k : nat) : list pstr := match universal N k with Ok U => U | ValueError => [] end.
Definition even_pairs : list (nat * nat) := [(3,2); (4,2); (5,2); (5,4); (6,2); (6,4)]%nat.
Lemma even_pairs_full : forallb (fun p => match closure_card (fst p) (uni (fst p) (snd p)) with
                                           | Some c => Nat.eqb c (Nat.pow 4 (fst p) - 1) | None => false end) even_pairs = true.
Proof. vm_compute. reflexivity. Qed.
Theorem even_k_full_small N k : (3 <= N <= 6)%nat -> (2 <= k < N)%nat -> Nat.even k = true ->
  closure_card N (uni N k) = Some (Nat.pow 4 N - 1)%nat.
Proof.
  intros HN Hk He. assert (Hin : In (N, k) even_pairs).
  { assert (C : ((N = 3 /\ k = 2) \/ (N = 4 /\ k = 2) \/ (N = 5 /\ k = 2) \/ (N = 5 /\ k = 4) \/ (N = 6 /\ k = 2) \/ (N = 6 /\ k = 4))%nat).
    { destruct k as [|[|[|[|[|[|k]]]]]]; cbn in He; try discriminate; lia. }
    unfold even_pairs. cbn [In]. destruct C as [[-> ->]|[[-> ->]|[[-> ->]|[[-> ->]|[[-> ->]|[-> ->]]]]]]; tauto. }
  pose proof even_pairs_full as F. rewrite forallb_forall in F. specialize (F (N, k) Hin). cbn [fst snd] in F.
  destruct (closure_card N (uni N k)) as [c|]; [|discriminate]. apply Nat.eqb_eq in F. subst. reflexivity.
Qed.
Fixpoint nodupS (l : list pstr) : bool := match l with [] => true | a :: t => negb (memU a t) && nodupS t end.
Definition all_Nk (Nmax : nat) : list (nat * nat) := flat_map (fun N => map (fun k => (N, k)) (seq 2 (N - 2))) (seq 3 (Nmax - 2)).
Lemma universal_nodup_small : forallb (fun p => nodupS (uni (fst p) (snd p))) (all_Nk 12) = true.
Proof. vm_compute. reflexivity. Qed.
Lemma nodupS_NoDup l : nodupS l = true -> NoDup l.
Proof.
  induction l as [|a t IH]; intros H; [constructor|]. cbn [nodupS] in H. apply andb_true_iff in H. destruct H as [H1 H2].
  constructor; [|apply IH; exact H2]. intros Hin. assert (memU a t = true); [|rewrite H in H1; discriminate].
  unfold memU. apply existsb_exists. exists a. split; [exact Hin|]. clear. induction a as [|x a IH]; [reflexivity|]. cbn. rewrite IH. destruct x; reflexivity.
Qed.
Theorem universal_nodup_bounded N k U : (N <= 12)%nat -> (2 <= k)%nat -> universal N k = Ok U -> NoDup U.
Proof.
  intros HN Hk2 HU. assert (Hk : (1 <= k < N)%nat).
  { unfold universal in HU. destruct (Nat.leb 1 k && Nat.ltb k N)%bool eqn:E; [|discriminate]. apply andb_true_iff in E. destruct E as [E1 E2].
    apply Nat.leb_le in E1. apply Nat.ltb_lt in E2. lia. }
  pose proof universal_nodup_small as F. rewrite forallb_forall in F.
  assert (Hin : In (N, k) (all_Nk 12)).
  { unfold all_Nk. apply in_flat_map. exists N. split; [apply in_seq; lia|]. apply in_map. apply in_seq. lia. }
  specialize (F _ Hin). cbn [fst snd] in F. unfold uni in F. rewrite HU in F. apply nodupS_NoDup. exact F.
Qed.

Lemma x0x1_nonid N : (2 <= N)%nat -> x0x1 N <> identity N.
Proof. intros H. unfold x0x1, identity. destruct N as [|[|N]]; try lia. cbn. discriminate. Qed.
Lemma x0x1_length N : (2 <= N)%nat -> length (x0x1 N) = N.
Proof. intros H. unfold x0x1, identity. cbn [length]. rewrite repeat_length. lia. Qed.
Theorem c06_refuted_odd_k N k : Nat.odd k = true -> (3 <= k < N)%nat ->
  x0x1 N <> identity N /\ forall s, compile_ok N k (x0x1 N) s = false.
Proof. intros Ho Hk. split; [apply x0x1_nonid; lia|apply odd_k_never_compiles; assumption]. Qed.
Theorem c07_refuted_odd_k N k U : Nat.odd k = true -> (3 <= k < N)%nat -> universal N k = Ok U ->
  x0x1 N <> identity N /\ length (x0x1 N) = N /\ ~ ClL (fun g => In g U) (x0x1 N).
Proof. intros Ho Hk HU. split; [apply x0x1_nonid; lia|split; [apply x0x1_length; lia|apply (odd_k_unreachable N k U Ho Hk HU)]]. Qed.
Theorem c05_validator_sound N k target s : compile_ok N k target s = true ->
  exists U, universal N k = Ok U /\ s <> [] /\ (forall a, In a s -> In a U) /\
            exists c, gnorm c <> 0%Z /\ meq N (nested_comm N s) (mscale c (M target)).
Proof.
  intros H. unfold compile_ok in H. destruct (universal N k) as [U|] eqn:HU; [|discriminate].
  destruct s as [|a0 s']; [discriminate|]. apply andb_true_iff in H. destruct H as [H1 H2].
  exists U. split; [reflexivity|]. split; [discriminate|].
  assert (HM : forall a, In a (a0 :: s') -> In a U).
  { intros a Ha. rewrite forallb_forall in H1. specialize (H1 a Ha). unfold memU in H1. apply existsb_exists in H1.
    destruct H1 as [x [Hx Ex]]. apply pstr_eqb_true in Ex. subst. exact Hx. }
  split; [exact HM|].
  destruct (nested_eval (a0 :: s')) as [r|] eqn:EN; [|discriminate]. apply pstr_eqb_true in H2. subst r.
  assert (HL : all_len N (a0 :: s')) by (intros a Ha; apply (universal_each_length N k U HU); apply HM; exact Ha).
  pose proof (nested_eval_matrix N (a0 :: s') ltac:(discriminate) HL) as T. rewrite EN in T. exact T.
Qed.
