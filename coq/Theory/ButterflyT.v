(* Theory/ButterflyT.v — the source's iterative strided butterfly (for h = 1, 4, 16, ...: every block of 4h entries
   -> (x+y, x-y, z+w, i(z-w))) computes the same vector as the block recursion `bfly` about which C13 is proved. *)
From PauLie Require Import Pauli Matrix Decomp DecompT.
From Coq Require Import Lia Arith ArithRing.

Definition combS (x y z w : gvec) : gvec := vadd x y ++ vsub x y ++ vadd z w ++ vimul (vsub z w).
Lemma combS_length h x y z w : length x = h -> length y = h -> length z = h -> length w = h -> length (combS x y z w) = (4 * h)%nat.
Proof. intros Hx Hy Hz Hw. unfold combS. rewrite !app_length, vimul_length, !vadd_length, !vsub_length, Hx, Hy, Hz, Hw, Nat.min_id. lia. Qed.

Section Pass.
Variable h : nat.
Hypothesis hpos : (0 < h)%nat.

Lemma pass_nil f : pass f h [] = [].
Proof. destruct f; reflexivity. Qed.
Lemma pass_block f x y z w rest : length x = h -> length y = h -> length z = h -> length w = h ->
  pass (S f) h (x ++ y ++ z ++ w ++ rest) = combS x y z w ++ pass f h rest.
Proof.
  intros Hx Hy Hz Hw. set (b := x ++ y ++ z ++ w ++ rest).
  assert (E1 : firstn h b = x) by (apply firstn_app_exact; exact Hx).
  assert (E2 : firstn h (skipn h b) = y) by (unfold b; rewrite (skipn_app_exact x _ h Hx); apply firstn_app_exact; exact Hy).
  assert (E3 : firstn h (skipn (2 * h) b) = z).
  { unfold b. replace (x ++ y ++ z ++ w ++ rest) with ((x ++ y) ++ z ++ w ++ rest) by (rewrite <- app_assoc; reflexivity).
    rewrite (skipn_app_exact (x ++ y) _ (2 * h)) by (rewrite app_length; lia). apply firstn_app_exact. exact Hz. }
  assert (E4 : firstn h (skipn (3 * h) b) = w).
  { unfold b. replace (x ++ y ++ z ++ w ++ rest) with ((x ++ y ++ z) ++ w ++ rest) by (rewrite <- !app_assoc; reflexivity).
    rewrite (skipn_app_exact (x ++ y ++ z) _ (3 * h)) by (rewrite !app_length; lia). apply firstn_app_exact. exact Hw. }
  assert (E5 : skipn (4 * h) b = rest).
  { unfold b. replace (x ++ y ++ z ++ w ++ rest) with ((x ++ y ++ z ++ w) ++ rest) by (rewrite <- !app_assoc; reflexivity).
    apply skipn_app_exact. rewrite !app_length. lia. }
  assert (Hb : b <> []) by (unfold b; destruct x; [cbn in Hx; lia|discriminate]).
  cbn [pass]. destruct b as [|b0 bt] eqn:Eb; [congruence|]. rewrite E1, E2, E3, E4, E5. unfold combS. rewrite <- !app_assoc. reflexivity.
Qed.
Lemma split_block k (a : gvec) : length a = (S k * (4 * h))%nat ->
  exists x y z w a', a = x ++ y ++ z ++ w ++ a' /\ length x = h /\ length y = h /\ length z = h /\ length w = h /\ length a' = (k * (4 * h))%nat.
Proof.
  intros H. rewrite Nat.mul_succ_l in H.
  exists (firstn h a), (firstn h (skipn h a)), (firstn h (skipn h (skipn h a))), (firstn h (skipn h (skipn h (skipn h a)))), (skipn h (skipn h (skipn h (skipn h a)))).
  rewrite !firstn_skipn. split; [reflexivity|]. rewrite !firstn_length, !skipn_length. lia.
Qed.
Lemma pass_app : forall k f a b, length a = (k * (4 * h))%nat -> pass (k + f) h (a ++ b) = pass k h a ++ pass f h b.
Proof.
  induction k as [|k IH]; intros f a b Ha.
  - destruct a; [reflexivity|cbn in Ha; lia].
  - destruct (split_block k a Ha) as [x [y [z [w [a' [-> [Hx [Hy [Hz [Hw Ha']]]]]]]]]].
    rewrite <- !app_assoc. cbn [Nat.add]. rewrite !pass_block by assumption. rewrite (IH f a' b Ha'), app_assoc. reflexivity.
Qed.
Lemma pass_fuel k f (a : gvec) : length a = (k * (4 * h))%nat -> (k <= f)%nat -> pass f h a = pass k h a.
Proof.
  intros Ha Hf. replace f with (k + (f - k))%nat by lia. rewrite <- (app_nil_r a) at 1. rewrite (pass_app k (f - k) a [] Ha), pass_nil. apply app_nil_r.
Qed.
Lemma pass_length : forall k a, length a = (k * (4 * h))%nat -> length (pass k h a) = length a.
Proof.
  induction k as [|k IH]; intros a Ha.
  - destruct a; [reflexivity|cbn in Ha; lia].
  - destruct (split_block k a Ha) as [x [y [z [w [a' [-> [Hx [Hy [Hz [Hw Ha']]]]]]]]]].
    rewrite pass_block by assumption. rewrite app_length, (combS_length h), (IH a' Ha'), !app_length by assumption. lia.
Qed.
(* with the fuel the model uses (the length of the vector) *)
Lemma pass_len_fuel k (a : gvec) : length a = (k * (4 * h))%nat -> pass (length a) h a = pass k h a.
Proof. intros Ha. apply pass_fuel; [exact Ha|]. rewrite Ha. nia. Qed.
End Pass.

Lemma pow4_pos l : (0 < Nat.pow 4 l)%nat.
Proof. induction l; cbn [Nat.pow]; lia. Qed.
Lemma passes_length : forall l h k (b : gvec), (0 < h)%nat -> length b = (k * (h * Nat.pow 4 l))%nat -> length (passes l h b) = length b.
Proof.
  induction l as [|l IH]; intros h k b Hh Hb; [reflexivity|]. cbn [passes].
  assert (Hb' : length b = (k * Nat.pow 4 l * (4 * h))%nat) by (rewrite Hb; cbn [Nat.pow]; ring).
  assert (HL : length (pass (length b) h b) = length b) by (rewrite (pass_len_fuel h Hh _ b Hb'); apply (pass_length h Hh _ b Hb')).
  rewrite (IH (4 * h)%nat k); [exact HL|lia|]. rewrite HL, Hb. cbn [Nat.pow]. ring.
Qed.
(* blocks of h*4^l entries are transformed independently by l passes *)
Lemma passes_app : forall l h ka kb (a b : gvec), (0 < h)%nat ->
  length a = (ka * (h * Nat.pow 4 l))%nat -> length b = (kb * (h * Nat.pow 4 l))%nat ->
  passes l h (a ++ b) = passes l h a ++ passes l h b.
Proof.
  induction l as [|l IH]; intros h ka kb a b Hh Ha Hb; [reflexivity|]. cbn [passes].
  assert (Ha' : length a = (ka * Nat.pow 4 l * (4 * h))%nat) by (rewrite Ha; cbn [Nat.pow]; ring).
  assert (Hb' : length b = (kb * Nat.pow 4 l * (4 * h))%nat) by (rewrite Hb; cbn [Nat.pow]; ring).
  assert (Hab : length (a ++ b) = ((ka * Nat.pow 4 l + kb * Nat.pow 4 l) * (4 * h))%nat) by (rewrite app_length, Ha', Hb'; ring).
  rewrite (pass_len_fuel h Hh _ (a ++ b) Hab), (pass_app h Hh _ _ a b Ha'), (pass_len_fuel h Hh _ a Ha'), (pass_len_fuel h Hh _ b Hb').
  apply (IH (4 * h)%nat ka kb); [lia| |].
  - rewrite (pass_length h Hh _ a Ha'), Ha. cbn [Nat.pow]. ring.
  - rewrite (pass_length h Hh _ b Hb'), Hb. cbn [Nat.pow]. ring.
Qed.
(* the last pass peeled off *)
Lemma passes_last : forall l h k (b : gvec), (0 < h)%nat -> length b = (k * (h * Nat.pow 4 (S l)))%nat ->
  passes (S l) h b = pass (length b) (h * Nat.pow 4 l) (passes l h b).
Proof.
  induction l as [|l IH]; intros h k b Hh Hb.
  - cbn [passes Nat.pow]. rewrite Nat.mul_1_r. reflexivity.
  - assert (Hb' : length b = (k * Nat.pow 4 (S l) * (4 * h))%nat) by (rewrite Hb; cbn [Nat.pow]; ring).
    assert (HL : length (pass (length b) h b) = length b) by (rewrite (pass_len_fuel h Hh _ b Hb'); apply (pass_length h Hh _ b Hb')).
    change (passes (S (S l)) h b) with (passes (S l) (4 * h) (pass (length b) h b)).
    rewrite (IH (4 * h)%nat k (pass (length b) h b)); [|lia|rewrite HL, Hb; cbn [Nat.pow]; ring].
    rewrite HL. change (passes (S l) h b) with (passes l (4 * h) (pass (length b) h b)).
    replace (4 * h * Nat.pow 4 l)%nat with (h * Nat.pow 4 (S l))%nat by (cbn [Nat.pow]; ring). reflexivity.
Qed.

Theorem bfly_iter_eq : forall n v, length v = Nat.pow 4 n -> bfly_iter n v = bfly n v.
Proof.
  unfold bfly_iter. induction n as [|n IH]; intros v Hv; [reflexivity|].
  set (q := Nat.pow 4 n). assert (Hq : (0 < q)%nat) by apply pow4_pos.
  assert (Hv' : length v = (1 * (4 * q))%nat) by (rewrite Hv; cbn [Nat.pow]; fold q; lia).
  destruct (split_block q Hq 0%nat v Hv') as [v0 [v1 [v2 [v3 [r [E [H0 [H1 [H2 [H3 Hr]]]]]]]]]].
  assert (r = []) as -> by (destruct r; [reflexivity|cbn in Hr; lia]). rewrite app_nil_r in E.
  rewrite (passes_last n 1%nat 1%nat v) by (rewrite ?Hv; lia). rewrite Nat.mul_1_l. fold q.
  assert (U : forall k (a : gvec), length a = (k * q)%nat -> length a = (k * (1 * Nat.pow 4 n))%nat) by (intros k a Ha; rewrite Ha; fold q; lia).
  assert (EP : passes n 1 v = bfly n v0 ++ bfly n v1 ++ bfly n v2 ++ bfly n v3).
  { rewrite E.
    rewrite (passes_app n 1%nat 1%nat 3%nat v0 (v1 ++ v2 ++ v3)); [|lia|apply U; lia|apply U; rewrite !app_length; lia].
    rewrite (passes_app n 1%nat 1%nat 2%nat v1 (v2 ++ v3)); [|lia|apply U; lia|apply U; rewrite !app_length; lia].
    rewrite (passes_app n 1%nat 1%nat 1%nat v2 v3); [|lia|apply U; lia|apply U; lia].
    rewrite !IH by assumption. reflexivity. }
  rewrite EP, Hv. cbn [Nat.pow]. fold q.
  assert (L : forall u, length u = q -> length (bfly n u) = q) by (intros u Hu; apply bfly_length; exact Hu).
  replace (4 * q)%nat with (S (4 * q - 1)) by lia.
  rewrite <- (app_nil_r (bfly n v3)).
  rewrite (pass_block q Hq) by (apply L; assumption). rewrite pass_nil, app_nil_r.
  cbn [bfly]. fold q. destruct (four_blocks v0 v1 v2 v3 q H0 H1 H2 H3) as [F0 [F1 [F2 F3]]].
  rewrite E, F0, F1, F2, F3. reflexivity.
Qed.
Theorem decompose_iter_eq n A : decompose_iter n A = decompose n A.
Proof. unfold decompose_iter, decompose. apply bfly_iter_eq. apply vec_length. Qed.

(* ---------- the diagonal variant (two-way butterfly) ---------- *)
Section DPass.
Variable h : nat.
Hypothesis hpos : (0 < h)%nat.
Lemma dpass_nil f : dpass f h [] = [].
Proof. destruct f; reflexivity. Qed.
Lemma dpass_block f x y rest : length x = h -> length y = h ->
  dpass (S f) h (x ++ y ++ rest) = vadd x y ++ vsub x y ++ dpass f h rest.
Proof.
  intros Hx Hy. set (b := x ++ y ++ rest).
  assert (E1 : firstn h b = x) by (apply firstn_app_exact; exact Hx).
  assert (E2 : firstn h (skipn h b) = y) by (unfold b; rewrite (skipn_app_exact x _ h Hx); apply firstn_app_exact; exact Hy).
  assert (E5 : skipn (2 * h) b = rest).
  { unfold b. replace (x ++ y ++ rest) with ((x ++ y) ++ rest) by (rewrite <- !app_assoc; reflexivity).
    apply skipn_app_exact. rewrite !app_length. lia. }
  assert (Hb : b <> []) by (unfold b; destruct x; [cbn in Hx; lia|discriminate]).
  cbn [dpass]. destruct b as [|b0 bt] eqn:Eb; [congruence|]. rewrite E1, E2, E5. reflexivity.
Qed.
Lemma dsplit_block k (a : gvec) : length a = (S k * (2 * h))%nat ->
  exists x y a', a = x ++ y ++ a' /\ length x = h /\ length y = h /\ length a' = (k * (2 * h))%nat.
Proof.
  intros H. rewrite Nat.mul_succ_l in H. exists (firstn h a), (firstn h (skipn h a)), (skipn h (skipn h a)).
  rewrite !firstn_skipn. split; [reflexivity|]. rewrite !firstn_length, !skipn_length. lia.
Qed.
Lemma dpass_app : forall k f a b, length a = (k * (2 * h))%nat -> dpass (k + f) h (a ++ b) = dpass k h a ++ dpass f h b.
Proof.
  induction k as [|k IH]; intros f a b Ha.
  - destruct a; [reflexivity|cbn in Ha; lia].
  - destruct (dsplit_block k a Ha) as [x [y [a' [-> [Hx [Hy Ha']]]]]].
    rewrite <- !app_assoc. cbn [Nat.add]. rewrite !dpass_block by assumption. rewrite (IH f a' b Ha'), !app_assoc. reflexivity.
Qed.
Lemma dpass_fuel k f (a : gvec) : length a = (k * (2 * h))%nat -> (k <= f)%nat -> dpass f h a = dpass k h a.
Proof.
  intros Ha Hf. replace f with (k + (f - k))%nat by lia. rewrite <- (app_nil_r a) at 1. rewrite (dpass_app k (f - k) a [] Ha), dpass_nil. apply app_nil_r.
Qed.
Lemma dpass_length : forall k a, length a = (k * (2 * h))%nat -> length (dpass k h a) = length a.
Proof.
  induction k as [|k IH]; intros a Ha.
  - destruct a; [reflexivity|cbn in Ha; lia].
  - destruct (dsplit_block k a Ha) as [x [y [a' [-> [Hx [Hy Ha']]]]]].
    rewrite dpass_block by assumption. rewrite !app_length, vadd_length, vsub_length, (IH a' Ha'), Hx, Hy, Nat.min_id. lia.
Qed.
Lemma dpass_len_fuel k (a : gvec) : length a = (k * (2 * h))%nat -> dpass (length a) h a = dpass k h a.
Proof. intros Ha. apply dpass_fuel; [exact Ha|]. rewrite Ha. nia. Qed.
End DPass.

Lemma pow2_pos l : (0 < Nat.pow 2 l)%nat.
Proof. induction l; cbn [Nat.pow]; lia. Qed.
Lemma dpasses_app : forall l h ka kb (a b : gvec), (0 < h)%nat ->
  length a = (ka * (h * Nat.pow 2 l))%nat -> length b = (kb * (h * Nat.pow 2 l))%nat ->
  dpasses l h (a ++ b) = dpasses l h a ++ dpasses l h b.
Proof.
  induction l as [|l IH]; intros h ka kb a b Hh Ha Hb; [reflexivity|]. cbn [dpasses].
  assert (Ha' : length a = (ka * Nat.pow 2 l * (2 * h))%nat) by (rewrite Ha; cbn [Nat.pow]; ring).
  assert (Hb' : length b = (kb * Nat.pow 2 l * (2 * h))%nat) by (rewrite Hb; cbn [Nat.pow]; ring).
  assert (Hab : length (a ++ b) = ((ka * Nat.pow 2 l + kb * Nat.pow 2 l) * (2 * h))%nat) by (rewrite app_length, Ha', Hb'; ring).
  rewrite (dpass_len_fuel h Hh _ (a ++ b) Hab), (dpass_app h Hh _ _ a b Ha'), (dpass_len_fuel h Hh _ a Ha'), (dpass_len_fuel h Hh _ b Hb').
  apply (IH (2 * h)%nat ka kb); [lia| |].
  - rewrite (dpass_length h Hh _ a Ha'), Ha. cbn [Nat.pow]. ring.
  - rewrite (dpass_length h Hh _ b Hb'), Hb. cbn [Nat.pow]. ring.
Qed.
Lemma dpasses_last : forall l h k (b : gvec), (0 < h)%nat -> length b = (k * (h * Nat.pow 2 (S l)))%nat ->
  dpasses (S l) h b = dpass (length b) (h * Nat.pow 2 l) (dpasses l h b).
Proof.
  induction l as [|l IH]; intros h k b Hh Hb.
  - cbn [dpasses Nat.pow]. rewrite Nat.mul_1_r. reflexivity.
  - assert (Hb' : length b = (k * Nat.pow 2 (S l) * (2 * h))%nat) by (rewrite Hb; cbn [Nat.pow]; ring).
    assert (HL : length (dpass (length b) h b) = length b) by (rewrite (dpass_len_fuel h Hh _ b Hb'); apply (dpass_length h Hh _ b Hb')).
    change (dpasses (S (S l)) h b) with (dpasses (S l) (2 * h) (dpass (length b) h b)).
    rewrite (IH (2 * h)%nat k (dpass (length b) h b)); [|lia|rewrite HL, Hb; cbn [Nat.pow]; ring].
    rewrite HL. change (dpasses (S l) h b) with (dpasses l (2 * h) (dpass (length b) h b)).
    replace (2 * h * Nat.pow 2 l)%nat with (h * Nat.pow 2 (S l))%nat by (cbn [Nat.pow]; ring). reflexivity.
Qed.
Theorem dbfly_iter_eq : forall n v, length v = Nat.pow 2 n -> dbfly_iter n v = dbfly n v.
Proof.
  unfold dbfly_iter. induction n as [|n IH]; intros v Hv; [reflexivity|].
  set (q := Nat.pow 2 n). assert (Hq : (0 < q)%nat) by apply pow2_pos.
  assert (Hv' : length v = (1 * (2 * q))%nat) by (rewrite Hv; cbn [Nat.pow]; fold q; lia).
  destruct (dsplit_block q Hq 0%nat v Hv') as [v0 [v1 [r [E [H0 [H1 Hr]]]]]].
  assert (r = []) as -> by (destruct r; [reflexivity|cbn in Hr; lia]). rewrite app_nil_r in E.
  rewrite (dpasses_last n 1%nat 1%nat v) by (rewrite ?Hv; lia). rewrite Nat.mul_1_l. fold q.
  assert (U : forall k (a : gvec), length a = (k * q)%nat -> length a = (k * (1 * Nat.pow 2 n))%nat) by (intros k a Ha; rewrite Ha; fold q; lia).
  assert (EP : dpasses n 1 v = dbfly n v0 ++ dbfly n v1).
  { rewrite E. rewrite (dpasses_app n 1%nat 1%nat 1%nat v0 v1); [|lia|apply U; lia|apply U; lia]. rewrite !IH by assumption. reflexivity. }
  rewrite EP, Hv. cbn [Nat.pow]. fold q.
  assert (L : forall u, length u = q -> length (dbfly n u) = q) by (intros u Hu; apply dbfly_length; exact Hu).
  replace (2 * q)%nat with (S (2 * q - 1)) by lia.
  rewrite <- (app_nil_r (dbfly n v1)).
  rewrite (dpass_block q Hq) by (apply L; assumption). rewrite dpass_nil, !app_nil_r.
  cbn [dbfly]. fold q. rewrite E, (firstn_app_exact v0 v1 q H0), (skipn_app_exact v0 v1 q H0).
  replace (firstn q v1) with v1 by (rewrite <- H1; symmetry; apply firstn_all). reflexivity.
Qed.
Theorem decompose_diag_iter_eq n d : decompose_diag_iter n d = decompose_diag n d.
Proof. unfold decompose_diag_iter, decompose_diag. apply dbfly_iter_eq. apply dvec_length. Qed.
