From Coq Require Import List Bool Lia Arith.
From PauLie Require Import ClT.
Import ListNotations.
Section S.
Variable P : Type.
Variable mul : P -> P -> P.
Variable anti : P -> P -> bool.
Hypothesis mul_assoc : forall a b c, mul (mul a b) c = mul a (mul b c).
Hypothesis mul_comm : forall a b, mul a b = mul b a.
Hypothesis mul_self : forall a b, mul (mul a b) b = a.
Hypothesis anti_sym : forall a b, anti a b = anti b a.
Hypothesis anti_mul_r : forall a b c, anti a (mul b c) = xorb (anti a b) (anti a c).
Lemma anti_mul_l a b c : anti (mul a b) c = xorb (anti a c) (anti b c).
Proof. rewrite anti_sym, anti_mul_r, (anti_sym c a), (anti_sym c b); reflexivity. Qed.

Variable m : nat.
Variable g : nat -> P.
Definition adj (i j : nat) : bool := (Nat.eqb (S i) j) || (Nat.eqb (S j) i).
Hypothesis path : forall i j, i < m -> j < m -> anti (g i) (g j) = adj i j.

(* seg i d = g i * g (i+1) * ... * g (i+d) *)
Fixpoint seg (i d : nat) : P := match d with O => g i | S d' => mul (g i) (seg (S i) d') end.

Lemma seg_snoc i d : seg i (S d) = mul (seg i d) (g (S (i + d))).
Proof. revert i; induction d as [|d IH]; intros i.
  - cbn [seg]. rewrite Nat.add_0_r. reflexivity.
  - change (seg i (S (S d))) with (mul (g i) (seg (S i) (S d))). rewrite (IH (S i)).
    change (seg i (S d)) with (mul (g i) (seg (S i) d)). rewrite mul_assoc.
    replace (S (S i + d)) with (S (i + S d)) by lia. reflexivity. Qed.

Definition anti_seg_spec (i d k : nat) : bool :=
  (Nat.eqb (S k) i) || (Nat.eqb k (S (i + d))) || ((1 <=? d) && ((Nat.eqb k i) || (Nat.eqb k (i + d)))).

Lemma anti_seg i d k : i + d < m -> k < m -> anti (seg i d) (g k) = anti_seg_spec i d k.
Proof.
  revert i; induction d as [|d IH]; intros i Hi Hk; cbn [seg].
  - rewrite path by lia. unfold adj, anti_seg_spec. rewrite Nat.add_0_r.
    repeat match goal with |- context[Nat.eqb ?a ?b] => destruct (Nat.eqb_spec a b) end;
    simpl; try reflexivity; lia.
  - rewrite anti_mul_l, path, IH by lia. unfold adj, anti_seg_spec.
    repeat match goal with |- context[Nat.eqb ?a ?b] => destruct (Nat.eqb_spec a b) end;
    repeat match goal with |- context[Nat.leb ?a ?b] => destruct (Nat.leb_spec a b) end;
    simpl; try reflexivity; lia.
Qed.

Definition G (p : P) : Prop := exists i, i < m /\ p = g i.
Inductive Reach : P -> Prop :=
| r_gen p : G p -> Reach p
| r_step t k : Reach t -> k < m -> anti t (g k) = true -> Reach (mul t (g k)).
Definition IsSeg (p : P) : Prop := exists i d, i + d < m /\ p = seg i d.

Lemma seg_reach i d : i + d < m -> Reach (seg i d).
Proof.
  induction d as [|d IH]; intros H.
  - constructor. exists i. split; [lia|reflexivity].
  - rewrite seg_snoc. apply r_step; [apply IH; lia|lia|].
    rewrite anti_seg by lia. unfold anti_seg_spec. rewrite (Nat.eqb_refl (S (i+d))). rewrite orb_true_r. reflexivity.
Qed.

Lemma seg_drop_first i d : mul (seg i (S d)) (g i) = seg (S i) d.
Proof. cbn [seg]. rewrite (mul_comm (g i)). apply mul_self. Qed.
Lemma seg_drop_last i d : mul (seg i (S d)) (g (S (i + d))) = seg i d.
Proof. rewrite seg_snoc. apply mul_self. Qed.

Theorem reach_is_seg p : Reach p <-> IsSeg p.
Proof.
  split.
  - induction 1 as [p [i [Hi ->]]|t k Ht [i [d [Hid ->]]] Hk Ha].
    + exists i, 0. split; [lia|reflexivity].
    + rewrite anti_seg in Ha by assumption. unfold anti_seg_spec in Ha.
      destruct (Nat.eqb_spec (S k) i) as [E1|N1].
      { exists k, (S d). split; [lia|]. cbn [seg]. rewrite <- E1. apply mul_comm. }
      destruct (Nat.eqb_spec k (S (i + d))) as [E2|N2].
      { exists i, (S d). split; [lia|]. rewrite seg_snoc, E2. reflexivity. }
      simpl in Ha. destruct d as [|d]; [discriminate|]. simpl in Ha.
      destruct (Nat.eqb_spec k i) as [E3|N3].
      { exists (S i), d. split; [lia|]. rewrite E3. apply seg_drop_first. }
      destruct (Nat.eqb_spec k (i + S d)) as [E4|N4]; [|discriminate].
      exists i, d. split; [lia|]. rewrite E4, Nat.add_succ_r. apply seg_drop_last.
  - intros [i [d [H ->]]]. apply seg_reach; assumption.
Qed.

(* in terms of the commutator closure: the closure of a path g_0 - g_1 - ... - g_{m-1} is exactly the set of
   products of contiguous segments g_i g_{i+1} ... g_{i+d} *)
Hypothesis anti_self : forall a, anti a a = false.
Lemma reach_iff_cl p : Reach p <-> Cl P mul anti G p.
Proof.
  rewrite (cl_is_orbits P mul anti mul_assoc mul_comm anti_sym anti_mul_r). split.
  - induction 1 as [q Hq|t k Ht [g0 [Hg0 IH]] Hk Ha].
    + exists q. split; [exact Hq|constructor].
    + exists g0. split; [exact Hg0|]. econstructor; [exact IH|exists k; split; [exact Hk|reflexivity]|exact Ha].
  - intros [g0 [Hg0 O]]. induction O as [|t h Ht IH [k [Hk ->]] Hth]; [constructor; exact Hg0|]. apply r_step; assumption.
Qed.
Theorem path_closure p : Cl P mul anti G p <-> IsSeg p.
Proof. rewrite <- reach_iff_cl. apply reach_is_seg. Qed.
End S.
