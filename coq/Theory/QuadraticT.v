(* Theory/QuadraticT.v — quadratic symmetries: distinct (component, linear symmetry) pairs have disjoint Pauli
   supports, hence are orthogonal in the trace inner product (C16). *)
From PauLie Require Import Pauli Matrix MatrixT ParserT Linear LinearT Graph GraphT Quadratic.
From Coq Require Import Lia.

Lemma quadratic_support C L t : In t (quadratic C L) -> exists s, In s C /\ t = (phase L s, s ++ smul L s).
Proof. unfold quadratic. rewrite in_map_iff. intros [s [<- Hs]]. exists s. split; [exact Hs|reflexivity]. Qed.
Lemma app_inj_len {X} (s s' x x' : list X) : length s = length s' -> s ++ x = s' ++ x' -> s = s' /\ x = x'.
Proof.
  revert s'; induction s as [|a s IH]; intros [|b s'] H E; try discriminate; [split; [reflexivity|exact E]|].
  cbn in E. injection E as -> E. injection H as H. destruct (IH s' H E) as [-> ->]. split; reflexivity.
Qed.
Lemma smul_self_cancel : forall L s, length L = length s -> smul (smul L s) s = L.
Proof. induction L as [|a L IH]; intros [|b s] H; try discriminate; [reflexivity|]. cbn. rewrite IH by (injection H; auto). destruct a, b; reflexivity. Qed.
Theorem disjoint_supports n C C' L L' :
  (forall s, In s C -> length s = n) -> (forall s, In s C' -> length s = n) -> length L = n -> length L' = n ->
  (L <> L' \/ forall s, In s C -> ~ In s C') ->
  forall t t', In t (quadratic C L) -> In t' (quadratic C' L') -> snd t <> snd t'.
Proof.
  intros HC HC' HL HL' Hd t t' Ht Ht' E.
  apply quadratic_support in Ht, Ht'. destruct Ht as [s [Hs ->]], Ht' as [s' [Hs' ->]]. cbn [snd] in E.
  apply app_inj_len in E; [|rewrite (HC s Hs), (HC' s' Hs'); reflexivity]. destruct E as [<- E].
  destruct Hd as [Hne|Hdis]; [|exact (Hdis s Hs Hs')].
  apply Hne. rewrite <- (smul_self_cancel L s), <- (smul_self_cancel L' s) by (rewrite ?HL, ?HL'; symmetry; apply HC; exact Hs). rewrite E. reflexivity.
Qed.

(* trace inner product against a combination, by coefficients *)
Lemma trace_pair n a b : all_n n a -> all_n n b ->
  mtrace n (mmul n (denote a) (denote b)) = gmul (two_n n) (gsum a (fun t => gmul (fst t) (coef b (snd t)))).
Proof.
  intros Ha Hb. induction a as [|t a IH].
  - cbn [gsum fold_right]. unfold mtrace. rewrite (gsum_ext _ _ (fun _ => g0)); [rewrite gsum_zero; unfold two_n; gring|].
    intros k Hk. rewrite (mmul_congr n (denote []) mzero (denote b) (denote b) k k (bv_len n k Hk) (bv_len n k Hk)); [apply mmul_zero_l|intros ? ? ? ?; reflexivity|intros ? ? ? ?; reflexivity].
  - rewrite (mtrace_ext n _ (madd (mscale (fst t) (mmul n (M (snd t)) (denote b))) (mmul n (denote a) (denote b)))).
    2:{ intros r c Hr Hc. rewrite (mmul_congr n _ _ (denote b) (denote b) r c Hr Hc (denote_cons_meq t a n) (fun _ _ _ _ => eq_refl)).
        rewrite mmul_add_l, mmul_scale_l. reflexivity. }
    rewrite mtrace_add, IH by (intros x Hx; apply Ha; right; exact Hx).
    assert (S : mtrace n (mscale (fst t) (mmul n (M (snd t)) (denote b))) = gmul (fst t) (mtrace n (mmul n (M (snd t)) (denote b)))).
    { unfold mtrace, mscale. apply gsum_scale. }
    rewrite S, (trace_against n (snd t) b (Ha t (or_introl eq_refl)) Hb). rewrite gsum_cons. unfold two_n. gring.
Qed.
Lemma coef_absent b p : (forall t, In t b -> snd t <> p) -> coef b p = g0.
Proof.
  intros H. unfold coef. rewrite (gsum_ext _ _ (fun _ => g0)); [apply gsum_zero|]. intros t Ht.
  destruct (pstr_eqb p (snd t)) eqn:E; [|reflexivity]. apply pstr_eqb_eq in E. exfalso. apply (H t Ht). symmetry. exact E.
Qed.
Lemma all_n_herm n a : all_n n a -> all_n n (lherm a).
Proof. intros H t Ht. unfold lherm in Ht. apply in_map_iff in Ht. destruct Ht as [x [<- Hx]]. cbn. apply H. exact Hx. Qed.
(* combinations with no Pauli string in common are orthogonal: tr(A^dagger B) = 0 *)
Theorem orthogonal_if_disjoint n a b : all_n n a -> all_n n b ->
  (forall t t', In t a -> In t' b -> snd t <> snd t') -> mtrace n (mmul n (denote (lherm a)) (denote b)) = g0.
Proof.
  intros Ha Hb Hd. rewrite (trace_pair n (lherm a) b (all_n_herm n a Ha) Hb).
  rewrite (gsum_ext _ _ (fun _ => g0)); [rewrite gsum_zero; unfold two_n; gring|]. intros t Ht.
  unfold lherm in Ht. apply in_map_iff in Ht. destruct Ht as [x [<- Hx]]. cbn [fst snd].
  rewrite coef_absent; [gring|]. intros t' Ht' E. apply (Hd x t' Hx Ht'). symmetry. exact E.
Qed.
Lemma quadratic_all_n n C L : (forall s, In s C -> length s = n) -> length L = n -> all_n (2 * n) (quadratic C L).
Proof.
  intros HC HL t Ht. apply quadratic_support in Ht. destruct Ht as [s [Hs ->]]. cbn [snd]. rewrite app_length, smul_length by (rewrite HL; symmetry; apply HC; exact Hs).
  rewrite (HC s Hs), HL. lia.
Qed.
Theorem quadratic_orthogonal n C C' L L' :
  (forall s, In s C -> length s = n) -> (forall s, In s C' -> length s = n) -> length L = n -> length L' = n ->
  (L <> L' \/ forall s, In s C -> ~ In s C') ->
  mtrace (2 * n) (mmul (2 * n) (denote (lherm (quadratic C L))) (denote (quadratic C' L'))) = g0.
Proof.
  intros HC HC' HL HL' Hd. apply orthogonal_if_disjoint; [apply quadratic_all_n; assumption|apply quadratic_all_n; assumption|].
  apply (disjoint_supports n C C' L L'); assumption.
Qed.
