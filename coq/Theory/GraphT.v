(* Theory/GraphT.v — exactness of commutants, graph edges and connected components (C14). *)
From PauLie Require Import Pauli Graph MatrixT ParserT.
From Coq Require Import Lia Permutation.

Lemma NoDup_app_intro {A} (a b : list A) : NoDup a -> NoDup b -> (forall x, In x a -> ~ In x b) -> NoDup (a ++ b).
Proof.
  induction a as [|x a IH]; intros Ha Hb Hd; [exact Hb|]. inversion Ha as [|? ? Hx Ha']; subst. cbn. constructor.
  - intros Hin. apply in_app_or in Hin. destruct Hin as [Hin|Hin]; [contradiction|]. apply (Hd x); [left; reflexivity|exact Hin].
  - apply IH; [exact Ha'|exact Hb|]. intros y Hy. apply Hd. right. exact Hy.
Qed.

(* ---------- all strings of length n ---------- *)
Lemma all_strs_In n : forall p, In p (all_strs n) <-> length p = n.
Proof.
  induction n as [|n IH]; intros p; cbn [all_strs].
  - split; [intros [<-|[]]; reflexivity|intros H; destruct p; [left; reflexivity|discriminate]].
  - rewrite in_flat_map. split.
    + intros [a [_ H]]. apply in_map_iff in H. destruct H as [q [<- Hq]]. cbn. f_equal. apply IH. exact Hq.
    + intros H. destruct p as [|a q]; [discriminate|]. exists a. split; [destruct a; cbn; tauto|]. apply in_map. apply IH. injection H; auto.
Qed.
Lemma NoDup_map_cons (a : pl) l : NoDup l -> NoDup (map (cons a) l).
Proof. intros H. apply FinFun.Injective_map_NoDup; [intros x y E; injection E; auto|exact H]. Qed.
Lemma all_strs_NoDup n : NoDup (all_strs n).
Proof.
  induction n as [|n IH]; cbn [all_strs flat_map]; [constructor; [intros []|constructor]|].
  rewrite app_nil_r.
  assert (D : forall (a : pl) (bs : list pl) x, ~ In a bs -> In x (map (cons a) (all_strs n)) ->
              ~ In x (flat_map (fun b => map (cons b) (all_strs n)) bs)).
  { intros a bs x Hab H1 H2. apply in_map_iff in H1. destruct H1 as [u [<- _]]. apply in_flat_map in H2. destruct H2 as [b [Hb H2]].
    apply in_map_iff in H2. destruct H2 as [v [E _]]. injection E as E _. subst. contradiction. }
  apply NoDup_app_intro; [apply NoDup_map_cons; exact IH| |].
  - apply NoDup_app_intro; [apply NoDup_map_cons; exact IH| |].
    + apply NoDup_app_intro; [apply NoDup_map_cons; exact IH|apply NoDup_map_cons; exact IH|].
      intros x H1 H2. apply (D PX [PY] x); [cbn; intros [E|[]]; discriminate|exact H1|cbn; rewrite app_nil_r; exact H2].
    + intros x H1 H2. apply (D PZ [PX; PY] x); [cbn; intros [E|[E|[]]]; discriminate|exact H1|cbn; rewrite app_nil_r; exact H2].
  - intros x H1 H2. apply (D PI [PZ; PX; PY] x); [cbn; intros [E|[E|[E|[]]]]; discriminate|exact H1|cbn; rewrite app_nil_r; exact H2].
Qed.

(* ---------- commutants ---------- *)
Lemma fold_filter (G : list pstr) : forall cand p,
  In p (fold_left (fun (c : list pstr) (g : pstr) => filter (fun q => negb (anti_l g q)) c) G cand) <->
  In p cand /\ forall g, In g G -> anti_l g p = false.
Proof.
  induction G as [|g G IH]; intros cand p; cbn [fold_left].
  - split; [intros H; split; [exact H|intros g []]|intros [H _]; exact H].
  - rewrite IH, filter_In. split.
    + intros [[H1 H2] H3]. split; [exact H1|]. intros h [<-|Hh]; [destruct (anti_l g p); [discriminate|reflexivity]|apply H3; exact Hh].
    + intros [H1 H2]. split; [split; [exact H1|rewrite (H2 g (or_introl eq_refl)); reflexivity]|]. intros h Hh. apply H2. right. exact Hh.
Qed.
Lemma fold_filter_NoDup (G : list pstr) : forall cand, NoDup cand ->
  NoDup (fold_left (fun (c : list pstr) (g : pstr) => filter (fun q => negb (anti_l g q)) c) G cand).
Proof. induction G as [|g G IH]; intros cand H; cbn [fold_left]; [exact H|]. apply IH. apply NoDup_filter. exact H. Qed.
(* the commutant of a non-empty collection: exactly the length-n strings commuting with every member, each once *)
Theorem commutants_spec n G : G <> [] ->
  (forall p, In p (commutants n G) <-> length p = n /\ forall g, In g G -> anti_l g p = false) /\ NoDup (commutants n G).
Proof.
  intros Hne. unfold commutants. destruct G as [|g0 G']; [congruence|]. split.
  - intros p. rewrite fold_filter, all_strs_In. reflexivity.
  - apply fold_filter_NoDup. apply all_strs_NoDup.
Qed.

(* ---------- edges ---------- *)
Lemma pairs_of_spec : forall l a b, In (a, b) (pairs_of l) <->
  exists i j, (i < j)%nat /\ nth_error l i = Some a /\ nth_error l j = Some b.
Proof.
  induction l as [|x t IH]; intros a b; cbn [pairs_of].
  - split; [intros []|intros [i [j [_ [H _]]]]; destruct i; discriminate].
  - rewrite in_app_iff, in_map_iff, IH. split.
    + intros [[y [[= <- <-] Hy]]|[i [j [Hij [Hi Hj]]]]].
      * apply In_nth_error in Hy. destruct Hy as [j Hj]. exists 0%nat, (S j). repeat split; [lia|exact Hj].
      * exists (S i), (S j). repeat split; [lia|exact Hi|exact Hj].
    + intros [i [j [Hij [Hi Hj]]]]. destruct j as [|j]; [lia|]. destruct i as [|i].
      * cbn in Hi. injection Hi as <-. left. exists b. split; [reflexivity|]. eapply nth_error_In. exact Hj.
      * right. exists i, j. repeat split; [lia|exact Hi|exact Hj].
Qed.
Lemma memG_In p l : memG p l = true <-> In p l.
Proof. apply memL_In. Qed.
Theorem graph_edges_spec gens filt a b c :
  In (a, b, c) (graph_edges gens filt) <->
  In (a, b) (pairs_of gens) /\ anti_l a b = true /\ c = smul a b /\ (filt = [] \/ In (smul a b) filt).
Proof.
  unfold graph_edges. rewrite in_flat_map. split.
  - intros [[x y] [Hp H]]. destruct (anti_l x y) eqn:Ea; cbn [andb] in H; [|destruct H].
    destruct filt as [|f0 ft] eqn:Ef.
    + destruct H as [[= <- <- <-]|[]]. repeat split; auto.
    + rewrite <- Ef in *. destruct (memG (smul x y) filt) eqn:Em; [|destruct H]. destruct H as [[= <- <- <-]|[]].
      repeat split; auto. right. apply memG_In. exact Em.
  - intros [Hp [Ha [-> Hf]]]. exists (a, b). split; [exact Hp|]. rewrite Ha. cbn [andb].
    destruct filt as [|f0 ft] eqn:Ef; [left; reflexivity|]. rewrite <- Ef in *. destruct Hf as [Hf|Hf]; [congruence|].
    apply memG_In in Hf. rewrite Hf. left. reflexivity.
Qed.
(* commutator graph: an edge {P,Q} exactly when some member g anticommutes with P and P.g = Q *)
Lemma smul_cancel : forall p q, length p = length q -> smul p (smul p q) = q.
Proof. induction p as [|a p IH]; intros [|b q] H; try discriminate; [reflexivity|]. cbn. rewrite IH by (injection H; auto). destruct a, b; reflexivity. Qed.
Theorem commutator_edge_meaning n G P Q : length P = n -> length Q = n -> (forall g, In g G -> length g = n) ->
  (anti_l P Q = true /\ In (smul P Q) G) <-> (exists g, In g G /\ anti_l g P = true /\ smul P g = Q).
Proof.
  intros HP HQ HG. split.
  - intros [Ha Hin]. exists (smul P Q). split; [exact Hin|]. split.
    + rewrite anti_l_sym. rewrite <- Ha.
      assert (E : forall p q, length p = length q -> anti_l p (smul p q) = anti_l p q).
      { induction p as [|a p IH]; intros [|b q] H; try discriminate; [reflexivity|]. cbn. rewrite IH by (injection H; auto). destruct a, b; reflexivity. }
      apply E. congruence.
    + apply smul_cancel. congruence.
  - intros [g [Hg [Ha <-]]]. assert (Lg : length g = n) by (apply HG; exact Hg). split.
    + assert (E : forall p q, length p = length q -> anti_l p (smul p q) = anti_l p q).
      { induction p as [|a p IH]; intros [|b q] H; try discriminate; [reflexivity|]. cbn. rewrite IH by (injection H; auto). destruct a, b; reflexivity. }
      rewrite E by congruence. rewrite anti_l_sym. exact Ha.
    + rewrite smul_cancel by congruence. exact Hg.
Qed.
Theorem pair_counts G : anticommutation_pair G = length (graph_edges G []) /\ pair_count G = (length G * (length G - 1) / 2)%nat.
Proof. split; reflexivity. Qed.

(* ---------- connected components ---------- *)
Section CompT.
Variable A : Type.
Variable adj : A -> A -> bool.
Notation grow := (grow A adj).
Notation components := (components A adj).

Lemma partition_filter (f : A -> bool) l : partition f l = (filter f l, filter (fun x => negb (f x)) l).
Proof. induction l as [|a t IH]; [reflexivity|]. cbn [partition filter]. rewrite IH. destruct (f a); reflexivity. Qed.
Lemma filter_split_perm (f : A -> bool) l : Permutation l (filter f l ++ filter (fun x => negb (f x)) l).
Proof.
  induction l as [|a t IH]; [constructor|]. cbn [filter]. destruct (f a); cbn [negb app].
  - constructor. exact IH.
  - apply Permutation_cons_app. exact IH.
Qed.
(* vertices joined by a path of edges (in either direction) through vertices of V *)
Inductive conn (V : A -> Prop) : A -> A -> Prop :=
| conn_refl x : V x -> conn V x x
| conn_step x y z : conn V x y -> V z -> (adj y z = true \/ adj z y = true) -> conn V x z.

Lemma grow_spec (V : A -> Prop) seed : forall fuel comp rest comp' rest',
  grow fuel comp rest = (comp', rest') ->
  (forall c, In c comp -> conn V seed c) -> (forall r, In r rest -> V r) -> (length rest <= fuel)%nat ->
  Permutation (comp ++ rest) (comp' ++ rest') /\
  (forall c, In c comp' -> conn V seed c) /\
  (forall c r, In c comp' -> In r rest' -> adj c r = false) /\
  (forall c, In c comp -> In c comp').
Proof.
  induction fuel as [|f IH]; intros comp rest comp' rest' H HC HV HL.
  - cbn in H. injection H as <- <-. destruct rest; [|cbn in HL; lia]. repeat split; auto. intros c r _ [].
  - cbn [Graph.grow] in H. rewrite partition_filter in H.
    set (nearf := fun r => existsb (fun c => adj c r) comp) in *.
    destruct (filter nearf rest) as [|n0 nt] eqn:EN.
    + injection H as <- <-. repeat split; auto.
      intros c r Hc Hr. destruct (adj c r) eqn:E; [|reflexivity]. exfalso.
      assert (In r (filter nearf rest)). { apply filter_In. split; [exact Hr|]. unfold nearf. apply existsb_exists. exists c. split; assumption. }
      rewrite EN in H. destruct H.
    + rewrite <- EN in *.
      assert (HP : Permutation rest (filter nearf rest ++ filter (fun x => negb (nearf x)) rest)) by apply filter_split_perm.
      destruct (IH (comp ++ filter nearf rest) (filter (fun x => negb (nearf x)) rest) comp' rest' H) as [P1 [P2 [P3 P4]]].
      * intros c Hc. apply in_app_or in Hc. destruct Hc as [Hc|Hc]; [apply HC; exact Hc|].
        apply filter_In in Hc. destruct Hc as [Hr Hn]. unfold nearf in Hn. apply existsb_exists in Hn. destruct Hn as [c0 [Hc0 Ha]].
        apply (conn_step V seed c0 c); [apply HC; exact Hc0|apply HV; exact Hr|left; exact Ha].
      * intros r Hr. apply filter_In in Hr. apply HV. apply Hr.
      * assert (L : (length (filter nearf rest) + length (filter (fun x => negb (nearf x)) rest) = length rest)%nat).
        { rewrite <- app_length. symmetry. apply Permutation_length. exact HP. }
        rewrite EN in L. cbn [length] in L. lia.
      * repeat split; [|exact P2|exact P3|intros c Hc; apply P4; apply in_or_app; left; exact Hc].
        rewrite <- P1. rewrite <- app_assoc. apply Permutation_app_head. exact HP.
Qed.

(* the result of `components`: a partition of the vertices into classes that are internally connected and have
   no edge from an earlier class to a later one *)
Fixpoint separated (cs : list (list A)) : Prop :=
  match cs with
  | [] => True
  | c :: rest => (forall x y, In x c -> In y (concat rest) -> adj x y = false) /\ separated rest
  end.
Theorem components_spec (V : A -> Prop) : forall fuel l, (length l <= fuel)%nat -> (forall x, In x l -> V x) ->
  Permutation (concat (components fuel l)) l /\
  Forall (fun c => exists seed, In seed c /\ forall x, In x c -> conn V seed x) (components fuel l) /\
  separated (components fuel l).
Proof.
  induction fuel as [|f IH]; intros l HL HV.
  - destruct l; [|cbn in HL; lia]. cbn. repeat split; constructor.
  - destruct l as [|a t]; [cbn; repeat split; constructor|]. cbn [Graph.components].
    destruct (grow (length t) [a] t) as [c rest] eqn:EG.
    destruct (grow_spec V a (length t) [a] t c rest EG) as [P1 [P2 [P3 P4]]].
    + intros x [<-|[]]. apply conn_refl. apply HV. left. reflexivity.
    + intros r Hr. apply HV. right. exact Hr.
    + lia.
    + assert (Lr : (length rest <= f)%nat).
      { apply Permutation_length in P1. cbn [app length] in P1. rewrite app_length in P1.
        assert (1 <= length c)%nat by (destruct c; [exfalso; apply (P4 a); left; reflexivity|cbn; lia]). cbn [length] in HL. lia. }
      assert (Vr : forall x, In x rest -> V x).
      { intros x Hx. apply HV. apply (Permutation_in x (Permutation_sym P1)). apply in_or_app. right. exact Hx. }
      destruct (IH rest Lr Vr) as [Q1 [Q2 Q3]]. cbn [concat]. repeat split.
      * rewrite Q1. symmetry. exact P1.
      * constructor; [|exact Q2]. exists a. split; [apply P4; left; reflexivity|exact P2].
      * intros x y Hx Hy. apply P3; [exact Hx|]. apply (Permutation_in y Q1). exact Hy.
      * exact Q3.
Qed.
End CompT.

(* the enumeration used by the source (repeated inc from the all-zero string, C18) is this index-ordered list;
   bounded computation, n <= 5 *)
From PauLie Require Import PauliBits.
Fixpoint lists_eqb (a b : list pstr) : bool := match a, b with [], [] => true | x :: a', y :: b' => pstr_eqb x y && lists_eqb a' b' | _, _ => false end.
Lemma gen_all_is_all_strs_small : forallb (fun n => lists_eqb (gen_all n) (all_strs n)) (seq 0 6) = true.
Proof. vm_compute. reflexivity. Qed.
