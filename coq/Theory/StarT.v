(* Theory/StarT.v — arithmetic of names and dimensions (C09, C01). *)
From PauLie Require Import Star.
From Coq Require Import Lia.
Open Scope Z_scope.

Lemma copies_mult2 nc : 1 <= nc -> 2 * copies nc = mult2 nc.
Proof.
  intros H. unfold copies, mult2. destruct (nc =? 1) eqn:E.
  - apply Z.eqb_eq in E. subst. reflexivity.
  - replace nc with (Z.succ (nc - 1)) at 2 by lia. rewrite Z.pow_succ_r by lia. reflexivity.
Qed.

Definition nc_ok (legs : list nat) : Prop :=
  match algprops legs with COk (_, nc, _) => 1 <= nc | ClassErr => True end.

(* the reported dimension is the dimension of the reported name, for every list of canonical graphs *)
Theorem dla_dim_is_name_dim : forall morphs terms d,
  Forall nc_ok morphs -> algebra_terms morphs = COk terms -> dla_dim morphs = COk d ->
  2 * d = name_dim2 terms.
Proof.
  induction morphs as [|legs ms IH]; intros terms d HF HT HD.
  - cbn in HT, HD. injection HT as <-. injection HD as <-. reflexivity.
  - inversion HF as [|? ? Hok HF']; subst. cbn [algebra_terms dla_dim fold_right] in HT, HD.
    fold (algebra_terms ms) in HT. fold (dla_dim ms) in HD.
    destruct (algebra_terms ms) as [l|] eqn:ET; [|discriminate].
    destruct (dla_dim ms) as [d'|] eqn:ED; [|discriminate].
    unfold nc_ok in Hok. destruct (algprops legs) as [[[t nc] size]|] eqn:EA; [|discriminate].
    injection HT as <-. injection HD as <-. cbn [name_dim2 fold_right]. fold (name_dim2 l).
    rewrite <- (IH l d' HF' eq_refl eq_refl). rewrite <- (copies_mult2 nc Hok). ring.
Qed.

(* the repaired dimension of one graph: copies * dim *)
Lemma dla_dim_single legs t nc size : algprops legs = COk (t, nc, size) ->
  dla_dim [legs] = COk (copies nc * dim_of t size).
Proof. intros H. cbn. rewrite H. f_equal. Qed.

(* a star of k >= 1 single legs and nothing else is named 2^(k-1) copies of so(3) by the repaired census *)
Lemma census_ones k : forall one, census (repeat 1%nat k) one 0 0 = COk (one + Z.of_nat k, 0, 0).
Proof.
  induction k as [|k IH]; intros one; cbn [repeat census].
  - f_equal. f_equal. f_equal. lia.
  - cbn [Nat.eqb]. rewrite IH. f_equal. f_equal. f_equal. lia.
Qed.
Lemma algprops_gen_star fixed k : (1 <= k)%nat ->
  algprops_gen fixed (1%nat :: repeat 1%nat k) =
  COk (ASO, Z.of_nat k, if (Z.of_nat k =? 1) || (if fixed then 2 <=? Z.of_nat k else Z.of_nat k =? 2) then 3 else 2).
Proof.
  intros Hk. unfold algprops_gen, get_properties_gen.
  destruct k as [|k]; [lia|]. cbn [repeat]. unfold counts_gen. cbn [tl].
  change (1%nat :: repeat 1%nat k) with (repeat 1%nat (S k)). rewrite census_ones.
  replace (0 + Z.of_nat (S k)) with (Z.of_nat (S k)) by lia.
  generalize (Z.of_nat (S k)). intros K. unfold adjust. cbn [Z.eqb andb].
  destruct (K =? 1) eqn:E1; cbn [orb andb Z.ltb Z.compare Z.eqb].
  - reflexivity.
  - destruct (if fixed then 2 <=? K else K =? 2); reflexivity.
Qed.
Theorem star_of_single_legs k : (1 <= k)%nat ->
  algprops (1%nat :: repeat 1%nat k) = COk (ASO, Z.of_nat k, 3).
Proof.
  intros Hk. unfold algprops. rewrite algprops_gen_star by exact Hk.
  destruct (Z.of_nat k =? 1) eqn:E; [reflexivity|].
  assert (2 <=? Z.of_nat k = true) as -> by (apply Z.leb_le; apply Z.eqb_neq in E; lia). reflexivity.
Qed.
(* ... whereas the census of the pinned snapshot names it so(2) as soon as k >= 3 *)
Theorem star_of_single_legs_old k : (3 <= k)%nat ->
  algprops_old (1%nat :: repeat 1%nat k) = COk (ASO, Z.of_nat k, 2).
Proof.
  intros Hk. unfold algprops_old. rewrite algprops_gen_star by lia.
  assert (Z.of_nat k =? 1 = false) as -> by (apply Z.eqb_neq; lia).
  assert (Z.of_nat k =? 2 = false) as -> by (apply Z.eqb_neq; lia). reflexivity.
Qed.
