(* Theory/LeqT.v — PauliStringLinear.__eq__ (both sides simplified, same strings, same coefficients) holds exactly
   when the two combinations denote the same matrix (C12). *)
From PauLie Require Import Pauli Matrix MatrixT ParserT Linear LinearT.
From Coq Require Import Lia.

Lemma gzero_iff x : gzero x = true <-> x = g0.
Proof. split; [apply gzero_true|intros ->; reflexivity]. Qed.
Lemma gi_eqb_iff x y : gi_eqb x y = true <-> x = y.
Proof.
  unfold gi_eqb. destruct x as [a b], y as [c d]. cbn [fst snd]. rewrite andb_true_iff, !Z.eqb_eq. split; [intros [-> ->]; reflexivity|intros [= -> ->]; split; reflexivity].
Qed.
Lemma dval_absent d k : ~ In k (map fst d) -> dval d k = g0.
Proof.
  intros H. unfold dval. rewrite (gsum_ext _ _ (fun _ => g0)); [apply gsum_zero|]. intros [k' e'] Hx. cbn [fst snd].
  destruct (pstr_eqb k k') eqn:E; [|reflexivity]. apply pstr_eqb_eq in E. subst k'. exfalso. apply H. apply in_map_iff. exists (k, e'). split; [reflexivity|exact Hx].
Qed.
(* lookup in the simplified term list = the collected coefficient, when it is not zero *)
Lemma lookup_nonzero d : distinct_keys d -> forall p, lookup p (nonzero_terms d) = if gzero (dval d p) then None else Some (dval d p).
Proof.
  unfold distinct_keys. induction d as [|[k e] t IH]; intros HD p; [reflexivity|]. cbn [map fst] in HD. inversion HD as [|? ? Hk HD']; subst.
  specialize (IH HD' p). rewrite dval_cons. unfold nonzero_terms in *. cbn [filter snd fst].
  destruct (pstr_eqb p k) eqn:E.
  - apply pstr_eqb_eq in E. subst k. rewrite (dval_absent t p Hk) in *. replace (gadd e g0) with e by gring.
    destruct (gzero e) eqn:Ez; cbn [negb map].
    + rewrite IH. reflexivity.
    + unfold lookup. cbn [find snd fst]. rewrite pstr_eqb_refl. reflexivity.
  - replace (gadd g0 (dval t p)) with (dval t p) by gring.
    destruct (gzero e) eqn:Ez; cbn [negb map]; [exact IH|]. unfold lookup in *. cbn [find snd fst]. rewrite E. exact IH.
Qed.
Lemma nonzero_terms_In d t : In t (nonzero_terms d) <-> In (snd t, fst t) d /\ gzero (fst t) = false.
Proof.
  unfold nonzero_terms. rewrite in_map_iff. split.
  - intros [[k e] [<- H]]. apply filter_In in H. cbn [fst snd] in *. destruct H as [H1 H2]. split; [exact H1|]. destruct (gzero e); [discriminate|reflexivity].
  - intros [H1 H2]. exists (snd t, fst t). cbn [fst snd]. split; [destruct t; reflexivity|]. apply filter_In. split; [exact H1|]. cbn [snd]. rewrite H2. reflexivity.
Qed.
Lemma lookup_In p a c : lookup p a = Some c -> exists t, In t a /\ snd t = p /\ fst t = c.
Proof.
  unfold lookup. destruct (find (fun t => pstr_eqb p (snd t)) a) as [t|] eqn:E; [|discriminate]. intros [= <-].
  apply find_some in E. destruct E as [H1 H2]. apply pstr_eqb_eq in H2. exists t. split; [exact H1|]. split; [symmetry; exact H2|reflexivity].
Qed.

Section Eq.
Variable n : nat.
(* what simplify returns, by cases *)
Definition D (a : lin) := dict_of a [].
Lemma D_keys a : distinct_keys (D a) /\ forall k, In k (map fst (D a)) <-> In k (map snd a).
Proof.
  destruct (dict_of_keys a [] ltac:(constructor)) as [H1 H2]. split; [exact H1|]. intros k. rewrite (H2 k). cbn. tauto.
Qed.
Lemma D_val a p : dval (D a) p = coef a p.
Proof. unfold D. rewrite dict_of_dval, dval_nil. gring. Qed.
Lemma simplify_cases a : a <> [] -> all_n n a ->
  (nonzero_terms (D a) <> [] /\ simplify a = nonzero_terms (D a)) \/
  ((forall p, coef a p = g0) /\ simplify a = [(g0, identity n)]).
Proof.
  intros Hne Ha.
  assert (S : simplify a = match nonzero_terms (D a) with [] => [(g0, identity (size_of a))] | l => l end) by (destruct a; [congruence|reflexivity]).
  rewrite S. destruct (nonzero_terms (D a)) as [|x l] eqn:E; [right|left; split; [discriminate|reflexivity]].
  split.
  - intros p. rewrite <- D_val. destruct (D_keys a) as [DK KEYS].
    assert (L := lookup_nonzero (D a) DK p). rewrite E in L. cbn in L.
    destruct (gzero (dval (D a) p)) eqn:Ez; [apply gzero_true; exact Ez|discriminate].
  - destruct a as [|[c0 p0] a']; [congruence|]. cbn [size_of]. assert (Hl := Ha (c0, p0) (or_introl eq_refl)). cbn [snd] in Hl. rewrite Hl. reflexivity.
Qed.
Lemma term_of_simplified a t : all_n n a -> In t (nonzero_terms (D a)) ->
  length (snd t) = n /\ coef a (snd t) = fst t /\ gzero (fst t) = false.
Proof.
  intros Ha Ht. apply nonzero_terms_In in Ht. destruct Ht as [H1 H2]. destruct (D_keys a) as [DK KEYS]. split; [|split; [|exact H2]].
  - assert (Hk : In (snd t) (map fst (D a))) by (apply in_map_iff; exists (snd t, fst t); split; [reflexivity|exact H1]).
    apply KEYS in Hk. apply in_map_iff in Hk. destruct Hk as [x [<- Hx]]. apply Ha. exact Hx.
  - rewrite <- D_val. apply (dval_entry _ DK). exact H1.
Qed.

Theorem leq_coef a b : a <> [] -> b <> [] -> all_n n a -> all_n n b ->
  (leq a b = true <-> forall p, length p = n -> coef a p = coef b p).
Proof.
  intros Hna Hnb Ha Hb. unfold leq. rewrite andb_true_iff, !forallb_forall.
  destruct (D_keys a) as [DKa _], (D_keys b) as [DKb _].
  assert (La := fun p => lookup_nonzero (D a) DKa p). assert (Lb := fun p => lookup_nonzero (D b) DKb p).
  assert (Idn : length (identity n) = n) by apply repeat_length.
  destruct (simplify_cases a Hna Ha) as [[NZa ->]|[Za ->]], (simplify_cases b Hnb Hb) as [[NZb ->]|[Zb ->]].
  - (* both non-zero *) split.
    + intros [F1 F2] p Hp. destruct (gzero (coef a p)) eqn:Ea.
      * apply gzero_true in Ea. rewrite Ea. destruct (gzero (coef b p)) eqn:Eb; [apply gzero_true in Eb; congruence|]. exfalso.
        assert (Lp := Lb p). rewrite D_val, Eb in Lp. apply lookup_In in Lp. destruct Lp as [t [Ht [E1 E2]]].
        specialize (F2 t Ht). rewrite E1, La, D_val, Ea in F2. cbn in F2. discriminate.
      * assert (Lp := La p). rewrite D_val, Ea in Lp. apply lookup_In in Lp. destruct Lp as [t [Ht [E1 E2]]].
        specialize (F1 t Ht). rewrite E1, Lb, D_val in F1. destruct (gzero (coef b p)); [discriminate|]. apply gi_eqb_iff in F1. congruence.
    + intros H. split; intros t Ht.
      * destruct (term_of_simplified a t Ha Ht) as [T1 [T2 T3]]. rewrite Lb, D_val, <- (H _ T1), T2, T3. apply gi_eqb_iff. reflexivity.
      * destruct (term_of_simplified b t Hb Ht) as [T1 [T2 T3]]. rewrite La, D_val, (H _ T1), T2, T3. reflexivity.
  - (* a non-zero, b zero *) split.
    + intros [F1 _]. exfalso. destruct (nonzero_terms (D a)) as [|t l] eqn:E; [congruence|].
      assert (Ht : In t (nonzero_terms (D a))) by (rewrite E; left; reflexivity).
      destruct (term_of_simplified a t Ha Ht) as [T1 [T2 T3]]. specialize (F1 t (or_introl eq_refl)).
      unfold lookup in F1. cbn [find snd fst] in F1. destruct (pstr_eqb (snd t) (identity n)); [|discriminate].
      apply gi_eqb_iff in F1. rewrite <- F1 in T3. discriminate.
    + intros H. exfalso. destruct (nonzero_terms (D a)) as [|t l] eqn:E; [congruence|].
      assert (Ht : In t (nonzero_terms (D a))) by (rewrite E; left; reflexivity).
      destruct (term_of_simplified a t Ha Ht) as [T1 [T2 T3]]. rewrite (H _ T1), Zb in T2. rewrite <- T2 in T3. discriminate.
  - (* a zero, b non-zero *) split.
    + intros [F1 _]. exfalso. specialize (F1 (g0, identity n) (or_introl eq_refl)). cbn [fst snd] in F1.
      rewrite Lb, D_val in F1. destruct (gzero (coef b (identity n))) eqn:Ez; [discriminate|]. apply gi_eqb_iff in F1. rewrite F1 in Ez. discriminate.
    + intros H. exfalso. destruct (nonzero_terms (D b)) as [|t l] eqn:E; [congruence|].
      assert (Ht : In t (nonzero_terms (D b))) by (rewrite E; left; reflexivity).
      destruct (term_of_simplified b t Hb Ht) as [T1 [T2 T3]]. rewrite <- (H _ T1), Za in T2. rewrite <- T2 in T3. discriminate.
  - (* both zero *) split; [intros _ p _; rewrite Za, Zb; reflexivity|]. intros _.
    split; intros t [<-|[]]; unfold lookup; cbn [find snd fst]; rewrite pstr_eqb_refl; reflexivity.
Qed.
Theorem leq_iff a b : a <> [] -> b <> [] -> all_n n a -> all_n n b ->
  (leq a b = true <-> meq n (denote a) (denote b)).
Proof. intros Hna Hnb Ha Hb. rewrite (leq_coef a b Hna Hnb Ha Hb). symmetry. apply denote_eq_iff_coef; assumption. Qed.
End Eq.
