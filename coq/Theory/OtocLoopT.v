(* Theory/OtocLoopT.v — the loop of average_otoc on letters, with its two counters (bfs_c): it is the model's BFS over the
   symplectic encoding (Model/Orbit.bfs) step for step, and it TERMINATES: the potential
   |queue| + (|G|+1) * (4^n - |visited|) decreases at every iteration, so the fuel the model uses (fuel_for) always suffices.
   Hence otoc_counts is total on collections of strings of one length (C15: the statements that excluded fuel exhaustion
   are not vacuous anywhere), and — through Refine/AppRefine.v — the source's while loop terminates. *)
From PauLie Require Import Pauli PauliBits Collection Graph Sym Orbit MatrixT ParserT GraphT GenAllT SymT OrbitT.
From Coq Require Import Lia ZifyBool.
Open Scope Z_scope.

Definition all_len (n : nat) (l : list pstr) : Prop := forall g, In g l -> length g = n.

Lemma all_len_cons n a l : all_len n (a :: l) <-> length a = n /\ all_len n l.
Proof. unfold all_len. split; [intros H; split; [apply H; left; reflexivity|intros g Hg; apply H; right; exact Hg]|intros [H1 H2] g [<-|Hg]; auto]. Qed.
Lemma all_len_nil n : all_len n []. Proof. intros g []. Qed.


Section Loop.
Variables (n : nat) (G : list pstr) (w : pstr).
Hypothesis HG : all_len n G.
Hypothesis Hw : length w = n.
Definition nbrs_l (t : pstr) : list pstr := map (smul t) (filter (anti_l t) G).
(* the loop of average_otoc with its two counters, on letters *)
Fixpoint bfs_c (fuel : nat) (queue visited : list pstr) (a s : Z) : option (Z * Z * list pstr) :=
  match fuel with
  | O => None
  | S f => match queue with
           | [] => Some (a, s, visited)
           | t :: q => if memS t visited then bfs_c f q visited a s
                       else bfs_c f (q ++ filter (fun c => negb (memS c (t :: visited))) (nbrs_l t)) (t :: visited) (if anti_l w t then a + 1 else a) (s + 1)
           end
  end.

Lemma nbrs_l_len t : length t = n -> all_len n (nbrs_l t).
Proof.
  intros Ht c Hc. unfold nbrs_l in Hc. apply in_map_iff in Hc. destruct Hc as [g [<- Hg]]. apply filter_In in Hg.
  rewrite smul_length; [exact Ht|]. rewrite Ht. symmetry. apply HG. apply Hg.
Qed.

End Loop.

(* the letter-level loop is the model's BFS over the symplectic encoding (Model/Orbit.v), counters included *)
Lemma enc_eqb n p q : length p = n -> length q = n -> P_eqb (enc p) (enc q) = pstr_eqb p q.
Proof.
  intros Hp Hq. destruct (pstr_eqb p q) eqn:E.
  - apply pstr_eqb_eq in E. subst q. apply P_eqb_eq. reflexivity.
  - destruct (P_eqb (enc p) (enc q)) eqn:E'; [|reflexivity]. apply P_eqb_eq in E'. apply enc_inj in E'; [|congruence].
    subst q. rewrite (proj2 (pstr_eqb_eq p p) eq_refl) in E. discriminate.
Qed.
Lemma memO_enc n t V : length t = n -> all_len n V -> memO (enc t) (map enc V) = memS t V.
Proof.
  intros Ht HV. unfold memO, memS. induction V as [|x V IH]; [reflexivity|]. apply all_len_cons in HV. destruct HV as [Hx HV].
  cbn [map existsb]. rewrite (enc_eqb n t x Ht Hx), (IH HV). reflexivity.
Qed.
Lemma filter_map_comm {A B} (f : A -> B) (p : B -> bool) l : filter p (map f l) = map f (filter (fun x => p (f x)) l).
Proof. induction l as [|a l IH]; [reflexivity|]. cbn [map filter]. rewrite IH. destruct (p (f a)); reflexivity. Qed.

Section OtocModel.
Variables (n : nat) (G : list pstr) (w : pstr).
Hypothesis HG : all_len n G.
Hypothesis Hw : length w = n.

Lemma nbrs_enc t : length t = n -> nbrs (map enc G) (enc t) = map enc (nbrs_l G t).
Proof.
  intros Ht. unfold nbrs, nbrs_l. rewrite filter_map_comm, !map_map.
  assert (E : filter (fun x => anti (enc t) (enc x)) G = filter (anti_l t) G).
  { apply filter_ext_in. intros g Hg. apply enc_anti. rewrite Ht. symmetry. apply HG. exact Hg. }
  rewrite E. apply map_ext_in. intros g Hg. apply filter_In in Hg. symmetry. apply enc_smul. rewrite Ht. symmetry. apply HG. apply Hg.
Qed.

Lemma bfs_c_model : forall f q V a s, all_len n q -> all_len n V ->
  match bfs (map enc G) f (map enc q) (map enc V) with
  | Some visP => exists vis, map enc vis = visP /\
       bfs_c G w f q V a s = Some (a + Z.of_nat (cntA (enc w) visP) - Z.of_nat (cntA (enc w) (map enc V)), s + Z.of_nat (length visP) - Z.of_nat (length V), vis)
  | None => bfs_c G w f q V a s = None
  end.
Proof.
  induction f as [|f IH]; intros q V a s Hq HV; [reflexivity|].
  cbn [bfs bfs_c]. destruct q as [|t q]; cbn [map].
  - exists V. split; [reflexivity|]. rewrite map_length. repeat (try lia; f_equal).
  - apply all_len_cons in Hq. destruct Hq as [Ht Hq]. rewrite (memO_enc n t V Ht HV). destruct (memS t V) eqn:EM.
    + apply IH; assumption.
    + rewrite (nbrs_enc t Ht), filter_map_comm.
      assert (EF : filter (fun x => negb (memO (enc x) (enc t :: map enc V))) (nbrs_l G t) = filter (fun c => negb (memS c (t :: V))) (nbrs_l G t)).
      { apply filter_ext_in. intros c Hc. f_equal. apply (memO_enc n c (t :: V)); [apply (nbrs_l_len n G HG t Ht); exact Hc|apply all_len_cons; split; assumption]. }
      rewrite EF, <- map_app. change (enc t :: map enc V) with (map enc (t :: V)).
      assert (Hq' : all_len n (q ++ filter (fun c => negb (memS c (t :: V))) (nbrs_l G t))).
      { intros c Hc. apply in_app_or in Hc. destruct Hc as [Hc|Hc]; [apply Hq; exact Hc|]. apply filter_In in Hc. apply (nbrs_l_len n G HG t Ht). apply Hc. }
      assert (HV' : all_len n (t :: V)) by (apply all_len_cons; split; assumption).
      specialize (IH (q ++ filter (fun c => negb (memS c (t :: V))) (nbrs_l G t)) (t :: V) (if anti_l w t then a + 1 else a) (s + 1) Hq' HV').
      destruct (bfs (map enc G) f (map enc (q ++ filter (fun c => negb (memS c (t :: V))) (nbrs_l G t))) (map enc (t :: V))) as [visP|]; [|exact IH].
      destruct IH as [vis [E1 E2]]. exists vis. split; [exact E1|]. rewrite E2. f_equal. cbn [map length]. unfold cntA. cbn [filter].
      rewrite (enc_anti w t) by congruence. destruct (anti_l w t); cbn [length]; repeat (try lia; f_equal).
Qed.

Lemma bfs_c_mono : forall f q V a s a' s' vis, bfs_c G w f q V a s = Some (a', s', vis) -> s <= s'.
Proof.
  induction f as [|f IH]; intros q V a s a' s' vis; [discriminate|]. cbn [bfs_c]. destruct q as [|t q]; [intros [= <- <- <-]; lia|].
  destruct (memS t V); intros H; apply IH in H; lia.
Qed.

(* ---------- termination ---------- *)
Lemma memS_In p l : memS p l = true <-> In p l.
Proof. apply (memG_In p l). Qed.
Lemma memS_false p l : memS p l = false <-> ~ In p l.
Proof. rewrite <- memS_In. destruct (memS p l); split; congruence. Qed.

Lemma filter_length_le {A} (f : A -> bool) l : (length (filter f l) <= length l)%nat.
Proof. induction l as [|a l IH]; cbn; [lia|]. destruct (f a); cbn; lia. Qed.

Lemma nbrs_l_count t : (length (nbrs_l G t) <= length G)%nat.
Proof. unfold nbrs_l. rewrite map_length. apply filter_length_le. Qed.

Lemma visited_bound V : all_len n V -> NoDup V -> (length V <= Nat.pow 4 n)%nat.
Proof.
  intros HV HN. rewrite <- all_strs_count. apply NoDup_incl_length; [exact HN|]. intros p Hp. apply all_strs_In. apply HV. exact Hp.
Qed.

(* potential: |queue| + (|G|+1) * (4^n - |visited|) decreases at every iteration *)
Lemma bfs_c_terminates : forall f q V a s, all_len n q -> all_len n V -> NoDup V ->
  (length q + S (length G) * (Nat.pow 4 n - length V) < f)%nat -> bfs_c G w f q V a s <> None.
Proof.
  induction f as [|f IH]; intros q V a s Hq HV HN Hf; [exfalso; exact (Nat.nlt_0_r _ Hf)|].
  cbn [bfs_c]. destruct q as [|t q]; [discriminate|].
  apply all_len_cons in Hq. destruct Hq as [Ht Hq]. cbn [length] in Hf.
  destruct (memS t V) eqn:EM.
  - apply IH; try assumption. lia.
  - apply memS_false in EM.
    assert (HV' : all_len n (t :: V)) by (apply all_len_cons; split; assumption).
    assert (HN' : NoDup (t :: V)) by (constructor; assumption).
    pose proof (visited_bound (t :: V) HV' HN') as B. cbn [length] in B.
    apply IH; try assumption.
    + intros c Hc. apply in_app_or in Hc. destruct Hc as [Hc|Hc]; [apply Hq; exact Hc|]. apply filter_In in Hc. apply (nbrs_l_len n G HG t Ht). apply Hc.
    + rewrite app_length. cbn [length].
      pose proof (filter_length_le (fun c => negb (memS c (t :: V))) (nbrs_l G t)) as F1. pose proof (nbrs_l_count t) as F2.
      remember (Nat.pow 4 n - S (length V))%nat as d eqn:Ed.
      replace (Nat.pow 4 n - length V)%nat with (S d) in Hf by lia.
      rewrite Nat.mul_succ_r in Hf. lia.
Qed.

Theorem otoc_loop_terminates v a s : length v = n ->
  exists r, bfs_c G w (fuel_for n (map enc G)) [v] [] a s = Some r.
Proof.
  intros Hv. destruct (bfs_c G w (fuel_for n (map enc G)) [v] [] a s) as [r|] eqn:E; [exists r; reflexivity|]. exfalso.
  revert E. apply bfs_c_terminates; [intros c [<-|[]]; exact Hv|apply all_len_nil|constructor|].
  unfold fuel_for. rewrite map_length. cbn [length]. rewrite Nat.sub_0_r. lia.
Qed.

(* hence the model's BFS never runs out of the fuel it is given, and otoc_counts is total *)
Theorem bfs_fuel_enough v : length v = n -> bfs (map enc G) (fuel_for n (map enc G)) [enc v] [] <> None.
Proof.
  intros Hv E. assert (Hq : all_len n [v]) by (intros c [<-|[]]; exact Hv).
  pose proof (bfs_c_model (fuel_for n (map enc G)) [v] [] 0 0 Hq (all_len_nil n)) as M. cbn [map] in M. rewrite E in M.
  destruct (otoc_loop_terminates v 0 0 Hv) as [r Er]. rewrite Er in M. discriminate.
Qed.
End OtocModel.

Theorem otoc_counts_total n G v w : all_len n G -> length v = n -> length w = n ->
  exists a s, otoc_counts n G v w = Some (a, s) /\ (0 < s)%nat /\ (a <= s)%nat.
Proof.
  intros HG Hv Hw. unfold otoc_counts. pose proof (bfs_fuel_enough n G w HG Hw v Hv) as T.
  destruct (bfs (map enc G) (fuel_for n (map enc G)) [enc v] []) as [vis|] eqn:E; [|congruence].
  eexists _, _. split; [reflexivity|]. split.
  - destruct (bfs_orbit (map enc G) (enc v) _ vis E) as [H1 _]. assert (In (enc v) vis) by (apply H1; constructor).
    destruct vis; [contradiction|cbn; lia].
  - apply (otoc_range _ _ vis (enc w)); reflexivity.
Qed.
